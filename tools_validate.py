#!/opt/veriftools/pyvenv/bin/python
"""Validate MANIFEST.json and every evidence file against the schemas."""
import json, sys, glob, jsonschema
m = json.load(open('/verif/MANIFEST.json'))
jsonschema.validate(m, json.load(open('/root/.vp/MANIFEST.schema.json')))
es = json.load(open('/root/.vp/EVIDENCE.schema.json'))
bad = 0
for c in m['checks']:
    try:
        e = json.load(open(c['evidence_file']))
        jsonschema.validate(e, es)
        assert e['property_id'] == c['property_id'] and e['level'] == c['level_claimed']['category']
        print('ok  ', c['property_id'], e['tier'], e['level'], 'evals', e['coverage'].get('evaluations'),
              'wall', e['wall_s'], 'viol', e.get('violations'))
    except Exception as ex:
        bad += 1
        print('BAD ', c['property_id'], str(ex)[:200])
sys.exit(1 if bad else 0)
