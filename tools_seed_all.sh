#!/bin/bash
# evaluate every /tmp/seed_cNN/SEED/bugK (wave 1 -> sK) and /tmp/seed2_cNN/SEED/bugK (wave 2 -> s(K+2))
# not yet present under /verif/seeded
cd /verif
for d in /tmp/seed11_c*/SEED/bug* /tmp/seed12_c*/SEED/bug*; do
  [ -f "$d/patch.diff" ] && [ -f "$d/demo.py" ] && [ -f "$d/meta.json" ] || continue
  case "$d" in
    /tmp/seed12_*) n=$(echo $d | sed "s#/tmp/seed12_c\([0-9]*\)/SEED/bug\([0-9]*\)#C\1 \2#" | awk "{printf \"%s-s%d\", \$1, \$2+22}");;
    /tmp/seed11_*) n=$(echo $d | sed "s#/tmp/seed11_c\([0-9]*\)/SEED/bug\([0-9]*\)#C\1 \2#" | awk "{printf \"%s-s%d\", \$1, \$2+20}");;
    /tmp/seed10_*) n=$(echo $d | sed "s#/tmp/seed10_c\([0-9]*\)/SEED/bug\([0-9]*\)#C\1 \2#" | awk "{printf \"%s-s%d\", \$1, \$2+18}");;
    /tmp/seed9_*) n=$(echo $d | sed "s#/tmp/seed9_c\([0-9]*\)/SEED/bug\([0-9]*\)#C\1 \2#" | awk "{printf \"%s-s%d\", \$1, \$2+16}");;
    /tmp/seed8_*) n=$(echo $d | sed "s#/tmp/seed8_c\([0-9]*\)/SEED/bug\([0-9]*\)#C\1 \2#" | awk "{printf \"%s-s%d\", \$1, \$2+14}");;
    /tmp/seed7_*) n=$(echo $d | sed "s#/tmp/seed7_c\([0-9]*\)/SEED/bug\([0-9]*\)#C\1 \2#" | awk "{printf \"%s-s%d\", \$1, \$2+12}");;
    /tmp/seed6_*) n=$(echo $d | sed "s#/tmp/seed6_c\([0-9]*\)/SEED/bug\([0-9]*\)#C\1 \2#" | awk "{printf \"%s-s%d\", \$1, \$2+10}");;
    /tmp/seed5_*) n=$(echo $d | sed "s#/tmp/seed5_c\([0-9]*\)/SEED/bug\([0-9]*\)#C\1 \2#" | awk "{printf \"%s-s%d\", \$1, \$2+8}");;
    /tmp/seed4_*) n=$(echo $d | sed "s#/tmp/seed4_c\([0-9]*\)/SEED/bug\([0-9]*\)#C\1 \2#" | awk "{printf \"%s-s%d\", \$1, \$2+6}");;
    /tmp/seed3_*) n=$(echo $d | sed "s#/tmp/seed3_c\([0-9]*\)/SEED/bug\([0-9]*\)#C\1 \2#" | awk "{printf \"%s-s%d\", \$1, \$2+4}");;
    /tmp/seed2_*) n=$(echo $d | sed 's#/tmp/seed2_c\([0-9]*\)/SEED/bug\([0-9]*\)#C\1 \2#' | awk '{printf "%s-s%d", $1, $2+2}');;
    *) n=$(echo $d | sed 's#/tmp/seed_c\([0-9]*\)/SEED/bug\([0-9]*\)#C\1-s\2#');;
  esac
  [ -d "seeded/$n" ] && continue
  echo "=== $n"
  /venv/bin/python tools_seed_eval.py "$d" "$n" 2>&1 | grep -v conda | /venv/bin/python -c "
import sys,json
t=sys.stdin.read()
try:
    r=json.loads(t[t.index('{'):])
    print(r['seed'], 'applies',r.get('patch_applies'),'demo',r.get('demo_clean_rc'),r.get('demo_patched_rc'),'tests',r.get('tests_match_baseline'),'DETECTED' if r.get('detected') else 'MISSED', {k:(v['rc'],v['violation_keys'][:4]) for k,v in r.get('checks',{}).items()})
except Exception as e:
    print('eval failed', e, t[-500:])
"
done
