"""E3: stateless explorer of environment choices (random draws) with
state hashing on the real interpreter frames, deviation bounding and horizon.

The `random` module is taken over for the duration of an exploration: an
Oracle (subclass of random.Random) replaces random._inst and every
module-level function, so every draw made by cnfgen, by the stdlib helpers
(sample/shuffle/choice/randint...) and by networkx (which uses random._inst)
is a choice point owned by the explorer.

Exploration = classic stateless DFS: re-execute the body from scratch with a
prefix of recorded choices, answer 0 afterwards, push every alternative of
every new choice point.  Reductions:

* state hashing (hashing=True): at each NEW choice point the explorer walks
  the Python frames from the oracle up to the body and builds a canonical key
  of (code, f_lasti, locals) of every frame.  The part of a frame's state that
  Python does not expose (temporaries on the value stack) is reconstructed
  soundly as "the choices made since the current statement of that frame
  began, up to the entry of the active callee" (over-approximated from the
  frames seen at earlier choice points, see Explorer._note_point), and
  enclosing `for` loops whose iterable is not a transparent expression over
  visible objects make the key unique (no merge).  A revisited key cuts the
  execution: its future was already explored from the first visit.
* deviation bound (max_dev): only executions with at most max_dev non-default
  answers are run (reported as such, never as exhaustive).
* horizon: executions reaching `horizon` choice points are abandoned and
  counted.
"""
import ast
import sys
import types
import random as _random
import itertools
import linecache
import warnings


class Divergence(Exception):
    """A replayed prefix does not fit the execution: harness nondeterminism."""


class Unsupported(Exception):
    pass


class _Cut(BaseException):
    pass


class _Horizon(BaseException):
    pass


_REAL_RANDOM_CLASS = _random.Random
_MODULE_FUNCS = ['seed', 'random', 'uniform', 'triangular', 'randint', 'choice',
                 'randrange', 'sample', 'shuffle', 'choices', 'normalvariate',
                 'lognormvariate', 'expovariate', 'vonmisesvariate',
                 'gammavariate', 'gauss', 'betavariate', 'paretovariate',
                 'weibullvariate', 'getstate', 'setstate', 'getrandbits',
                 'randbytes', 'binomialvariate']


class Oracle(_REAL_RANDOM_CLASS):
    """random.Random whose primitives are choice points of an Explorer."""
    FLOATS = (0.0, 0.999999)

    def __init__(self, explorer):
        self._xp = explorer
        super().__init__(0)

    def seed(self, a=None, version=2):
        xp = getattr(self, '_xp', None)
        if xp is not None and xp.active:
            xp.events.append(('seed', a if isinstance(a, (int, str, type(None), float)) else repr(a),
                              len(xp.trace)))
            if xp.streams:
                xp._cursor['G'] = [repr(a), 0] if a is not None else None
        else:
            super().seed(0)

    def _note(self):
        # which generator draws: ('gdraw', position) is logged for the first
        # draw of every run of draws on the process-wide generator (the runs
        # are separated by seed events), private instances are only counted
        xp = self._xp
        if getattr(self, '_private', False):
            xp.private_draws += 1
        elif not xp.events or xp.events[-1][0] != 'gdraw':
            xp.events.append(('gdraw', len(xp.trace)))

    def _gid(self):
        return id(self) if getattr(self, '_private', False) else 'G'

    def random(self):
        self._note()
        return self.FLOATS[self._xp.choose(2, 'random', self._gid())]

    def getrandbits(self, k):
        if k < 0:
            raise ValueError('number of bits must be non-negative')
        if k > 5:
            raise Unsupported('getrandbits(%d) is outside the explorer alphabet' % k)
        self._note()
        return self._xp.choose(1 << k, 'bits', self._gid())

    def _randbelow(self, n):
        if n <= 0:
            raise ValueError('empty range')
        self._note()
        return self._xp.choose(n, 'below', self._gid())

    def getstate(self):
        return ('oracle',)

    def setstate(self, state):
        pass

    def __reduce__(self):
        return (object, ())


class PrivateOracle(Oracle):
    """What `random.Random(x)` builds while an Explorer with private=True is
    running: a generator of its own whose draws are choice points as well (so
    that code paths behind a private generator stay explorable); its creation
    and seeding are logged as ('new', x, position) / ('pseed', x, position)."""
    _private = True

    def __init__(self, x=None):
        xp = _CURRENT
        if xp is None:
            raise RuntimeError('PrivateOracle outside an exploration')
        self._xp = xp
        _REAL_RANDOM_CLASS.__init__(self, 0)
        xp.events.append(('new', x if isinstance(x, (int, str, type(None), float)) else repr(x),
                          len(xp.trace)))
        if xp.streams:
            xp._cursor[id(self)] = [repr(x), 0] if x is not None else None

    def seed(self, a=None, version=2):
        xp = getattr(self, '_xp', None)
        if xp is not None and xp.active:
            xp.events.append(('pseed', a if isinstance(a, (int, str, type(None), float))
                              else repr(a), len(xp.trace)))
            if xp.streams:
                xp._cursor[id(self)] = [repr(a), 0] if a is not None else None


# ---------------------------------------------------------------------------
# static information about source files: statement start lines, for loops
# ---------------------------------------------------------------------------
_FILEINFO = {}
_PURE_CALLS = {'range', 'sorted', 'list', 'tuple', 'enumerate', 'zip', 'reversed',
               'len', 'min', 'max', 'set', 'frozenset', 'combinations', 'product',
               'permutations', 'iter', 'abs', 'int'}


def _transparent(node):
    """True if evaluating `node` depends only on visible objects (names,
    attributes, constants) through pure builtins: its value can be recomputed
    from the frame's locals, so an iterator over it hides nothing beyond the
    loop position, which the loop target reveals for sequences of distinct
    elements."""
    if isinstance(node, (ast.Name, ast.Constant)):
        return True
    if isinstance(node, ast.Attribute):
        return _transparent(node.value)
    if isinstance(node, ast.Subscript):
        return _transparent(node.value) and _transparent(node.slice)
    if isinstance(node, (ast.Tuple, ast.List)):
        return all(_transparent(e) for e in node.elts)
    if isinstance(node, ast.BinOp):
        return _transparent(node.left) and _transparent(node.right)
    if isinstance(node, ast.UnaryOp):
        return _transparent(node.operand)
    if isinstance(node, ast.Slice):
        return all(x is None or _transparent(x) for x in (node.lower, node.upper, node.step))
    if isinstance(node, ast.Call):
        f = node.func
        ok = False
        if isinstance(f, ast.Name) and f.id in _PURE_CALLS:
            ok = True
        # method calls on visible objects that only read them (graph views)
        if isinstance(f, ast.Attribute) and f.attr in (
                'parts', 'vertices', 'edges', 'keys', 'values', 'items',
                'right_neighbors', 'left_neighbors', 'neighbors', 'domain', 'range',
                'indices', 'nodes', 'number_of_vertices', 'order', 'left_order',
                'right_order', 'predecessors', 'successors', 'variables', 'clauses'):
            ok = _transparent(f.value)
        return ok and all(_transparent(a) for a in node.args) and not node.keywords
    return False


def _fileinfo(filename):
    info = _FILEINFO.get(filename)
    if info is not None:
        return info
    try:
        src = ''.join(linecache.getlines(filename))
        tree = ast.parse(src)
    except Exception:
        _FILEINFO[filename] = False
        return False
    stmt_lines = {}     # line -> first line of the innermost statement (its
    #                     header part, for compound statements) covering it
    opaque_for = {}     # position of the iterable expr -> (first, last line)
    spans = []
    for node in ast.walk(tree):
        if isinstance(node, ast.stmt):
            last = node.end_lineno
            body = getattr(node, 'body', None)
            if isinstance(body, list) and body and isinstance(body[0], ast.stmt):
                last = max(node.lineno, body[0].lineno - 1)
            spans.append((node.lineno, last))
    # inner statements are visited later by ast.walk (BFS) -> they overwrite
    for (a, b) in sorted(spans, key=lambda ab: (ab[0], -ab[1])):
        for ln in range(a, b + 1):
            stmt_lines[ln] = a
    for node in ast.walk(tree):
        if isinstance(node, (ast.For, ast.AsyncFor)):
            if not _transparent(node.iter):
                it = node.iter
                opaque_for[(it.lineno, it.end_lineno, it.col_offset,
                            it.end_col_offset)] = (node.lineno, node.end_lineno)
    info = {'stmt': stmt_lines, 'opaque': opaque_for}
    _FILEINFO[filename] = info
    return info


_CODEINFO = {}


def _opaque_loops(code):
    """[(offset_of_GET_ITER, first_line, last_line)] of the `for` statements
    of this code object whose iterable is not transparent.  Such a loop is
    ACTIVE in a frame (its hidden iterator is on the value stack) iff the
    frame's f_lasti is beyond the GET_ITER and its line is inside the loop."""
    res = _CODEINFO.get(code)
    if res is not None:
        return res
    info = _fileinfo(code.co_filename)
    res = []
    if info and info['opaque']:
        import dis
        for ins in dis.get_instructions(code):
            if ins.opname == 'GET_ITER' and ins.positions is not None:
                pos = (ins.positions.lineno, ins.positions.end_lineno,
                       ins.positions.col_offset, ins.positions.end_col_offset)
                span = info['opaque'].get(pos)
                if span is not None:
                    res.append((ins.offset, span[0], span[1]))
    _CODEINFO[code] = res
    return res


def _hides_state(code, lasti, lineno):
    for (off, a, b) in _opaque_loops(code):
        if lasti > off and a <= lineno <= b:
            return True
    return False


# ---------------------------------------------------------------------------
# exact statement starts through sys.monitoring LINE events, enabled lazily and
# only for code objects that were seen on the stack at some choice point
_TOOL = None
_CURRENT = None
_MONITORED = set()


def _line_event(code, line):
    xp = _CURRENT
    if xp is None or xp._lstart is None:
        return None
    info = _fileinfo(code.co_filename)
    if info and info['stmt'].get(line, line) != line:
        return None          # continuation line of a multi-line statement
    xp._lstart[sys._getframe(1)] = len(xp.trace)
    return None


def _monitor(code):
    global _TOOL
    if code in _MONITORED:
        return
    mon = getattr(sys, 'monitoring', None)
    if mon is None:
        return
    if _TOOL is None:
        for tid in (3, 4, 5, 2, 1, 0):
            try:
                mon.use_tool_id(tid, 'verif-xp')
                _TOOL = tid
                break
            except ValueError:
                continue
        if _TOOL is None:
            return
        mon.register_callback(_TOOL, mon.events.LINE, _line_event)
    mon.set_local_events(_TOOL, code, mon.events.LINE)
    _MONITORED.add(code)


class Explorer:
    def __init__(self, body, hashing=True, horizon=200, max_dev=None,
                 max_execs=None, on_result=None, stop_frame_code=None,
                 default='zero', default_seed=0, private=False, on_partial=None,
                 streams=False):
        # streams=True models a seeded pseudo-random generator: after seed(a)
        # (or random.Random(a)) the answers are an arbitrary but FIXED function
        # of (a, position) -- chosen by the explorer the first time a position
        # is asked for, replayed (no new choice point) whenever the same seed is
        # set again in the same execution.  "Same seed, same result" can then be
        # checked under every possible stream.  Not combined with hashing (the
        # streams are state the frames do not show).
        if streams and hashing:
            raise ValueError('streams=True needs hashing=False')
        self.streams = streams
        self._streams = {}
        self._cursor = {}
        self.replayed_draws = 0
        self.private = private
        self.on_partial = on_partial
        self.private_draws = 0
        self.body = body
        self.hashing = hashing
        self.horizon = horizon
        self.max_dev = max_dev
        self.max_execs = max_execs
        self.on_result = on_result
        # default answer of a new choice point: 0 ('zero') or a fixed
        # pseudo-random but deterministic function of the position ('mix');
        # deviations are counted against this default schedule
        self.default = default
        self.default_seed = default_seed
        self.active = False
        self.oracle = Oracle(self)
        self.seen = set()
        self.stats = {'executions': 0, 'completed': 0, 'cut': 0, 'horizon': 0,
                      'states': 0, 'transitions': 0, 'unique_keys': 0,
                      'cap_hit': 0, 'max_choices': 0}
        self._uniq = itertools.count()
        self._saved = None

    # ---- taking over the random module ----------------------------------
    def _install(self):
        saved = {'_inst': _random._inst}
        for name in _MODULE_FUNCS:
            if hasattr(_random, name):
                saved[name] = getattr(_random, name)
                setattr(_random, name, getattr(self.oracle, name))
        _random._inst = self.oracle
        if self.private:
            saved['Random'] = _random.Random
            _random.Random = PrivateOracle
        self._saved = saved

    def _uninstall(self):
        for name, val in self._saved.items():
            setattr(_random, name, val)
        self._saved = None

    def _default(self, i, n):
        if self.default == 'zero' or n <= 1:
            return 0
        if isinstance(self.default, str) and self.default.startswith('zero:'):
            # all-zero answers for the first T choice points (drives rejection
            # samplers through all their retries), the mixed schedule afterwards
            # (so that rejection loops over large populations terminate)
            if i < int(self.default[5:]):
                return 0
        x = (i * 0x9E3779B1 + self.default_seed * 0x85EBCA6B + 0x27D4EB2F) & 0xFFFFFFFF
        x ^= x >> 15
        x = (x * 0x2C1B3C6D) & 0xFFFFFFFF
        x ^= x >> 12
        x = (x * 0x297A2D39) & 0xFFFFFFFF
        x ^= x >> 15
        return x % n

    # ---- choice points ------------------------------------------------------
    def choose(self, n, kind, gid='G'):
        cur = self._cursor.get(gid) if self.streams else None
        if cur is not None:
            st = self._streams.setdefault(cur[0], [])
            if cur[1] < len(st) and st[cur[1]][0] == n:
                c = st[cur[1]][1]
                cur[1] += 1
                self.replayed_draws += 1
                return c
        c = self._choose(n, kind)
        if cur is not None:
            del st[cur[1]:]
            st.append((n, c))
            cur[1] += 1
        return c

    def _choose(self, n, kind):
        i = len(self.trace)
        chain = self._note_point() if self.hashing else None
        if i < len(self.prefix):
            c = self.prefix[i]
            if c >= n:
                raise Divergence('replayed choice %d >= arity %d at point %d' % (c, n, i))
        else:
            if i >= self.horizon:
                raise _Horizon()
            if self.hashing:
                key = self._state_key(n, kind, chain)
                if key in self.seen:
                    raise _Cut()
                self.seen.add(key)
            c = self._default(i, n)
        self.trace.append(c)
        self.arity.append(n)
        return c

    # ---- choices since statement start (no tracing needed) --------------
    def _note_point(self):
        """Book-keeping done at EVERY choice point (replayed or new): for each
        frame of the stack remember since which choice point it has been
        sitting on the same statement (`_run`), and at which choice point this
        activation was first seen (`_first`).  The temporaries a frame keeps on
        its value stack are a function of its locals and of the choices made
        since its current statement began and before the active callee was
        entered; `_run` over-approximates "since the statement began" (it never
        starts later than the statement), which is sound for state merging."""
        i = len(self.trace)
        f = sys._getframe(3)
        stop = self._stop_code
        chain = []
        run, first, prev = self._run, self._first, self._prev
        now = set()
        while f is not None and f.f_code is not stop:
            info = _fileinfo(f.f_code.co_filename)
            line = f.f_lineno
            if info:
                line = info['stmt'].get(line, line)
            r = run.get(f)
            if r is None or r[0] != line or f not in prev:
                run[f] = (line, i)
            if f.f_code not in _MONITORED:
                _monitor(f.f_code)
            if f not in first:
                first[f] = i
            now.add(f)
            chain.append(f)
            f = f.f_back
        self._prev = now
        return chain

    def _state_key(self, n, kind, chain):
        parts = [kind, n]
        memo = {}
        callee_first = len(self.trace)
        for f in chain:
            code = f.f_code
            info = _fileinfo(code.co_filename)
            start = self._run[f][1]
            ls = self._lstart.get(f)
            if ls is not None and ls > start:
                start = ls       # exact start of the current statement
            hidden = tuple(self.trace[start:callee_first])
            if info is False or _hides_state(code, f.f_lasti, f.f_lineno):
                parts.append(('unique', next(self._uniq)))
                self.stats['unique_keys'] += 1
            parts.append((code.co_filename, code.co_firstlineno, code.co_name,
                          f.f_lasti, hidden, self._canon(f.f_locals, memo)))
            callee_first = self._first[f]
        return tuple(parts)

    def _canon(self, x, memo):
        t = type(x)
        if x is None or t in (bool, int, float, str, bytes):
            return (t.__name__, x)
        i = id(x)
        if i in memo:
            return ('ref', memo[i])
        if t in (list, tuple):
            memo[i] = len(memo)
            return (t.__name__, tuple(self._canon(e, memo) for e in x))
        if t is dict:
            memo[i] = len(memo)
            return ('dict', tuple((self._canon(k, memo), self._canon(v, memo))
                                  for k, v in x.items()))
        if t in (set, frozenset):
            memo[i] = len(memo)
            return ('set', tuple(sorted((self._canon(e, memo) for e in x), key=repr)))
        if t is range:
            return ('range', x.start, x.stop, x.step)
        if x is self.oracle or isinstance(x, Oracle):
            return ('oracle',)
        if t in (types.FunctionType, types.BuiltinFunctionType, types.MethodType,
                 types.ModuleType, type, types.MethodWrapperType,
                 types.BuiltinMethodType):
            if t is types.MethodType:
                return ('method', x.__func__.__qualname__, self._canon(x.__self__, memo))
            if t is types.FunctionType and x.__closure__:
                memo[i] = len(memo)
                cells = []
                for c in x.__closure__:
                    try:
                        cells.append(self._canon(c.cell_contents, memo))
                    except ValueError:
                        cells.append(('emptycell',))
                return ('func', x.__qualname__, tuple(cells))
            return ('named', getattr(x, '__qualname__', getattr(x, '__name__', repr(x))))
        if t is types.GeneratorType:
            memo[i] = len(memo)
            gf = x.gi_frame
            if gf is None:
                return ('gen-done',)
            info = _fileinfo(gf.f_code.co_filename)
            if info is False or _hides_state(gf.f_code, gf.f_lasti, gf.f_lineno):
                self.stats['unique_keys'] += 1
                return ('unique', next(self._uniq))
            return ('gen', gf.f_code.co_name, gf.f_code.co_firstlineno, gf.f_lasti,
                    self._canon(gf.f_locals, memo))
        if t is types.FrameType:
            return ('frame', x.f_code.co_name)
        mod = t.__module__
        if mod == 'builtins' or mod == 'itertools' or mod == 'collections':
            # iterators of builtin containers and itertools objects expose
            # their state through __reduce__
            try:
                with warnings.catch_warnings():
                    warnings.simplefilter('ignore')
                    red = x.__reduce__()
                memo[i] = len(memo)
                return ('reduce', t.__name__, self._canon(red[1:], memo))
            except Exception:
                pass
        d = getattr(x, '__dict__', None)
        if isinstance(d, dict) and mod not in ('builtins',):
            memo[i] = len(memo)
            slots = ()
            return ('inst', t.__qualname__, self._canon(d, memo), slots)
        self.stats['unique_keys'] += 1
        return ('unique', next(self._uniq))

    # ---- one execution ------------------------------------------------------
    def _execute(self, prefix):
        self.prefix = prefix
        self.trace = []
        self.arity = []
        self.events = []
        self._streams = {}
        self._cursor = {}
        global _CURRENT
        self._run = {}
        self._first = {}
        self._prev = set()
        self._lstart = {}
        _CURRENT = self
        self._stop_code = Explorer._execute.__code__
        status = 'done'
        result = None
        exc = None
        self._install()
        self.active = True
        try:
            try:
                result = self.body()
            finally:
                self._run = self._first = self._prev = self._lstart = None
                _CURRENT = None
                self.active = False
                self._uninstall()
        except _Cut:
            status = 'cut'
        except _Horizon:
            status = 'horizon'
        except (Divergence, Unsupported):
            raise
        except Exception as e:
            exc = e
        if status == 'done' and len(self.trace) < len(prefix):
            raise Divergence('execution ended after %d choices, prefix has %d' %
                             (len(self.trace), len(prefix)))
        return {'status': status, 'choices': tuple(self.trace),
                'arity': tuple(self.arity), 'result': result, 'exception': exc,
                'events': list(self.events)}

    def run(self):
        stack = [()]
        st = self.stats
        while stack:
            if self.max_execs is not None and st['executions'] >= self.max_execs:
                st['cap_hit'] += 1
                break
            prefix = stack.pop()
            x = self._execute(prefix)
            st['executions'] += 1
            st['transitions'] += len(x['choices']) - len(prefix) + (1 if prefix else 0)
            st['max_choices'] = max(st['max_choices'], len(x['choices']))
            if x['status'] == 'done':
                st['completed'] += 1
                if self.on_result is not None:
                    self.on_result(x)
            elif x['status'] == 'cut':
                st['cut'] += 1
                if self.on_partial is not None:
                    self.on_partial(x)
            else:
                st['horizon'] += 1
                st['cap_hit'] += 1
                if self.on_partial is not None:
                    self.on_partial(x)
            ch, ar = x['choices'], x['arity']
            dev = sum(1 for i, c in enumerate(ch[:len(prefix)]) if c != self._default(i, ar[i]))
            # push alternatives of the new points, deepest first so that the
            # DFS explores shallow deviations last (order is irrelevant for
            # coverage)
            new_points = range(len(prefix), len(ch))
            pushes = []
            d = dev
            for i in new_points:
                # ch[i] is the default answer for all new points
                if self.max_dev is None or d + 1 <= self.max_dev:
                    for alt in range(ar[i]):
                        if alt != ch[i]:
                            pushes.append(ch[:i] + (alt,))
            stack.extend(reversed(pushes))
        st['states'] = len(self.seen) if self.hashing else st['executions']
        return st

    def replay(self, choices):
        """Run one recorded schedule (no hashing, no alternatives)."""
        old = self.hashing
        self.hashing = False
        try:
            x = self._execute(tuple(choices))
        finally:
            self.hashing = old
        if x['choices'][:len(choices)] != tuple(choices):
            raise Divergence('replay diverged')
        return x


def explore(body, on_result, **kw):
    xp = Explorer(body, on_result=on_result, **kw)
    return xp.run()


def replay(body, choices, **kw):
    return Explorer(body, hashing=False, **kw).replay(choices)


# ---------------------------------------------------------------------------
class Recorder(_REAL_RANDOM_CLASS):
    """Pass-through generator that records the order of seed() calls and
    draws (used by the C07 monitor: no draw may precede the seeding)."""

    def __init__(self):
        super().__init__(12345)
        self.log = []

    def seed(self, a=None, version=2):
        if hasattr(self, 'log'):
            self.log.append(('seed', a))
        super().seed(a, version)

    def random(self):
        if hasattr(self, 'log'):
            self.log.append(('draw',))
        return super().random()

    def getrandbits(self, k):
        if hasattr(self, 'log'):
            self.log.append(('draw',))
        return super().getrandbits(k)


def with_recorder(fn):
    rec = Recorder()
    saved = {'_inst': _random._inst}
    for name in _MODULE_FUNCS:
        if hasattr(_random, name):
            saved[name] = getattr(_random, name)
            setattr(_random, name, getattr(rec, name))
    _random._inst = rec
    try:
        result = fn()
    finally:
        for name, val in saved.items():
            setattr(_random, name, val)
    return result, rec.log
