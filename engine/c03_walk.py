"""Exhaustive walk of the assignment tree with a dynamic branching order
(helper of checks/c03_contradictions.py; same contract as
engine.tt.enumerate_models, different visiting order).

The walk is complete by construction:

* a subtree is abandoned only when some clause has all its literals false
  under the partial assignment (every total assignment below falsifies that
  clause, i.e. is a non-model);
* when a clause has exactly one unassigned literal and no true literal, the
  value that falsifies this literal is an abandoned subtree of one node, so
  only the other value is visited (unit propagation);
* when every clause already has a true literal, all total assignments below
  are models: they are counted as 2^(free variables) and, if models are being
  listed, expanded one by one.

Nothing else prunes.  The branching variable is taken from a clause that is
not yet satisfied, preferring clauses that already have a false literal and
among those the fewest unassigned literals (ties: first clause, first
literal); this keeps the tree small on formulas that have a short tree-like
refutation.  An optional static `order` (list of variables) is consulted
first.  The order only decides which tree is walked, never what is pruned.

`selftest()` compares the walk with the bit-parallel truth table of engine.tt
on an exhaustive family of small CNFs.
"""
import sys


class TooManyNodes(Exception):
    pass


def walk(n, clauses, order=None, limit_models=None, node_cap=None,
         list_models=True):
    """Returns (number_of_models, list_of_models_as_true_var_tuples, nodes).

    With list_models=False the list is empty and only the count is exact.
    With limit_models=k the walk stops after k models have been found
    (count/list are then lower bounds)."""
    cls = []
    for c in clauses:
        c = tuple(c)
        for lit in c:
            if lit == 0 or abs(lit) > n:
                raise ValueError('literal %r outside 1..%d' % (lit, n))
        cls.append(c)
    if any(len(c) == 0 for c in cls):
        return 0, [], 1
    occ = {}
    for idx, c in enumerate(cls):
        for lit in c:
            occ.setdefault(lit, []).append(idx)
    ncl = len(cls)
    assign = [0] * (n + 1)          # 0 unassigned, 1 true, -1 false
    # per clause: number of true literals, number of unassigned literals
    ntrue = [0] * ncl
    nfree = [len(c) for c in cls]
    clen = [len(c) for c in cls]
    unsat_cnt = [ncl]                # clauses without a true literal
    order = list(order or [])
    state = {'count': 0, 'nodes': 0}
    found = []

    class _Stop(Exception):
        pass

    def set_lit(lit, trail):
        """Assign lit true.  Returns False when a clause became falsified."""
        assign[abs(lit)] = 1 if lit > 0 else -1
        trail.append(lit)
        ok = True
        for idx in occ.get(lit, ()):
            if ntrue[idx] == 0:
                unsat_cnt[0] -= 1
            ntrue[idx] += 1
            nfree[idx] -= 1
        for idx in occ.get(-lit, ()):
            nfree[idx] -= 1
            if ntrue[idx] == 0 and nfree[idx] == 0:
                ok = False
        return ok

    def undo(trail):
        while trail:
            lit = trail.pop()
            assign[abs(lit)] = 0
            for idx in occ.get(lit, ()):
                ntrue[idx] -= 1
                if ntrue[idx] == 0:
                    unsat_cnt[0] += 1
                nfree[idx] += 1
            for idx in occ.get(-lit, ()):
                nfree[idx] += 1

    def propagate(trail, start):
        i = start
        while i < len(trail):
            lit = trail[i]
            i += 1
            for idx in occ.get(-lit, ()):
                if ntrue[idx] == 0 and nfree[idx] == 1:
                    # find the single unassigned literal
                    for l2 in cls[idx]:
                        if assign[abs(l2)] == 0:
                            if not set_lit(l2, trail):
                                return False
                            break
        return True

    def emit_models():
        free = [v for v in range(1, n + 1) if assign[v] == 0]
        state['count'] += 1 << len(free)
        if list_models:
            base = [v for v in range(1, n + 1) if assign[v] > 0]
            for m in range(1 << len(free)):
                extra = [free[j] for j in range(len(free)) if (m >> j) & 1]
                found.append(tuple(sorted(base + extra)))
                if limit_models is not None and len(found) >= limit_models:
                    raise _Stop()
        elif limit_models is not None and state['count'] >= limit_models:
            raise _Stop()

    def choose():
        for v in order:
            if assign[v] == 0:
                return v
        # prefer clauses that already lost a literal (stay where the last
        # decisions had an effect), then the fewest unassigned literals
        best = None
        bestkey = None
        for idx in range(ncl):
            if ntrue[idx] == 0:
                k = nfree[idx]
                key = (0 if k < clen[idx] else 1, k)
                if bestkey is None or key < bestkey:
                    best, bestkey = idx, key
                    if key == (0, 2):
                        break
        for lit in cls[best]:
            if assign[abs(lit)] == 0:
                return abs(lit)
        raise AssertionError('open clause without unassigned literal')

    def rec():
        state['nodes'] += 1
        if node_cap is not None and state['nodes'] > node_cap:
            raise TooManyNodes()
        if unsat_cnt[0] == 0:
            emit_models()
            return
        var = choose()
        for val in (-1, 1):
            trail = []
            if set_lit(var * val, trail) and propagate(trail, 0):
                rec()
            undo(trail)

    trail0 = []
    ok = True
    for c in cls:
        if len(c) == 1 and ok:
            v = assign[abs(c[0])]
            want = 1 if c[0] > 0 else -1
            if v == 0:
                ok = set_lit(c[0], trail0)
            elif v != want:
                ok = False
    old = sys.getrecursionlimit()
    sys.setrecursionlimit(max(old, 4 * n + 1000))
    try:
        if ok and propagate(trail0, 0):
            rec()
    except _Stop:
        pass
    finally:
        sys.setrecursionlimit(old)
    return state['count'], found, state['nodes']


def selftest():
    import itertools
    from engine import tt
    lits = [1, -1, 2, -2, 3, -3, 4, -4]
    alphabet = [()] + [(l,) for l in lits] + \
        [c for c in itertools.combinations(lits, 2)] + \
        [(1, 2, 3), (-1, -2, -3), (1, -2, 4), (-3, -4, 2), (1, 1), (1, -1, 2)]
    checked = 0
    for m in range(0, 3):
        for cs in itertools.product(alphabet, repeat=m):
            a = tt.cnf_models(4, cs)
            cnt, ms, _ = walk(4, cs)
            b = tt.bitmap_from_assignments(tt.assignment_from_true(t) for t in ms)
            assert a == b and cnt == tt.count(a) == len(ms), (cs, a, b, cnt)
            cnt2, _, _ = walk(4, cs, order=[3, 1], list_models=False)
            assert cnt2 == cnt, (cs, cnt, cnt2)
            checked += 1
    return checked


if __name__ == '__main__':
    print('c03_walk selftest ok:', selftest())
