"""setup_cmd: nothing to build; sanity-check the engines offline."""
import sys, os
sys.path.insert(0, os.path.dirname(os.path.dirname(os.path.abspath(__file__))))
from engine import tt, common
common.setup_paths()
print('tt selftest cases:', tt.selftest())
import cnfgen
print('repository importable from', os.path.dirname(cnfgen.__file__))
