"""E5: exhaustive text enumeration and single-fault enumeration.

* line_language(alphabet, maxlines): every text made of <= maxlines lines of a
  per-format line alphabet (ordered shortest first);
* faults(text, ...): every single fault of a text: every byte-prefix
  (truncation), every single-line deletion / duplication / adjacent swap,
  insertion of each given extra line at every position, substitution of every
  whitespace-separated token by every token of an alphabet.
Each fault is yielded as (kind, position_info, new_text); duplicates of the
original text and of earlier faults are dropped (so counts are of DISTINCT
texts).
"""
import itertools


def line_language(alphabet, maxlines, minlines=0, final_newline=True):
    for k in range(minlines, maxlines + 1):
        for lines in itertools.product(alphabet, repeat=k):
            text = '\n'.join(lines)
            if k and final_newline:
                text += '\n'
            yield text


def truncations(text, step=1):
    for i in range(0, len(text), step):
        yield ('truncate', i, text[:i])


def line_faults(text, insert_lines=('', 'c comment')):
    lines = text.split('\n')
    trailing = lines and lines[-1] == ''
    if trailing:
        lines = lines[:-1]

    def join(ls):
        return '\n'.join(ls) + ('\n' if trailing and ls else '')
    for i in range(len(lines)):
        yield ('delete-line', i, join(lines[:i] + lines[i + 1:]))
    for i in range(len(lines)):
        yield ('dup-line', i, join(lines[:i + 1] + lines[i:]))
    for i in range(len(lines) - 1):
        yield ('swap-lines', i, join(lines[:i] + [lines[i + 1], lines[i]] + lines[i + 2:]))
    for extra in insert_lines:
        for i in range(len(lines) + 1):
            yield ('insert-line', [i, extra], join(lines[:i] + [extra] + lines[i:]))


def token_faults(text, token_alphabet):
    """Substitute / delete / duplicate every whitespace-separated token."""
    lines = text.split('\n')
    for li, line in enumerate(lines):
        toks = line.split(' ')
        for ti, tok in enumerate(toks):
            if tok == '':
                continue
            for new in token_alphabet:
                if new == tok:
                    continue
                nt = toks[:ti] + [new] + toks[ti + 1:]
                yield ('subst-token', [li, ti, new],
                       '\n'.join(lines[:li] + [' '.join(nt)] + lines[li + 1:]))
            nt = toks[:ti] + toks[ti + 1:]
            yield ('delete-token', [li, ti],
                   '\n'.join(lines[:li] + [' '.join(nt)] + lines[li + 1:]))
            nt = toks[:ti + 1] + toks[ti:]
            yield ('dup-token', [li, ti],
                   '\n'.join(lines[:li] + [' '.join(nt)] + lines[li + 1:]))


def faults(text, token_alphabet=(), insert_lines=('', 'c comment'), truncate_step=1):
    seen = {text}
    gens = [truncations(text, truncate_step), line_faults(text, insert_lines)]
    if token_alphabet:
        gens.append(token_faults(text, token_alphabet))
    for g in gens:
        for kind, pos, new in g:
            if new in seen:
                continue
            seen.add(new)
            yield kind, pos, new


def double_faults(text, **kw):
    seen = {text}
    for k1, p1, t1 in faults(text, **kw):
        if t1 not in seen:
            seen.add(t1)
        for k2, p2, t2 in faults(t1, **kw):
            if t2 in seen:
                continue
            seen.add(t2)
            yield (k1 + '+' + k2), [p1, p2], t2
