"""E2: exhaustive assignment evaluation.

Bit-parallel truth tables: a formula over n variables is evaluated on all 2^n
assignments at once.  Assignment number a (0 <= a < 2^n) gives variable i
(1-based) the value (a >> (i-1)) & 1.  A bitmap is a Python int whose bit a
is 1 iff assignment a is a model.

Also: a plain per-assignment evaluator (independent code, used to cross-check
the bit-parallel engine in selftest()) and an exhaustive backtracking model
enumerator for formulas with more variables than a bitmap can hold.
"""
from functools import lru_cache


@lru_cache(maxsize=64)
def columns(n):
    """cols[i] (1<=i<=n) = bitmap of the assignments where variable i is true;
    cols[0] = mask of all assignments."""
    size = 1 << n
    mask = (1 << size) - 1
    cols = [mask]
    for i in range(1, n + 1):
        h = 1 << (i - 1)
        x = ((1 << h) - 1) << h
        width = 2 * h
        while width < size:
            x |= x << width
            width *= 2
        cols.append(x)
    return tuple(cols)


def lit_col(cols, lit):
    v = abs(lit)
    if v == 0 or v >= len(cols):
        raise ValueError('literal %r outside 1..%d' % (lit, len(cols) - 1))
    return cols[v] if lit > 0 else cols[0] ^ cols[v]


def clause_models(n, clause):
    cols = columns(n)
    c = 0
    for lit in clause:
        c |= lit_col(cols, lit)
    return c


def cnf_models(n, clauses):
    """Bitmap of the models of a list of clauses over variables 1..n."""
    cols = columns(n)
    res = cols[0]
    for clause in clauses:
        c = 0
        for lit in clause:
            c |= lit_col(cols, lit)
        res &= c
        if not res:
            # keep going only to validate the literals of remaining clauses
            for rest in clauses:
                for lit in rest:
                    lit_col(cols, lit)
            return 0
    return res


def _sum_planes(n, terms):
    """Bit-sliced sum of c*[lit true] over all assignments; positive c."""
    cols = columns(n)
    planes = []
    for c, lit in terms:
        if c < 0:
            raise ValueError('negative coefficient in bit-sliced adder')
        x = lit_col(cols, lit)
        p = 0
        while c:
            if c & 1:
                carry = x
                q = p
                while carry:
                    while len(planes) <= q:
                        planes.append(0)
                    planes[q], carry = planes[q] ^ carry, planes[q] & carry
                    q += 1
            c >>= 1
            p += 1
    return planes


def _planes_cmp(n, planes, value):
    """(ge, eq): bitmaps of assignments whose sum is >= value / == value."""
    mask = columns(n)[0]
    if value < 0:
        return mask, 0
    if value >> len(planes):
        return 0, 0
    gt, eq = 0, mask
    for p in range(len(planes) - 1, -1, -1):
        if (value >> p) & 1:
            eq &= planes[p]
        else:
            gt |= eq & planes[p]
            eq &= mask ^ planes[p]
    return gt | eq, eq


def pb_models(n, terms, op, value):
    """Models of sum(c*lit) op value with positive or negative integer
    coefficients; op in >=,<=,>,<,==,!=  (reference semantics: arithmetic)."""
    mask = columns(n)[0]
    # move negative coefficients: c*l = c - c*(~l)  ->  |c|*(~l) + c
    pos = []
    shift = 0
    for c, lit in terms:
        if c < 0:
            pos.append((-c, -lit))
            shift += c
        elif c > 0:
            pos.append((c, lit))
        else:
            lit_col(columns(n), lit)
    planes = _sum_planes(n, pos)
    v = value - shift
    ge, eq = _planes_cmp(n, planes, v)
    if op == '>=':
        return ge
    if op == '==' or op == '=':
        return eq
    if op == '>':
        return ge & (mask ^ eq)
    if op == '<':
        return mask ^ ge
    if op == '<=':
        return (mask ^ ge) | eq
    if op == '!=':
        return mask ^ eq
    raise ValueError('bad operator %r' % (op,))


def opb_models(n, constraints):
    """Models of a list of cnfgen OPB constraints [(c,l)...,op,value]."""
    res = columns(n)[0]
    for con in constraints:
        res &= pb_models(n, con[:-2], con[-2], con[-1])
    return res


def formula_models(F):
    """Bitmap of a cnfgen CNF or OPB object (by duck typing)."""
    n = F.number_of_variables()
    if hasattr(F, '_constraints'):
        return opb_models(n, list(F._constraints))
    return cnf_models(n, list(F._clauses))


def count(bitmap):
    return bitmap.bit_count()


def models(bitmap, limit=None):
    """Yield the assignment numbers of a bitmap in increasing order."""
    s = bin(bitmap)[:1:-1]
    pos = s.find('1')
    k = 0
    while pos >= 0:
        yield pos
        k += 1
        if limit is not None and k >= limit:
            return
        pos = s.find('1', pos + 1)


def value(a, var):
    return (a >> (var - 1)) & 1


def true_vars(a, n):
    return [i for i in range(1, n + 1) if (a >> (i - 1)) & 1]


def assignment_from_true(true_set):
    a = 0
    for v in true_set:
        a |= 1 << (v - 1)
    return a


def bitmap_from_assignments(assignments):
    b = 0
    for a in assignments:
        b |= 1 << a
    return b


def project(bitmap, n, keep):
    """Project a bitmap over variables 1..n on the sorted variable list
    `keep`; returns a bitmap over len(keep) variables (variable keep[j] becomes
    j+1).  Existential projection."""
    out = 0
    seen = set()
    for a in models(bitmap):
        b = 0
        for j, v in enumerate(keep):
            if (a >> (v - 1)) & 1:
                b |= 1 << j
        if b not in seen:
            seen.add(b)
            out |= 1 << b
    return out


# ---------------------------------------------------------------------------
# independent per-assignment evaluation (slow, obviously correct)
# ---------------------------------------------------------------------------
def eval_clause(a, clause):
    for lit in clause:
        v = (a >> (abs(lit) - 1)) & 1
        if (lit > 0) == bool(v):
            return True
    return False


def eval_cnf(a, clauses):
    return all(eval_clause(a, c) for c in clauses)


def eval_pb(a, terms, op, val):
    s = 0
    for c, lit in terms:
        v = (a >> (abs(lit) - 1)) & 1
        if (lit > 0) == bool(v):
            s += c
    return {'>=': s >= val, '<=': s <= val, '>': s > val, '<': s < val,
            '==': s == val, '=': s == val, '!=': s != val}[op]


def slow_cnf_models(n, clauses):
    return bitmap_from_assignments(a for a in range(1 << n)
                                   if eval_cnf(a, clauses))


def slow_pb_models(n, terms, op, val):
    return bitmap_from_assignments(a for a in range(1 << n)
                                   if eval_pb(a, terms, op, val))


# ---------------------------------------------------------------------------
# exhaustive backtracking enumeration for n too large for a bitmap
# ---------------------------------------------------------------------------
class TooManyNodes(Exception):
    pass


def enumerate_models(n, clauses, limit_models=None, node_cap=None):
    """Enumerate ALL total models of a CNF over variables 1..n by walking the
    assignment tree.  A subtree is abandoned only when some clause has all its
    literals false under the partial assignment (so every leaf below is a
    non-model); unit clauses under the partial assignment force a value (the
    opposite value falsifies that clause, i.e. is an abandoned subtree of one
    node).  Returns (list_of_models_as_true_var_tuples, nodes_visited).
    """
    clauses = [tuple(c) for c in clauses]
    for c in clauses:
        for lit in c:
            if lit == 0 or abs(lit) > n:
                raise ValueError('literal %r outside 1..%d' % (lit, n))
    occ = {}
    for idx, c in enumerate(clauses):
        for lit in c:
            occ.setdefault(lit, []).append(idx)
    if any(len(c) == 0 for c in clauses):
        return [], 1
    assign = [0] * (n + 1)   # 0 unassigned, 1 true, -1 false
    # static order: most frequent variables first
    freq = [0] * (n + 1)
    for c in clauses:
        for lit in c:
            freq[abs(lit)] += 1
    order = sorted(range(1, n + 1), key=lambda v: -freq[v])
    found = []
    nodes = [0]

    def lit_val(lit):
        v = assign[abs(lit)]
        return v if lit > 0 else -v

    def propagate(trail, start):
        """unit propagation from the literals in trail[start:]; returns False
        on conflict."""
        i = start
        while i < len(trail):
            lit = trail[i]
            i += 1
            for idx in occ.get(-lit, ()):
                c = clauses[idx]
                unassigned = None
                sat = False
                cnt = 0
                for l2 in c:
                    v = lit_val(l2)
                    if v > 0:
                        sat = True
                        break
                    if v == 0:
                        cnt += 1
                        unassigned = l2
                if sat:
                    continue
                if cnt == 0:
                    return False
                if cnt == 1:
                    assign[abs(unassigned)] = 1 if unassigned > 0 else -1
                    trail.append(unassigned)
        return True

    def rec(pos):
        nodes[0] += 1
        if node_cap is not None and nodes[0] > node_cap:
            raise TooManyNodes()
        while pos < n and assign[order[pos]] != 0:
            pos += 1
        if pos == n:
            found.append(tuple(v for v in range(1, n + 1) if assign[v] > 0))
            if limit_models is not None and len(found) >= limit_models:
                raise StopIteration
            return
        var = order[pos]
        for val in (-1, 1):
            trail = [var * val]
            assign[var] = val
            if propagate(trail, 0):
                rec(pos + 1)
            for lit in trail:
                assign[abs(lit)] = 0

    # initial unit clauses
    trail = []
    ok = True
    for c in clauses:
        if len(c) == 1:
            v = lit_val(c[0])
            if v < 0:
                ok = False
                break
            if v == 0:
                assign[abs(c[0])] = 1 if c[0] > 0 else -1
                trail.append(c[0])
    if ok and propagate(trail, 0):
        import sys
        old = sys.getrecursionlimit()
        sys.setrecursionlimit(max(old, 4 * n + 1000))
        try:
            rec(0)
        except StopIteration:
            pass
        finally:
            sys.setrecursionlimit(old)
    return found, nodes[0]


def model_count_any(n, clauses, bitmap_limit=22):
    """(number_of_models, method)"""
    if n <= bitmap_limit:
        return count(cnf_models(n, clauses)), 'bitmap'
    ms, _ = enumerate_models(n, clauses)
    return len(ms), 'backtracking'


def selftest():
    """Cross-check the three evaluators on an exhaustive small family."""
    import itertools
    lits = [1, -1, 2, -2, 3, -3]
    alphabet = [()] + [(l,) for l in lits] + \
        [c for c in itertools.combinations(lits, 2)] + [(1, 2, 3), (-1, -2, -3), (1, 1), (1, -1, 2)]
    checked = 0
    for m in range(0, 3):
        for cls in itertools.product(alphabet, repeat=m):
            a = cnf_models(3, cls)
            b = slow_cnf_models(3, cls)
            ms, _ = enumerate_models(3, cls)
            c = bitmap_from_assignments(assignment_from_true(t) for t in ms)
            assert a == b == c, (cls, a, b, c)
            checked += 1
    for coefs in itertools.product([-2, -1, 1, 2, 3], repeat=3):
        for signs in itertools.product([1, -1], repeat=3):
            terms = [(c, s * (i + 1)) for i, (c, s) in enumerate(zip(coefs, signs))]
            for op in ['>=', '<=', '>', '<', '==', '!=']:
                for val in range(-6, 8):
                    assert pb_models(3, terms, op, val) == slow_pb_models(3, terms, op, val), (terms, op, val)
                    checked += 1
    return checked


if __name__ == '__main__':
    print('tt selftest ok:', selftest())


def card_cols(n, collist, op, value):
    """Bitmap of the assignments where the number of true columns among
    `collist` (arbitrary bitmaps over n variables) satisfies `op value`."""
    mask = columns(n)[0]
    planes = []
    for x in collist:
        carry = x
        q = 0
        while carry:
            while len(planes) <= q:
                planes.append(0)
            planes[q], carry = planes[q] ^ carry, planes[q] & carry
            q += 1
    ge, eq = _planes_cmp(n, planes, value)
    if op == '>=':
        return ge
    if op in ('==', '='):
        return eq
    if op == '>':
        return ge & (mask ^ eq)
    if op == '<':
        return mask ^ ge
    if op == '<=':
        return (mask ^ ge) | eq
    if op == '!=':
        return mask ^ eq
    raise ValueError(op)
