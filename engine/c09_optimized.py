"""Runs inside `python -O` / `python -OO` (started by checks/c09): every
explicit argument triple of a small box is given to Shuffle; prints, as JSON,
the invalid ones that were accepted and the valid ones that were refused or
applied wrongly.  The repository path is given in VERIF_REPO_PATH."""
import os
import sys
import json
import itertools

sys.dont_write_bytecode = True
sys.path.insert(0, os.environ['VERIF_REPO_PATH'])
import warnings  # noqa
warnings.simplefilter('ignore')


def main():
    from cnfgen.formula.cnf import CNF
    from cnfgen.transformations.shuffle import Shuffle
    n, clauses = 3, [[1, -2], [2, 3], [-1], [3, -1, 2]]
    M = len(clauses)
    ident_f, ident_p, ident_c = [1] * n, list(range(1, n + 1)), list(range(M))
    problems = []
    tried = 0

    def mk():
        F = CNF()
        F.update_variable_number(n)
        for c in clauses:
            F.add_clause(list(c))
        return F
    cands = []
    for b in itertools.product(range(0, n + 2), repeat=n):
        cands.append(('variables', ident_f, list(b), ident_c, sorted(b) == ident_p))
    for b in itertools.product(range(-1, M + 1), repeat=M):
        cands.append(('clauses', ident_f, ident_p, list(b), sorted(b) == ident_c))
    for b in itertools.product((-1, 0, 1, 2), repeat=n):
        cands.append(('flips', list(b), ident_p, ident_c, all(abs(x) == 1 for x in b)))
    for kind, fl, pm, cp, valid in cands:
        tried += 1
        try:
            G = Shuffle(mk(), fl, pm, cp)
            got = [list(c) for c in G.clauses()]
        except (ValueError, TypeError):
            if valid:
                problems.append(['valid-rejected', kind, fl, pm, cp])
            continue
        except Exception as e:
            problems.append(['exception:' + type(e).__name__, kind, fl, pm, cp])
            continue
        if not valid:
            problems.append(['invalid-accepted', kind, fl, pm, cp])
            continue
        sub = {v: fl[v - 1] * pm[v - 1] for v in range(1, n + 1)}
        exp = [None] * M
        for i, c in enumerate(clauses):
            exp[cp[i]] = [sub[abs(l)] * (1 if l > 0 else -1) for l in c]
        if got != exp:
            problems.append(['result', kind, fl, pm, cp])
    json.dump({'tried': tried, 'optimize': sys.flags.optimize, 'problems': problems[:20],
               'nproblems': len(problems)}, sys.stdout)


if __name__ == '__main__':
    main()
