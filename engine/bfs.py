"""E4: explicit-state breadth-first search over operation histories.

A *state* is a real object of the implementation (possibly wrapped together
with the reference model that accompanies it).  A *transition* calls a real
method, with arguments from a small alphabet, on a private `copy.deepcopy` of
the predecessor.  States are merged only when their *canonical key* -- the
complete internal representation, see `canon()` -- is equal, so merging is
trivially sound.  The invariant is evaluated once in every distinct state and
the transition oracle once on every transition.

The engine knows nothing about cnfgen.  A client supplies

    key(state)          -> hashable canonical key
    operations(state)   -> iterable of JSON-able operation descriptors
    apply(state, op)    -> Step; `state` is already a private deep copy, the
                           function mutates it (or builds a new one) by calling
                           the REAL method and says what it saw
    invariant(state)    -> list of (symptom, what) problems ([] = holds)

and gets back a `Report` with the counters required for model_checking
evidence: states, transitions, max depth, whether the fixpoint was reached,
and, for every problem, the shortest history (sequence of operations from an
initial state) that exhibits it.

A state in which the invariant fails, and a transition whose oracle fails, are
reported and NOT expanded further (one defect would otherwise be reported from
every later state).  `replay()` re-executes a single recorded history without
the search.
"""
import copy
from collections import deque, Counter


# ------------------------------------------------------------ canonical key --
def canon(x, _depth=0):
    """Canonical, hashable, order-insensitive-where-unordered image of a plain
    Python value: the 'complete internal representation' used as BFS key.

    lists/tuples keep their order (it is observable), sets and dicts are
    sorted by the canonical image of their elements (their iteration order is
    an accident), objects are expanded through `vars()` / `__slots__`.
    ints and strs stand for themselves; every other scalar carries its type
    (True, 1 and 1.0 are equal in Python but are different representations).
    """
    t = type(x)
    if t is int or t is str:
        return x
    if x is None or t is bool or t is float or t is bytes:
        return (t.__name__, x)
    if _depth > 40:
        raise ValueError('canon: structure too deep (cyclic?)')
    d = _depth + 1
    if t is list or t is tuple:
        for y in x:
            if type(y) is not int:
                return (t.__name__,) + tuple([canon(y, d) for y in x])
        return (t.__name__,) + tuple(x)          # fast path: flat list of ints
    if t is set or t is frozenset:
        items = [canon(y, d) for y in x]
        try:
            items.sort()
        except TypeError:
            items.sort(key=repr)
        return (t.__name__,) + tuple(items)
    if t is dict:
        items = [(canon(k, d), canon(v, d)) for k, v in x.items()]
        try:
            items.sort()
        except TypeError:
            items.sort(key=repr)
        return ('dict',) + tuple(items)
    if isinstance(x, (bool, int, float, str, bytes)):       # subclasses
        return (t.__name__, x)
    if isinstance(x, (list, tuple)):
        return (t.__name__,) + tuple([canon(y, d) for y in x])
    if isinstance(x, (set, frozenset)):
        return (t.__name__,) + tuple(sorted((canon(y, d) for y in x), key=repr))
    if isinstance(x, dict):
        return (t.__name__,) + tuple(sorted(((canon(k, d), canon(v, d)) for k, v in x.items()),
                                            key=repr))
    if isinstance(x, range):
        return ('range', x.start, x.stop, x.step)
    if hasattr(x, '__dict__') or hasattr(x, '__slots__'):
        fields = {}
        if hasattr(x, '__dict__'):
            fields.update(vars(x))
        for cls in t.__mro__:
            for sl in getattr(cls, '__slots__', ()):
                if hasattr(x, sl):
                    fields[sl] = getattr(x, sl)
        return ('obj', t.__module__ + '.' + t.__qualname__) + \
            tuple([(k, canon(v, d)) for k, v in sorted(fields.items())])
    return ('repr', t.__name__, repr(x))


# ------------------------------------------------------------------ types --
class Step:
    """Result of one transition.

    state     successor state (may be the mutated argument itself)
    problems  list of (symptom, what): the transition oracle failed
    tag       short string for the outcome histogram ('add_edge:refused', ...)
    key       optional: key(state) if the client has computed it already
              (it must be computed AFTER the operation)
    follow    False: the transition is executed and judged (the client may
              also have evaluated the invariant in the successor and put its
              problems into `problems`) but the successor is not admitted to
              this search -- used when a large state space is partitioned
              among several searches and the successor belongs to another part
    """
    __slots__ = ('state', 'problems', 'tag', 'key', 'follow')

    def __init__(self, state, problems=(), tag=None, key=None, follow=True):
        self.state = state
        self.problems = list(problems)
        self.tag = tag
        self.key = key
        self.follow = follow


class Report:
    def __init__(self):
        self.states = 0            # distinct canonical keys reached
        self.transitions = 0       # real method executions on deep copies
        self.max_depth = 0         # eccentricity of the initial states reached
        self.fixpoint = False      # queue ran empty, nothing was cut
        self.cut = None            # 'max_states' | 'max_depth' | 'copy-not-independent' | None
        self.merged = 0            # transitions into an already known state
        self.self_loops = 0        # transitions that did not change the key
        self.boundary = 0          # transitions whose successor was not followed
        self.bad_states = 0
        self.bad_transitions = 0
        self.changed_by_observation = 0
        self.depth_histogram = Counter()
        self.tags = Counter()
        self.violations = []       # dicts: symptom, what, at, init, history

    def summary(self):
        return {'states': self.states, 'transitions': self.transitions,
                'max_depth': self.max_depth, 'fixpoint': self.fixpoint,
                'cut': self.cut, 'merged': self.merged,
                'self_loops': self.self_loops, 'boundary': self.boundary,
                'bad_states': self.bad_states,
                'bad_transitions': self.bad_transitions}


# ----------------------------------------------------------------- search --
def search(initial, key, operations, apply, invariant,
           copier=copy.deepcopy, max_states=None, max_depth=None,
           check_parent_untouched='state', on_state=None, max_violations=200):
    """Breadth-first search to the fixpoint (or to the stated cut).

    initial: iterable of (label, state); label is JSON-able and identifies how
             the initial state is built (needed for replay).
    on_state(state, depth): optional callback in every distinct state
             (statistics).
    check_parent_untouched: 'state' (default) compares the key of a state
             with its key at admission once all operations were tried on deep
             copies of it, and then looks for the culprit; 'each' compares
             after every operation; None disables the check.
    """
    rep = Report()
    parent = {}          # key -> (parent key | None, op | init label)
    queue = deque()

    def history(k):
        ops = []
        while True:
            pk, op = parent[k]
            if pk is None:
                return op, ops[::-1]
            ops.append(op)
            k = pk

    def report(symptom, what, at, k, extra_op=None):
        if len(rep.violations) >= max_violations:
            return
        init, hist = history(k)
        if extra_op is not None:
            hist = hist + [extra_op]
        rep.violations.append({'symptom': symptom, 'what': what, 'at': at,
                               'init': init, 'history': hist})

    def admit(state, k, depth):
        """first visit of a distinct state: count it, evaluate the invariant,
        enqueue it if it is sound"""
        rep.states += 1
        rep.depth_histogram[depth] += 1
        rep.max_depth = max(rep.max_depth, depth)
        if on_state is not None:
            on_state(state, depth)
        problems = invariant(state)
        if problems:
            rep.bad_states += 1
            for symptom, what in problems:
                report(symptom, what, 'state', k)
            return
        k2 = key(state)
        if k2 != k:
            # evaluating the invariant (reading the views) changed the object.
            # That alone is not a problem of a property about views; evaluate
            # once more and report only a failing second evaluation.  The
            # observed state is reached by the same history (replay observes
            # too), so it inherits the parent pointer.
            rep.changed_by_observation += 1
            problems = invariant(state)
            if problems:
                rep.bad_states += 1
                for symptom, what in problems:
                    report('after-observation:' + symptom, what, 'state', k)
                return
            if k2 in parent:
                return
            parent[k2] = parent[k]
            k = k2
        queue.append((state, k, depth))

    for label, state in initial:
        k = key(state)
        if k in parent:
            continue
        parent[k] = (None, label)
        admit(state, k, 0)

    while queue:
        state, k, depth = queue.popleft()
        if max_depth is not None and depth >= max_depth:
            rep.cut = rep.cut or 'max_depth'
            continue
        ops = list(operations(state))
        pristine = copier(state) if check_parent_untouched == 'state' else None
        for op in ops:
            if max_states is not None and rep.states >= max_states:
                rep.cut = 'max_states'
                queue.clear()
                break
            private = copier(state)
            step = apply(private, op)
            rep.transitions += 1
            if step.tag:
                rep.tags[step.tag] += 1
            if check_parent_untouched == 'each' and key(state) != k:
                rep.bad_transitions += 1
                report('copy-not-independent',
                       'operation %r on a deep copy changed the original object'
                       % (op,), 'transition', k, op)
                # states share structure: nothing found from here on could be
                # trusted, the search stops
                rep.cut = 'copy-not-independent'
                queue.clear()
                break
            if step.problems:
                rep.bad_transitions += 1
                for symptom, what in step.problems:
                    report(symptom, what, 'transition', k, op)
                continue
            if not step.follow:
                rep.boundary += 1
                continue
            nk = step.key if step.key is not None else key(step.state)
            if nk == k:
                rep.self_loops += 1
                continue
            if nk in parent:
                rep.merged += 1
                continue
            parent[nk] = (k, op)
            admit(step.state, nk, depth + 1)
        if check_parent_untouched == 'state' and key(state) != k:
            # some operation on a deep copy reached through to the original:
            # find the first one on fresh copies of the pristine predecessor
            culprit = None
            for op in ops:
                s1 = copier(pristine)
                k1 = key(s1)
                apply(copier(s1), op)
                if key(s1) != k1:
                    culprit = op
                    break
            rep.bad_transitions += 1
            report('copy-not-independent',
                   'operation %r on a deep copy changed the original object'
                   % (culprit,), 'transition', k, culprit)
            rep.cut = 'copy-not-independent'
            queue.clear()

    rep.fixpoint = rep.cut is None
    return rep


# ----------------------------------------------------------------- replay --
def replay(state, history, key, apply, invariant, copier=copy.deepcopy):
    """Re-execute one history on a real object, without the search: invariant
    in the initial state and after every operation, transition oracle on every
    operation, parent-untouched check on every operation.  Returns a list of
    (symptom, what, step_index); stops at the first failing step (as the
    search does)."""
    out = []
    problems = invariant(state)
    if problems:
        return [(s, w, 0) for s, w in problems]
    for i, op in enumerate(history, start=1):
        k = key(state)
        private = copier(state)
        step = apply(private, op)
        if key(state) != k:
            return [('copy-not-independent',
                     'operation %r on a deep copy changed the original object' % (op,), i)]
        if step.problems:
            return [(s, w, i) for s, w in step.problems]
        if not step.follow:
            break
        state = step.state
        problems = invariant(state)
        if problems:
            return [(s, w, i) for s, w in problems]
    return out
