"""Runs a batch of command lines of the cnfgen tools inside ONE fresh
interpreter (started by checks/c07 with a chosen PYTHONHASHSEED and working
directory) and prints their outputs as JSON.  The repository path is given in
VERIF_REPO_PATH; nothing else of the verification framework is imported."""
import io
import os
import sys
import json
import contextlib

sys.dont_write_bytecode = True
sys.path.insert(0, os.environ['VERIF_REPO_PATH'])
import warnings  # noqa
warnings.simplefilter('ignore')


def run_one(job):
    import cnfgen.clitools.msg as msgmod
    tool = job['tool']
    if tool == 'cnfgen':
        from cnfgen.clitools.cnfgen import cli
    elif tool == 'pbgen':
        from cnfgen.clitools.pbgen import cli
    elif tool == 'cnfshuffle':
        from cnfgen.clitools.cnfshuffle import cli
    else:
        raise KeyError(tool)
    if hasattr(msgmod, '_prefix'):
        msgmod._prefix = ''
    out = io.StringIO()
    err = io.StringIO()
    old_stdin = sys.stdin
    sys.stdin = io.StringIO(job.get('stdin', ''))
    if os.environ.get('C07_TTY') == '1':
        # the same input typed at a terminal: what is printed for the user's
        # benefit must not end up in the output
        class Terminal(io.StringIO):
            def isatty(self):
                return True
        sys.stdin = Terminal(job.get('stdin', ''))
    status = 'ok'
    try:
        with contextlib.redirect_stdout(out), contextlib.redirect_stderr(err):
            cli([tool] + job['argv'], mode='output')
    except SystemExit as e:
        status = 'exit:%r' % (e.code,)
    except BaseException as e:      # reported to the check, which judges it
        status = 'exception:%s:%s' % (type(e).__name__, str(e)[:200])
    finally:
        sys.stdin = old_stdin
    return {'status': status, 'stdout': out.getvalue()}


def main():
    jobs = json.load(sys.stdin)
    results = [run_one(j) for j in jobs]
    json.dump(results, sys.stdout)


if __name__ == '__main__':
    main()
