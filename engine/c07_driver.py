"""Runs a batch of command lines of the cnfgen tools inside ONE fresh
interpreter (started by checks/c07 with a chosen PYTHONHASHSEED and working
directory) and prints their outputs as JSON.  The repository path is given in
VERIF_REPO_PATH; nothing else of the verification framework is imported."""
import io
import os
import sys
import json
import contextlib

sys.dont_write_bytecode = True
sys.path.insert(0, os.environ['VERIF_REPO_PATH'])


def _fake_clock(stamp):
    """The clock is an input the harness decides: every way of asking the
    standard library for the current time answers `stamp` (seconds since the
    epoch).  Installed before cnfgen is imported."""
    import time as _time
    import datetime as _dt
    real_local, real_gm = _time.localtime, _time.gmtime
    real_strftime, real_ctime, real_asctime = _time.strftime, _time.ctime, _time.asctime

    class Date(_dt.date):
        @classmethod
        def today(cls):
            t = real_local(stamp)
            return cls(t.tm_year, t.tm_mon, t.tm_mday)

    class DateTime(_dt.datetime):
        @classmethod
        def now(cls, tz=None):
            return cls.fromtimestamp(stamp, tz)

        @classmethod
        def utcnow(cls):
            t = real_gm(stamp)
            return cls(*t[:6])

        @classmethod
        def today(cls):
            return cls.fromtimestamp(stamp)

    _dt.date = Date
    _dt.datetime = DateTime
    _time.time = lambda: float(stamp)
    _time.time_ns = lambda: int(stamp) * 10 ** 9
    _time.localtime = lambda secs=None: real_local(stamp if secs is None else secs)
    _time.gmtime = lambda secs=None: real_gm(stamp if secs is None else secs)
    _time.strftime = lambda fmt, t=None: real_strftime(fmt, real_local(stamp) if t is None else t)
    _time.ctime = lambda secs=None: real_ctime(stamp if secs is None else secs)
    _time.asctime = lambda t=None: real_asctime(real_local(stamp) if t is None else t)
    # ... and the machine is slow: every reading of a duration clock is 1.5 s
    # after the previous one (a time budget must not decide what is printed)
    tick = [0.0]

    def slow():
        tick[0] += 1.5
        return tick[0]
    _time.monotonic = slow
    _time.perf_counter = slow
    _time.process_time = slow
    _time.monotonic_ns = lambda: int(slow() * 10 ** 9)
    _time.perf_counter_ns = lambda: int(slow() * 10 ** 9)
    _time.process_time_ns = lambda: int(slow() * 10 ** 9)


if os.environ.get('C07_CLOCK'):
    _fake_clock(int(os.environ['C07_CLOCK']))
import warnings  # noqa
warnings.simplefilter('ignore')


def run_one(job):
    import cnfgen.clitools.msg as msgmod
    tool = job['tool']
    if tool == 'cnfgen':
        from cnfgen.clitools.cnfgen import cli
    elif tool == 'pbgen':
        from cnfgen.clitools.pbgen import cli
    elif tool == 'cnfshuffle':
        from cnfgen.clitools.cnfshuffle import cli
    else:
        raise KeyError(tool)
    if hasattr(msgmod, '_prefix'):
        msgmod._prefix = ''
    out = io.StringIO()
    enc = os.environ.get('C07_STDOUT_ENC')
    if enc:
        # standard output as the interpreter sets it up under PYTHONIOENCODING
        # = enc: a text layer over bytes
        raw = io.BytesIO()
        out = io.TextIOWrapper(raw, encoding=enc, errors='strict', newline='\n')
    err = io.StringIO()
    old_stdin = sys.stdin
    sys.stdin = io.StringIO(job.get('stdin', ''))
    if os.environ.get('C07_TTY') == '1':
        # the same input typed at a terminal: what is printed for the user's
        # benefit must not end up in the output
        class Terminal(io.StringIO):
            def isatty(self):
                return True
        sys.stdin = Terminal(job.get('stdin', ''))
    status = 'ok'
    try:
        with contextlib.redirect_stdout(out), contextlib.redirect_stderr(err):
            cli([tool] + job['argv'], mode='output')
    except SystemExit as e:
        status = 'exit:%r' % (e.code,)
    except BaseException as e:      # reported to the check, which judges it
        status = 'exception:%s:%s' % (type(e).__name__, str(e)[:200])
    finally:
        sys.stdin = old_stdin
    if enc:
        try:
            out.flush()
        except Exception as e:
            status = 'exception:%s:%s' % (type(e).__name__, str(e)[:200])
        # compared as text: a format that passes non-ASCII characters through
        # (the LaTeX document declares utf8 input) legitimately gives other
        # bytes under another encoding, but the same characters
        return {'status': status, 'stdout': raw.getvalue().decode(enc, errors='replace')}
    return {'status': status, 'stdout': out.getvalue()}


def main():
    jobs = json.load(sys.stdin)
    results = [run_one(j) for j in jobs]
    json.dump(results, sys.stdout)


if __name__ == '__main__':
    main()
