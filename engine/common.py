"""Shared runner for all checks: shards on a process pool, known findings,
replay files, evidence files, VIOLATION lines.

A check module (checks/cNN_*.py) provides

    PROPERTY   = 'CNN'
    LEVEL      = 'exploration' | 'fault_enumeration' | 'model_checking'
    RULE       = str    (how cases are enumerated, what makes one non-trivial)
    ASSUMPTIONS= [str]
    shards(tier, seed) -> list of (label, function_name, json_args)
    <function_name>(args, R)      runs one shard, reporting into R (class R)
    replay(case) -> list of violation dicts      (re-executes a single case)

Every violation is a dict {key, what, case}.  `key` identifies the failing
input class + symptom and is what known_findings.json matches on; `case` is a
JSON value from which `replay` re-executes the one failing case without the
enumerator / explorer.
"""
import os
import sys
import json
import time
import hashlib
import importlib
import traceback
import multiprocessing as mp
from collections import Counter

VERIF = os.path.dirname(os.path.dirname(os.path.abspath(__file__)))
REPO = os.environ.get('VERIF_REPO', '/repo')
GUARD = 'CNFGEN_VERIF'


def setup_paths():
    """Make the current working tree of the repository importable."""
    os.environ[GUARD] = '1'
    os.environ.setdefault('PYTHONDONTWRITEBYTECODE', '1')
    sys.dont_write_bytecode = True
    if REPO not in sys.path:
        sys.path.insert(0, REPO)
    if VERIF not in sys.path:
        sys.path.insert(1, VERIF)
    import warnings
    warnings.simplefilter('ignore')
    _tune_malloc()


_TUNED = False


def _tune_malloc():
    """Truth tables of 18-24 variables are 32 KiB - 2 MiB Python ints; glibc
    serves such blocks with mmap/munmap, which dominates the run time.  Raise
    the thresholds once per process (inherited by forked workers)."""
    global _TUNED
    if _TUNED:
        return
    _TUNED = True
    try:
        import ctypes
        libc = ctypes.CDLL('libc.so.6')
        libc.mallopt(-3, 1 << 30)   # M_MMAP_THRESHOLD
        libc.mallopt(-1, 1 << 30)   # M_TRIM_THRESHOLD
    except Exception:
        pass


class R:
    """Per-shard result collector (picklable via .export())."""
    MAX_SAMPLES = 3
    MAX_VIOLATIONS = 200
    MAX_PER_KEY = 3

    def __init__(self, label=''):
        self.label = label
        self.evals = 0
        self.nontrivial = 0
        self.samples = []
        self.violations = []
        self.nviol = 0
        self.stats = Counter()
        self.outcomes = Counter()
        self._perkey = {}

    def case(self, sample=None, nontrivial=True, n=1):
        """Count one explored case (distinct by construction of the
        enumerators: every enumerator yields each case once)."""
        self.evals += n
        if nontrivial:
            self.nontrivial += n
        if sample is not None and len(self.samples) < self.MAX_SAMPLES:
            self.samples.append(sample)

    def bad(self, key, what, case):
        """At most MAX_PER_KEY violations per key and shard are kept, so a
        loud (possibly known) finding cannot crowd out a different one."""
        self.nviol += 1
        k = self._perkey.get(key, 0)
        self._perkey[key] = k + 1
        if k >= self.MAX_PER_KEY:
            self.stats['further_violations_under_reported_keys'] += 1
            return
        if len(self.violations) < self.MAX_VIOLATIONS:
            self.violations.append({'key': key, 'what': str(what)[:600],
                                    'case': case})

    def extend(self, violations):
        for v in violations:
            self.bad(v['key'], v['what'], v['case'])

    def export(self):
        return {'label': self.label, 'evals': self.evals,
                'nontrivial': self.nontrivial, 'samples': self.samples,
                'violations': self.violations, 'nviol': self.nviol,
                'stats': dict(self.stats), 'outcomes': dict(self.outcomes)}


def _run_shard(job):
    modname, label, fname, args = job
    t0 = time.time()
    trace = os.environ.get('VERIF_TRACE')
    if trace:
        sys.stderr.write('TRACE start %s\n' % label)
        sys.stderr.flush()
    try:
        mod = importlib.import_module(modname)
        r = R(label)
        getattr(mod, fname)(args, r)
        if fname in getattr(mod, 'SECOND_PASS', ()) and (
                (isinstance(args, list) and len(args) > 1) or isinstance(args, dict)):
            # Differential oracle for hidden process-wide state (module-level
            # caches, tables shared between objects): the same cases once more
            # in the opposite order, inside the same process.  The cases are
            # independent, so every verdict must be the same; a violation that
            # shows only in one of the two orders is reported like any other.
            r2 = R(label)
            getattr(mod, fname)(list(reversed(args)) if isinstance(args, list)
                                else dict(args, reverse=True), r2)
            seen = set(json.dumps([v['key'], jsonable(v['case'])], sort_keys=True, default=repr)
                       for v in r.violations)
            for v in r2.violations:
                k = json.dumps([v['key'], jsonable(v['case'])], sort_keys=True, default=repr)
                if k not in seen:
                    seen.add(k)
                    r.stats['violations_only_in_reversed_order'] += 1
                    r.bad(v['key'], v['what'] + ' [second pass, cases in reverse order]', v['case'])
            r.stats['second_pass_cases_in_reverse_order'] += r2.evals
        out = r.export()
    except BaseException as exc:
        out = _uncaught(exc, modname, label, fname, args, locals().get('r'))
    out['wall'] = time.time() - t0
    if trace:
        import resource
        sys.stderr.write('TRACE end   %s %.1fs maxrss=%dMB\n' % (
            label, out['wall'], resource.getrusage(resource.RUSAGE_SELF).ru_maxrss // 1024))
        sys.stderr.flush()
    return out


def _limit_worker():
    """Address-space limit of a worker (6 GiB in the quick tier, 16 GiB in the thorough one; VERIF_WORKER_GB overrides): code
    under test that starts allocating without bound (a count read from a
    hostile file taken at face value ...) gets a MemoryError, which the checks
    judge like any other exception, instead of taking the machine down."""
    try:
        import resource
        gb = float(os.environ.get('VERIF_WORKER_GB', '16'))
        if gb > 0:
            lim = int(gb * (1 << 30))
            resource.setrlimit(resource.RLIMIT_AS, (lim, lim))
    except Exception:
        pass


def _uncaught(exc, modname, label, fname, args, r):
    """An exception ended a shard.  If it was raised INSIDE the code under test
    (innermost frame in <repo>/cnfgen) it is something the check does not
    expect of that code on an input the check considers legal: reported as a
    violation of its own key, together with what the shard had found so far
    (on the unchanged tree no shard ends this way).  Anything else is a failure
    of the harness: no verdict."""
    tb = traceback.extract_tb(exc.__traceback__)
    repo = os.path.realpath(os.environ.get('VERIF_REPO') or REPO)
    inner = tb[-1] if tb else None
    in_repo = inner is not None and os.path.realpath(inner.filename).startswith(os.path.join(repo, 'cnfgen') + os.sep)
    if not in_repo or isinstance(exc, (KeyboardInterrupt, SystemExit, MemoryError)) or r is None:
        return {'label': label, 'harness_error': traceback.format_exc()}
    rel = os.path.relpath(os.path.realpath(inner.filename), repo)
    key = 'uncaught:%s@%s:%s' % (type(exc).__name__, rel, inner.name)
    frames = ' <- '.join('%s:%d %s' % (os.path.basename(f.filename), f.lineno, f.name) for f in reversed(tb[-6:]))
    r.bad(key, 'shard %s stopped at %s(%s) raised by the code under test, which the check does not expect on the '
               'inputs it uses: %s' % (label, type(exc).__name__, str(exc)[:200], frames),
          {'rerun_shard': {'module': modname, 'label': label, 'fname': fname, 'args': jsonable(args)}})
    out = r.export()
    out['stats']['shards_stopped_by_an_exception_of_the_code_under_test'] = 1
    return out


def load_known(pid):
    path = os.path.join(VERIF, 'known_findings.json')
    try:
        with open(path) as f:
            data = json.load(f)
    except FileNotFoundError:
        return []
    return [e for e in data.get('findings', []) if e.get('property') == pid]


def jsonable(x):
    try:
        json.dumps(x)
        return x
    except TypeError:
        return repr(x)


def run_check(modname, tier, seed, workers=None):
    setup_paths()
    t0 = time.time()
    mod = importlib.import_module(modname)
    pid = mod.PROPERTY
    shards = mod.shards(tier, seed)
    jobs = [(modname, lab, fn, args) for (lab, fn, args) in shards]
    workers = workers or int(os.environ.get('VERIF_WORKERS', '16'))
    workers = max(1, min(workers, len(jobs)))
    os.environ.setdefault('VERIF_WORKER_GB', '6' if tier == 'quick' else '16')
    results = []
    if workers == 1:
        for j in jobs:
            results.append(_run_shard(j))
    else:
        # import the repository once in the parent so that forked workers
        # share it (each check run starts from a fresh interpreter, so the
        # current working tree is what gets imported)
        if hasattr(mod, 'preload'):
            mod.preload()
        ctx = mp.get_context('fork')
        with ctx.Pool(workers, maxtasksperchild=None, initializer=_limit_worker) as pool:
            for res in pool.imap_unordered(_run_shard, jobs, chunksize=1):
                results.append(res)
    results.sort(key=lambda r: r['label'])

    harness_errors = [r for r in results if 'harness_error' in r]
    if harness_errors:
        for r in harness_errors[:5]:
            print('HARNESS-ERROR shard=%s\n%s' % (r['label'], r['harness_error']))
        print('check %s: harness error in %d shard(s); no verdict' %
              (pid, len(harness_errors)))
        return 2

    evals = sum(r['evals'] for r in results)
    nontrivial = sum(r['nontrivial'] for r in results)
    stats = Counter()
    outcomes = Counter()
    samples = []
    violations = []
    nviol = 0
    for r in results:
        stats.update(r['stats'])
        outcomes.update(r['outcomes'])
        for s in r['samples']:
            if len(samples) < 12:
                samples.append(s)
        violations.extend(r['violations'])
        nviol += r['nviol']

    # ---- known findings -------------------------------------------------
    known = load_known(pid)
    open_keys = {e['key']: e for e in known if e.get('status') == 'open'}
    seen_known = Counter()
    fresh = []
    for v in violations:
        if v['key'] in open_keys:
            seen_known[v['key']] += 1
        else:
            fresh.append(v)
    for key, e in sorted(open_keys.items()):
        print('KNOWN-FINDING: property=%s %s: %s (reproduced in this run: %d case(s))'
              % (pid, key, e.get('what', ''), seen_known.get(key, 0)))

    # ---- replay files ---------------------------------------------------
    # runs against a scratch copy of the repository (mutation testing) never
    # touch the evidence / replay files of the real tree
    mutated = os.path.realpath(REPO) != '/repo'
    outbase = os.path.join(VERIF, 'scratch', 'mutation-runs') if mutated else VERIF
    rdir = os.path.join(outbase, 'replay', pid)
    printed = 0
    by_key = Counter()
    for v in fresh:
        by_key[v['key']] += 1
        if by_key[v['key']] > 3:      # at most three replay files per key
            continue
        os.makedirs(rdir, exist_ok=True)
        blob = json.dumps({'property': pid, 'module': modname,
                           'key': v['key'], 'what': v['what'],
                           'case': v['case']}, indent=1, sort_keys=True,
                          default=repr)
        h = hashlib.sha1(blob.encode()).hexdigest()[:12]
        path = os.path.join(rdir, '%s.json' % h)
        with open(path, 'w') as f:
            f.write(blob + '\n')
        print('VIOLATION property=%s replay=%s' % (pid, path))
        print('  key=%s what=%s' % (v['key'], v['what'][:300]))
        printed += 1

    wall = time.time() - t0
    # ---- evidence ---------------------------------------------------------
    coverage = {
        'evaluations': int(evals),
        'distinct_nontrivial': int(nontrivial),
        'rule': mod.RULE,
        'samples': [jsonable(s) for s in samples] or ['<none>'],
        'exhaustive': bool(getattr(mod, 'EXHAUSTIVE', True)) and
        not stats.get('cap_hit', 0),
        'shards': len(results),
        'stats': {k: int(v) for k, v in sorted(stats.items())},
        'distinct_outcomes': {k: int(v) for k, v in sorted(outcomes.items())},
        'known_findings_reproduced': {k: int(v) for k, v in seen_known.items()},
        'slowest_shards': [[r['label'], round(r['wall'], 2)] for r in
                           sorted(results, key=lambda r: -r['wall'])[:5]],
    }
    if mod.LEVEL == 'model_checking':
        coverage['states'] = int(stats.get('states', 0))
        coverage['transitions'] = int(stats.get('transitions', 0))
        coverage['traces_validated_against_impl'] = int(
            stats.get('executions', stats.get('traces', 0)))
    if hasattr(mod, 'coverage_extra'):
        coverage.update(mod.coverage_extra(tier, stats, outcomes))
    evidence = {
        'property_id': pid, 'tier': tier, 'seed': int(seed),
        'level': mod.LEVEL, 'coverage': coverage,
        'assumptions': list(mod.ASSUMPTIONS),
        'wall_s': round(wall, 3),
        'violations': int(len(fresh)),
    }
    os.makedirs(os.path.join(outbase, 'evidence'), exist_ok=True)
    with open(os.path.join(outbase, 'evidence', pid + '.json'), 'w') as f:
        json.dump(evidence, f, indent=1, sort_keys=True)
        f.write('\n')

    print('check %s tier=%s seed=%s: evaluations=%d nontrivial=%d shards=%d '
          'violations=%d known=%d wall=%.1fs' %
          (pid, tier, seed, evals, nontrivial, len(results), len(fresh),
           sum(seen_known.values()), wall))
    for k, v in sorted(stats.items()):
        print('   stat %-40s %d' % (k, v))
    for k, v in sorted(outcomes.items()):
        print('   outcome %-37s %d' % (k, v))

    # vacuity guards declared by the module: {stat_name: minimum}
    guards = getattr(mod, 'VACUITY', {})
    if callable(guards):
        guards = guards(tier)
    vac = []
    merged = Counter(stats)
    merged.update(outcomes)
    for name, minimum in guards.items():
        if merged.get(name, 0) < minimum:
            vac.append('%s=%d < %d' % (name, merged.get(name, 0), minimum))
    if vac and not fresh:
        print('HARNESS-ERROR vacuity guard failed: ' + '; '.join(vac))
        return 2
    return 1 if fresh else 0


def run_replay(path):
    setup_paths()
    with open(path) as f:
        data = json.load(f)
    mod = importlib.import_module(data['module'])
    if isinstance(data['case'], dict) and 'rerun_shard' in data['case']:
        # the violation is an exception that stopped a whole shard: run it again
        rs = data['case']['rerun_shard']
        if hasattr(mod, 'preload'):
            mod.preload()
        res = _run_shard((rs['module'], rs['label'], rs['fname'], rs['args']))
        hit = [v for v in res.get('violations', []) if v['key'].startswith('uncaught:')]
        if 'harness_error' in res:
            print('HARNESS-ERROR %s' % res['harness_error'])
            return 2
        if not hit:
            print('replay %s: property holds on this case' % path)
            return 0
        print('VIOLATION property=%s replay=%s' % (data['property'], path))
        print('  key=%s what=%s' % (hit[0]['key'], hit[0]['what']))
        return 1
    first = mod.replay(data['case'])
    second = mod.replay(data['case'])
    k1 = sorted((v['key'], v['what']) for v in first)
    k2 = sorted((v['key'], v['what']) for v in second)
    if k1 != k2:
        print('HARNESS-ERROR replay is not deterministic:\n %r\n %r' % (k1, k2))
        return 2
    if not first:
        print('replay %s: property holds on this case' % path)
        return 0
    known = {e['key'] for e in load_known(data['property'])
             if e.get('status') == 'open'}
    rc = 0
    for v in first:
        if v['key'] in known:
            print('KNOWN-FINDING: property=%s %s: %s' % (data['property'],
                                                        v['key'], v['what']))
        else:
            print('VIOLATION property=%s replay=%s' % (data['property'], path))
            print('  key=%s what=%s' % (v['key'], v['what']))
            rc = 1
    return rc
