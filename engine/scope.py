"""E1: small-scope input enumerators (exhaustive, simplest first).

All enumerators return plain data (edge lists etc.); builders turn them into
cnfgen objects using only the public constructors + add_edge.
"""
import itertools


# ---------------------------------------------------------------- graphs --
def all_pairs(n):
    return [(u, v) for u in range(1, n + 1) for v in range(u + 1, n + 1)]


def simple_graphs(n):
    """All labelled simple graphs on vertices 1..n as sorted edge tuples,
    ordered by number of edges then lexicographically."""
    pairs = all_pairs(n)
    for m in range(len(pairs) + 1):
        for es in itertools.combinations(pairs, m):
            yield es


def simple_graphs_upto(nmax, nmin=0):
    for n in range(nmin, nmax + 1):
        for es in simple_graphs(n):
            yield n, es


def digraphs(n, loops=True):
    pairs = [(u, v) for u in range(1, n + 1) for v in range(1, n + 1)
             if loops or u != v]
    for m in range(len(pairs) + 1):
        for es in itertools.combinations(pairs, m):
            yield es


def dags(n):
    """All DAGs in topological numbering: edges u<v."""
    return simple_graphs(n)


def bipartite_graphs(L, R):
    pairs = [(u, v) for u in range(1, L + 1) for v in range(1, R + 1)]
    for m in range(len(pairs) + 1):
        for es in itertools.combinations(pairs, m):
            yield es


def bipartite_graphs_upto(Lmax, Rmax, Lmin=0, Rmin=0):
    for L in range(Lmin, Lmax + 1):
        for R in range(Rmin, Rmax + 1):
            for es in bipartite_graphs(L, R):
                yield L, R, es


def mk_graph(n, edges, name=None):
    from cnfgen.graphs import Graph
    G = Graph(n) if name is None else Graph(n, name)
    for u, v in edges:
        G.add_edge(u, v)
    return G


def mk_digraph(n, edges):
    from cnfgen.graphs import DirectedGraph
    G = DirectedGraph(n)
    for u, v in edges:
        G.add_edge(u, v)
    return G


def mk_bipartite(L, R, edges):
    from cnfgen.graphs import BipartiteGraph
    G = BipartiteGraph(L, R)
    for u, v in edges:
        G.add_edge(u, v)
    return G


# reference graph facts (brute force, independent of cnfgen.graphs) --------
def adjacency(n, edges):
    adj = {v: set() for v in range(1, n + 1)}
    for u, v in edges:
        adj[u].add(v)
        adj[v].add(u)
    return adj


def components(n, edges):
    adj = adjacency(n, edges)
    seen = set()
    comps = []
    for s in range(1, n + 1):
        if s in seen:
            continue
        comp = []
        stack = [s]
        seen.add(s)
        while stack:
            x = stack.pop()
            comp.append(x)
            for y in adj[x]:
                if y not in seen:
                    seen.add(y)
                    stack.append(y)
        comps.append(sorted(comp))
    return comps


# ------------------------------------------------------------------ CNFs --
def clause_alphabet(v):
    """Clause alphabet over variables 1..v: the empty clause, all unit,
    binary and (v>=3) ternary clauses on distinct variables with every
    polarity, a clause with a repeated literal and one with opposite
    literals."""
    out = [()]
    for k in (1, 2, 3):
        if k > v:
            break
        for vs in itertools.combinations(range(1, v + 1), k):
            for signs in itertools.product((1, -1), repeat=k):
                out.append(tuple(s * x for s, x in zip(signs, vs)))
    if v >= 1:
        out.append((1, 1))
        out.append((1, -1))
    if v >= 2:
        out.append((-2, 1, -2))
        out.append((2, -1, -2))
    return out


def cnfs(v, mmax, declared_extra=(0, 1)):
    """All CNFs over the clause alphabet of v variables with <= mmax clauses
    (ordered lists, repetitions allowed), crossed with the number of
    declared-but-unused extra variables.  Yields (numvars, clause_list)."""
    alpha = clause_alphabet(v)
    for m in range(mmax + 1):
        for cls in itertools.product(alpha, repeat=m):
            for extra in declared_extra:
                yield v + extra, list(cls)


def small_cnf_catalogue():
    """A fixed ordered catalogue of small CNFs used where the full alphabet
    product would be too large: (numvars, clauses)."""
    cat = [
        (0, []),
        (0, [()]),
        (1, []),
        (1, [(1,)]),
        (1, [(-1,)]),
        (1, [(1,), (-1,)]),
        (2, [(1, 2)]),
        (2, [(1, -2), (-1, 2)]),
        (2, [(1, 2), ()]),
        (3, [(1, 2)]),                      # unused variable 3
        (2, [(1, 1)]),                      # repeated literal
        (2, [(1, -1, 2)]),                  # opposite literals
        (3, [(1, -2, 3), (-1, 2), (-3,)]),
        (3, [(1, 2, 3), (-1, -2, -3), (1, -2), (2, -3), (3, -1)]),
        (4, [(1, 2), (3, 4), (-1, -3), (-2, -4)]),
    ]
    return cat


def mk_cnf(numvars, clauses, cls=None, description=None):
    if cls is None:
        from cnfgen.formula.cnf import CNF as cls
    F = cls(description=description) if description is not None else cls()
    F.update_variable_number(numvars)
    for c in clauses:
        F.add_clause(list(c))
    return F


# ------------------------------------------------------------ parameters --
def box(*ranges):
    return itertools.product(*ranges)


def polarity_patterns(n):
    """All literal lists over variables 1..n, one literal per variable."""
    for signs in itertools.product((1, -1), repeat=n):
        yield [s * (i + 1) for i, s in enumerate(signs)]


def chunks(seq, k):
    """Split a list into k nearly equal contiguous chunks (deterministic)."""
    seq = list(seq)
    k = max(1, min(k, len(seq) or 1))
    q, r = divmod(len(seq), k)
    out = []
    i = 0
    for j in range(k):
        size = q + (1 if j < r else 0)
        out.append(seq[i:i + size])
        i += size
    return out


def stripe(seq, k):
    """k interleaved slices (better load balance when cost grows along seq)."""
    seq = list(seq)
    return [seq[i::k] for i in range(k) if seq[i::k]]
