"""Runs in a fresh interpreter in which the optional package `pydot` cannot be
imported (checks/c14 starts it): every format the documentation lists for a
graph type, except dot, must be offered and must round-trip.  Prints JSON."""
import io
import os
import sys
import json

sys.dont_write_bytecode = True
sys.modules['pydot'] = None            # import pydot -> ImportError
sys.path.insert(0, os.environ['VERIF_REPO_PATH'])
import warnings  # noqa
warnings.simplefilter('ignore')

DOC = {'simple': ['kthlist', 'gml', 'dimacs'], 'digraph': ['kthlist', 'gml', 'dimacs'],
       'dag': ['kthlist', 'gml', 'dimacs'], 'bipartite': ['kthlist', 'gml', 'matrix']}


def main():
    from cnfgen.graphs import Graph, DirectedGraph, BipartiteGraph, readGraph, writeGraph, has_dot_library
    out = {'has_dot_library': bool(has_dot_library()), 'problems': [], 'roundtrips': 0}
    classes = {'simple': Graph, 'digraph': DirectedGraph, 'dag': DirectedGraph, 'bipartite': BipartiteGraph}
    for gtype, cls in classes.items():
        offered = list(cls.supported_file_formats())
        if sorted(offered) != sorted(DOC[gtype]):
            out['problems'].append(['formats-offered', gtype, 'offered %r, documented without dot: %r'
                                    % (offered, DOC[gtype])])
        for fmt in DOC[gtype]:
            if gtype == 'bipartite':
                G = BipartiteGraph(3, 2)
                edges = [(1, 1), (1, 2), (3, 2)]
            else:
                G = cls(4)
                edges = [(1, 2), (1, 3), (2, 4)]
            for e in edges:
                G.add_edge(*e)
            try:
                buf = io.StringIO()
                writeGraph(G, buf, gtype, fmt)
                H = readGraph(io.StringIO(buf.getvalue()), gtype, fmt)
                got = sorted(tuple(e) for e in H.edges())
                if got != sorted(edges) or H.number_of_vertices() != G.number_of_vertices():
                    out['problems'].append(['roundtrip', gtype, '%s: read back %r' % (fmt, got)])
                out['roundtrips'] += 1
            except Exception as e:
                out['problems'].append(['roundtrip:exception:' + type(e).__name__, gtype,
                                        '%s: %s' % (fmt, str(e)[:150])])
    json.dump(out, sys.stdout)


if __name__ == '__main__':
    main()
