#!/venv/bin/python
"""Entry point of every check:  run.py CNN [--tier quick|thorough] [--replay F]

Exit 0: the property held on everything explored.
Exit 1: at least one `VIOLATION property=<id> replay=<path>` line was printed.
Exit 2: the harness itself failed (no verdict).
"""
import os
import sys
import glob
import argparse

HERE = os.path.dirname(os.path.abspath(__file__))
sys.path.insert(0, HERE)
os.chdir(HERE)

from engine import common  # noqa: E402


def module_for(pid):
    hits = glob.glob(os.path.join(HERE, 'checks', pid.lower() + '_*.py'))
    if len(hits) != 1:
        raise SystemExit('no unique check module for %s: %r' % (pid, hits))
    return 'checks.' + os.path.basename(hits[0])[:-3]


def main():
    ap = argparse.ArgumentParser()
    ap.add_argument('property')
    ap.add_argument('--tier', default=os.environ.get('VERIF_TIER', 'quick'),
                    choices=['quick', 'thorough'])
    ap.add_argument('--replay', default=None)
    ap.add_argument('--workers', type=int, default=None)
    args = ap.parse_args()
    if args.replay:
        sys.exit(common.run_replay(args.replay))
    try:
        seed = int(os.environ.get('VERIF_SEED', '0'))
    except ValueError:
        seed = 0
    sys.exit(common.run_check(module_for(args.property), args.tier, seed,
                              workers=args.workers))


if __name__ == '__main__':
    main()
