#!/venv/bin/python
"""Regenerates seeded/SUMMARY.md from seeded/*/meta.json."""
import os, json, glob
HERE = os.path.dirname(os.path.abspath(__file__))
rows = []
NOTES = json.load(open(os.path.join(HERE, 'seeded', 'NOTES.json'))) if os.path.exists(os.path.join(HERE, 'seeded', 'NOTES.json')) else {}
for f in sorted(glob.glob(os.path.join(HERE, 'seeded', '*', 'meta.json'))):
    m = json.load(open(f))
    ev = m.get('evaluation', {})
    sid = os.path.basename(os.path.dirname(f))
    checks = ev.get('checks', {})
    keys = sorted({k for v in checks.values() for k in v.get('violation_keys', [])})
    ok = (ev.get('patch_applies') and ev.get('demo_clean_rc') == 0 and
          ev.get('demo_patched_rc') not in (0, None) and ev.get('tests_match_baseline'))
    rows.append((sid, m.get('breaks_property', '?'), (m.get('summary') or '')[:110].replace('|', '/'),
                 (m.get('needs') or '')[:110].replace('|', '/'),
                 'yes' if ok else 'NO',
                 'DETECTED' if ev.get('detected') else ('silent: judged not a violation' if m.get('judgement') else 'missed'),
                 ', '.join(keys[:3])))
with open(os.path.join(HERE, 'seeded', 'SUMMARY.md'), 'w') as out:
    out.write('# Seeded property-breaking changes (written by fresh sub-agents from the property text only)\n\n')
    out.write('valid = patch applies, demo passes on the clean tree and fails on the patched one, pinned suite unchanged.\n\n')
    out.write('| id | property | change | needs | valid | verdict of the check (quick tier) | reporting keys |\n|---|---|---|---|---|---|---|\n')
    for r in rows:
        out.write('| ' + ' | '.join(r) + ' |\n')
    det = sum(1 for r in rows if r[5] == 'DETECTED')
    out.write('\n%d changes, %d detected by the current checks.\n\n## History\n\n' % (len(rows), det))
    for k in sorted(NOTES):
        out.write('* **%s** - %s\n' % (k, NOTES[k]))
print(open(os.path.join(HERE, 'seeded', 'SUMMARY.md')).read()[-600:])
