#!/venv/bin/python
"""Run the repository's pinned test-suite (guard off) and compare with
/root/.vp/BASELINE.json stable_pass."""
import json, os, subprocess, sys, tempfile
import xml.etree.ElementTree as ET
base = json.load(open('/root/.vp/BASELINE.json'))
repo = sys.argv[1] if len(sys.argv) > 1 else '/repo'
with tempfile.TemporaryDirectory() as d:
    xml = os.path.join(d, 'r.xml')
    env = dict(os.environ)
    env.pop('CNFGEN_VERIF', None)
    subprocess.call(['/venv/bin/python', '-m', 'pytest', '-ra', '-q', '-p', 'no:cacheprovider',
                     '--timeout=900', '--continue-on-collection-errors', '--junitxml=' + xml],
                    cwd=repo, env=env, stdout=subprocess.DEVNULL, stderr=subprocess.DEVNULL)
    passed = set()
    for tc in ET.parse(xml).getroot().iter('testcase'):
        if not any(ch.tag in ('failure', 'error', 'skipped') for ch in tc):
            passed.add('%s::%s' % (tc.get('classname'), tc.get('name')))
stable = set(base['stable_pass'])
missing = sorted(stable - passed)
print('passed now: %d; baseline stable: %d; baseline tests not passing now: %d' %
      (len(passed), len(stable), len(missing)))
for m in missing:
    print('  MISSING', m)
print('newly passing:', len(passed - stable))
sys.exit(1 if missing else 0)
