"""Reference semantics over *named* atoms.

A `Sem` object is built from the published variable names of a formula
(`all_variable_labels()`), never from the formula's variable-group objects:
atoms are looked up by (prefix, index tuple) parsed from the names, so the
reference model is tied to the documented meaning of each variable.
All predicates are evaluated on all assignments at once (engine.tt bitmaps).
"""
import re
from engine import tt

_NAME = re.compile(r'^([A-Za-z]+)[_]?[\{\(\[]?([0-9]+(?:,[0-9]+)*)[\}\)\]]?$')
_NAME2 = re.compile(r'^([A-Za-z]+)\(([0-9]+)\)=([0-9]+)$')   # f(3)=8


def parse_name(name):
    m = _NAME2.match(name)
    if m:
        return m.group(1), (int(m.group(2)), int(m.group(3)))
    m = _NAME.match(name)
    if not m:
        return None
    return m.group(1), tuple(int(x) for x in m.group(2).split(','))


class Sem:
    def __init__(self, names):
        self.names = list(names)
        self.n = len(self.names)
        self.cols = tt.columns(self.n)
        self.mask = self.cols[0]
        self.atom = {}
        self.bad_names = []
        for i, nm in enumerate(self.names, start=1):
            key = parse_name(nm) if isinstance(nm, str) else None
            if key is None or key in self.atom:
                self.bad_names.append((i, nm))
            else:
                self.atom[key] = i

    # ---- atoms ---------------------------------------------------------
    def has(self, prefix, *idx):
        return (prefix, tuple(idx)) in self.atom

    def var(self, prefix, *idx):
        return self.atom[(prefix, tuple(idx))]

    def col(self, prefix, *idx):
        return self.cols[self.atom[(prefix, tuple(idx))]]

    def prefixes(self):
        out = {}
        for (p, idx) in self.atom:
            out.setdefault(p, []).append(idx)
        return {p: sorted(v) for p, v in out.items()}

    # ---- connectives on bitmaps ---------------------------------------------
    def NOT(self, x):
        return self.mask ^ x

    def AND(self, xs):
        r = self.mask
        for x in xs:
            r &= x
        return r

    def OR(self, xs):
        r = 0
        for x in xs:
            r |= x
        return r

    def IMP(self, a, b):
        return (self.mask ^ a) | b

    def card(self, xs, op, k):
        return tt.card_cols(self.n, list(xs), op, k)

    def parity(self, xs, value):
        r = 0
        for x in xs:
            r ^= x
        return r if value else self.mask ^ r
