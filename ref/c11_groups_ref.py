"""Reference model of cnfgen's variable groups (property C11).

Pure Python, no import of cnfgen.  Written from the documentation of
cnfgen/formula/variables.py (docstrings and doctests), not from the index
arithmetic of the classes:

* ``ref_indices(kind, shape)``   the legal indices of a group, in the order in
  which identifiers are handed out (the documented enumeration order: plain
  lexicographic order of the index tuples; by successor for digraph edges
  created with sortby='succ'; most significant bit first for binary mappings);
* ``coord_domains(kind, shape)`` the legal interval of every coordinate;
* ``expect(kind, shape, idxs, p)`` what an index pattern ``p`` (ints and None)
  denotes: one index, a filtered enumeration, or an error;
* ``ref_label(kind, fmt, idx)``  the documented name of the variable of index
  ``idx`` under label format ``fmt``;
* ``Model``: the history model used by the state exploration: which name
  every identifier received at creation time.
"""
import itertools

WORD_KINDS = ('combinations', 'combinations_with_replacement',
              'permutations', 'words')
BIP_KINDS = ('bipartite_edges', 'sparse_mapping')
KINDS = ('variable', 'block') + WORD_KINDS + BIP_KINDS + \
    ('mapping', 'graph_edges', 'digraph_edges', 'binary_mapping')


def bits_for(m):
    """smallest k with m <= 2**k   (documentation of new_binary_mapping)"""
    k = 0
    while (1 << k) < m:
        k += 1
    return k


def ref_indices(kind, shape):
    if kind == 'variable':
        return [()]
    if kind == 'block':
        return sorted(itertools.product(*[range(1, r + 1) for r in shape]))
    if kind in WORD_KINDS:
        n, k = shape
        out = []
        for t in itertools.product(range(1, n + 1), repeat=k):
            if kind == 'combinations':
                ok = all(t[i] < t[i + 1] for i in range(k - 1))
            elif kind == 'combinations_with_replacement':
                ok = all(t[i] <= t[i + 1] for i in range(k - 1))
            elif kind == 'permutations':
                ok = len(set(t)) == k
            else:
                ok = True
            if ok:
                out.append(t)
        return sorted(out)
    if kind in BIP_KINDS:
        L, R, edges = shape
        return sorted({(u, v) for u, v in edges})
    if kind == 'mapping':
        n, m = shape
        return [(u, v) for u in range(1, n + 1) for v in range(1, m + 1)]
    if kind == 'graph_edges':
        n, edges = shape
        return sorted({(min(u, v), max(u, v)) for u, v in edges})
    if kind == 'digraph_edges':
        n, edges, sortby = shape
        es = {(u, v) for u, v in edges}
        if sortby == 'pred':
            return sorted(es)
        return sorted(es, key=lambda e: (e[1], e[0]))
    if kind == 'binary_mapping':
        n, m = shape
        k = bits_for(m)
        return [(i, b) for i in range(1, n + 1) for b in range(k - 1, -1, -1)]
    raise KeyError(kind)


def coord_domains(kind, shape):
    """inclusive (lo, hi) of every coordinate of an index"""
    if kind == 'variable':
        return []
    if kind == 'block':
        return [(1, r) for r in shape]
    if kind in WORD_KINDS:
        n, k = shape
        return [(1, n)] * k
    if kind in BIP_KINDS:
        return [(1, shape[0]), (1, shape[1])]
    if kind == 'mapping':
        return [(1, shape[0]), (1, shape[1])]
    if kind in ('graph_edges', 'digraph_edges'):
        return [(1, shape[0]), (1, shape[0])]
    if kind == 'binary_mapping':
        return [(1, shape[0]), (0, bits_for(shape[1]) - 1)]
    raise KeyError(kind)


def patterns(kind, shape):
    """every pattern whose coordinates are None or a value of the legal
    interval extended by one step on both sides"""
    doms = coord_domains(kind, shape)
    vals = [[None] + list(range(lo - 1, hi + 2)) for lo, hi in doms]
    return itertools.product(*vals)


def normal(kind, idx):
    idx = tuple(idx)
    if kind == 'graph_edges' and len(idx) == 2:
        return (min(idx), max(idx))
    return idx


def matches(kind, idx, p):
    if kind == 'graph_edges':
        given = [x for x in p if x is not None]
        return all(x in idx for x in given) and \
            (len(given) < 2 or normal(kind, given) == idx)
    return all(x is None or x == y for x, y in zip(p, idx))


def expect(kind, shape, idxs, idxset, p):
    """('one', idx) | ('many', [idx..]) | ('err',) | ('many_or_err', [idx..])
    `idxs` is the enumeration of the group (identifier order)."""
    doms = coord_domains(kind, shape)
    arity = len(doms)
    if len(p) == 0 or all(x is None for x in p):
        if len(p) not in (0, arity):
            return ('err',)
        if arity == 0:
            return ('all0', list(idxs))
        if kind in WORD_KINDS and len(p) > 0:
            return ('many_or_err', list(idxs))
        return ('many', list(idxs))
    if len(p) != arity:
        return ('err',)
    if None not in p:
        q = normal(kind, p)
        if kind == 'graph_edges' and p[0] == p[1]:
            return ('err',)
        return ('one', q) if q in idxset else ('err',)
    for x, (lo, hi) in zip(p, doms):
        if x is not None and not (lo <= x <= hi):
            return ('err',)
    sel = [i for i in idxs if matches(kind, i, p)]
    if kind in WORD_KINDS:
        # the class documents no wildcard support for these groups: a clean
        # ValueError is accepted, a wrong enumeration is not
        return ('many_or_err', sel)
    return ('many', sel)


def ref_label(kind, fmt, idx):
    if kind == 'variable':
        return fmt
    if kind in WORD_KINDS:
        return fmt.format(','.join(str(x) for x in idx))
    return fmt.format(*idx)


def custom_label(kind, shape, tag='q'):
    """a label format with the right number of placeholders whose output is
    different for different indices and different tags"""
    if kind == 'variable':
        return tag
    if kind in WORD_KINDS:
        return tag + '<{}>'
    arity = len(coord_domains(kind, shape))
    return tag + '[' + ';'.join(['{}'] * arity) + ']'


# --------------------------------------------------------- history model --
ANY = ('<any string>',)     # name of a variable created without a label


class Model:
    """What a history of operations must have produced: the number of
    variables, the groups with their identifier ranges, the name of every
    identifier (as given at creation time)."""

    def __init__(self):
        self.numvar = 0
        self.names = []          # names[i-1]: str | ANY | None (anonymous)
        self.groups = []         # (kind, shape, first, size, label)
        self.singletons = []     # (id, label or None)

    def raise_to(self, value):
        while self.numvar < value:
            self.numvar += 1
            self.names.append(None)

    def add_group(self, kind, shape, label):
        idxs = ref_indices(kind, shape)
        first = self.numvar + 1
        if kind == 'variable':
            self.singletons.append((first, label))
            self.names.append(ANY if label is None else label)
        else:
            for i in idxs:
                self.names.append(ref_label(kind, label, i))
        self.numvar += len(idxs)
        self.groups.append((kind, shape, first, len(idxs), label))
        return idxs, first

    def reference_names(self, default='x{}'):
        return [default.format(i) if nm is None else nm
                for i, nm in enumerate(self.names, start=1)]

    def singleton_after_anonymous(self):
        """is there a single variable created while an anonymous variable
        (outside any group) precedes it with no variable of an indexed group
        in between?"""
        single = {vid for vid, _ in self.singletons}
        pending = False
        for vid, nm in enumerate(self.names, start=1):
            if nm is None:
                pending = True
            elif vid in single:
                if pending:
                    return True
            else:
                pending = False
        return False


def compare_names(got, ref):
    """first 1-based position where the reported names differ from the
    reference (ANY matches everything: judged separately), or None"""
    for pos, (g, r) in enumerate(zip(got, ref), start=1):
        if r is ANY:
            continue
        if g != r:
            return pos
    return None
