"""C19 helpers: complete snapshots of objects and reachability of mutable parts.

Nothing here knows about cnfgen's algorithms: a snapshot is the canonical
description of *everything reachable* from an object through attributes,
items and elements (so "the input is exactly as it was" is literal), and the
sharing analysis lists the mutable containers reachable from two objects at
once (an aliasing witness: mutating one side through such a container is a
mutation of the other side).
"""
import types
from collections import OrderedDict

_ATOMIC = (type(None), bool, int, float, complex, str, bytes)
_OPAQUE = (type, types.ModuleType, types.FunctionType, types.BuiltinFunctionType,
           types.MethodType, types.GeneratorType)


def deep_state(obj, stop=()):
    """Canonical nested-tuple description of the object graph below `obj`.
    Objects whose id is in `stop` are not entered (described as external):
    a plain reference to another formula is not part of this one's state.

    * atoms carry their type name (True is not 1, 1.0 is not 1);
    * list / tuple: elements in order; dict: items in *insertion order*;
      set: elements sorted by their description;
    * any other instance: class name + description of its __dict__;
    * an object met twice (cycle or internal sharing) is described by a
      back-reference to its first visit, so the internal aliasing structure
      is part of the state.
    """
    memo = {}

    def go(x):
        if isinstance(x, _ATOMIC):
            return (type(x).__name__, x)
        if isinstance(x, _OPAQUE):
            return ('opaque', getattr(x, '__qualname__', type(x).__name__))
        if isinstance(x, range):
            return ('range', x.start, x.stop, x.step)
        i = id(x)
        if i in stop:
            return ('external', type(x).__name__)
        if i in memo:
            return ('ref', memo[i])
        memo[i] = len(memo)
        if isinstance(x, list):
            if all(type(y) is int for y in x):       # fast path: a clause
                return ('list-of-int', tuple(x))
            return ('list', tuple(go(y) for y in x))
        if isinstance(x, tuple):
            if all(type(y) is int for y in x):
                return ('tuple-of-int', x)
            return ('tuple', tuple(go(y) for y in x))
        if isinstance(x, dict):
            return ('dict', type(x).__name__,
                    tuple((go(k), go(v)) for k, v in list(x.items())))
        if isinstance(x, (set, frozenset)):
            return ('set', type(x).__name__,
                    tuple(sorted((go(y) for y in x), key=repr)))
        d = getattr(x, '__dict__', None)
        if d is not None:
            return ('obj', type(x).__module__ + '.' + type(x).__qualname__,
                    tuple((k, go(v)) for k, v in list(d.items())))
        return ('opaque', type(x).__name__)
    return go(obj)


def mutable_parts(obj, stop=()):
    """{id: (path, container)} of every list / dict / set reachable (without
    entering the objects whose id is in `stop`)."""
    out = {}
    seen = set(stop)

    def go(x, path):
        if isinstance(x, _ATOMIC) or isinstance(x, _OPAQUE) or isinstance(x, range):
            return
        i = id(x)
        if i in seen:
            return
        seen.add(i)
        if isinstance(x, list):
            out[i] = (path, x)
            for k, y in enumerate(x):
                if type(y) is not int:
                    go(y, '%s[%d]' % (path, k))
        elif isinstance(x, tuple):
            for k, y in enumerate(x):
                if type(y) is not int:
                    go(y, '%s[%d]' % (path, k))
        elif isinstance(x, dict):
            out[i] = (path, x)
            for k, v in list(x.items()):
                go(k, '%s.key(%r)' % (path, k))
                go(v, '%s[%r]' % (path, k))
        elif isinstance(x, (set, frozenset)):
            if isinstance(x, set):
                out[i] = (path, x)
            for y in x:
                go(y, path + '.elem')
        else:
            d = getattr(x, '__dict__', None)
            if d is not None:
                for k, v in list(d.items()):
                    go(v, '%s.%s' % (path, k))
    go(obj, type(obj).__name__)
    return out


def shared_mutables(a, b):
    """Mutable containers reachable from both `a` and `b`:
    [(path_in_a, path_in_b, container)] in a deterministic order."""
    ma = mutable_parts(a, stop=(id(b),))
    mb = mutable_parts(b, stop=(id(a),))
    both = [(ma[i][0], mb[i][0], ma[i][1]) for i in ma if i in mb]
    both.sort(key=lambda t: (t[0], t[1]))
    return both


class _Sentinel:
    def __repr__(self):
        return '<c19-sentinel>'


def poke(container):
    """Visible mutation of a list / dict / set."""
    if isinstance(container, list):
        container.append(987654)
    elif isinstance(container, dict):
        container['c19 probe key'] = 'c19 probe value'
    elif isinstance(container, set):
        container.add(987654)


# ----------------------------------------------------------- formulas -----
def labels(F):
    try:
        return list(F.all_variable_labels())
    except Exception as e:      # part of the observable state as well
        return ['<%s>' % type(e).__name__]


def _guard(f):
    try:
        return f()
    except Exception as e:      # a state wrecked by an aliasing probe is still a (different) state
        return ['<%s>' % type(e).__name__]


def formula_public(F):
    """What the property names: clauses, variable count, names, header."""
    return {'clauses': _guard(lambda: [list(c) if isinstance(c, (list, tuple)) else c for c in F]),
            'nvars': _guard(F.number_of_variables),
            'names': labels(F),
            'header': _guard(lambda: [(k, v) for k, v in F.header.items()])}


PUBLIC_PARTS = ('clauses', 'nvars', 'names', 'header')


def formula_snapshot(F, stop=()):
    return formula_public(F), deep_state(F, stop)


def diff_formula(before, after):
    """Name of the first component that differs, or None."""
    pb, db = before
    pa, da = after
    for part in PUBLIC_PARTS:
        if pb[part] != pa[part]:
            return part
    if db == da:
        return None
    # 1 == True == 1.0 in Python: compare the public parts with types
    for part in PUBLIC_PARTS:
        if deep_state(pb[part]) != deep_state(pa[part]):
            return part
    return 'internal'


def first_difference(x, y, limit=160):
    """Short human-readable location of the first difference."""
    def go(a, b, path):
        if a == b:
            return None
        if isinstance(a, (list, tuple)) and isinstance(b, (list, tuple)):
            if len(a) != len(b):
                return '%s: length %d -> %d (%r -> %r)' % (path, len(a), len(b), a[-3:], b[-3:])
            for i, (p, q) in enumerate(zip(a, b)):
                r = go(p, q, '%s[%d]' % (path, i))
                if r:
                    return r
        if isinstance(a, dict) and isinstance(b, dict):
            for k in a:
                if k not in b:
                    return '%s: key %r lost' % (path, k)
                r = go(a[k], b[k], '%s[%r]' % (path, k))
                if r:
                    return r
            for k in b:
                if k not in a:
                    return '%s: key %r appeared' % (path, k)
        return '%s: %r -> %r' % (path, a, b)
    r = go(x, y, '') or 'equal'
    return r[:limit]


# -------------------------------------------------------------- graphs ----
def graph_snapshot(G):
    """Full state of a graph argument (cnfgen graph object or networkx)."""
    mod = type(G).__module__
    if mod.startswith('networkx'):
        # cached views (G.nodes, G.adj, ...) are memoised in __dict__ on first
        # use; they are caches, not content.  Content = the documented data
        # structures of a networkx graph.
        return ('nx', type(G).__qualname__,
                deep_state(G.graph), deep_state(G._node), deep_state(G._adj),
                deep_state(getattr(G, '_pred', None)), deep_state(getattr(G, '_succ', None)),
                deep_state(list(G.nodes(data=True))), deep_state(list(G.edges(data=True))))
    pub = [G.number_of_vertices(), G.number_of_edges(), [tuple(e) for e in G.edges()],
           getattr(G, 'name', None)]
    return ('cnfgen', type(G).__qualname__, deep_state(pub), deep_state(G))


def typed(x):
    """Elements with their types and nesting (so 1 != True, list != tuple)."""
    return deep_state(x)
