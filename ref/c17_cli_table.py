"""C17 reference: the table  argv -> library call.

Hand-written from the --help text of every sub-command (usage lines,
"positional arguments", "optional arguments") and from docs/*.rst.  It says,
for every formula sub-command, every option subset, a small box of parameter
values and a box of graph arguments,

  * which tokens go on the command line  (``Sub.argv``), and
  * which *library* call the command line stands for  (``Sub.lib``).

The table never looks at cnfgen/clihelpers: the only link to the code under
test is the *list of registered names* (checks/c17 compares it with the keys
of FORMULAS / TRANSFORMS so that an added or removed sub-command is noticed).

Library results
---------------
``Sub.lib(c, G, fc, L)`` returns either one formula, or ``Exists(thunks)``
when the help text promises a *random* object that is not named on the
command line ("random d-regular graph with N vertices", "random odd charge",
"pigeon can go to 3 random holes"): the command line then stands for the
library generator applied to *some* object of that documented kind, and the
candidates (all labelled d-regular graphs, all charge vectors of the right
parity, all left-regular bipartite graphs ...) are enumerated by brute force.
Where the help text / tests/test_seed.py define the random formula through
the global generator (randkcnf, randkxor, pitfall, shuffle) the library side
re-seeds ``random`` with the same seed and makes the documented calls in the
same order ("seed mirror").

Graph arguments
---------------
A graph argument is described by a JSON value (see GRAPHS_*):
  {'t': type, 'tok': [...construction tokens...], 'lib': [...]} where lib is
  ['direct', constructor, args...]   library constructor documented for that
                                     construction (complete_graph, dag_path..)
  ['saved', fmt, explicit]           the construction is followed by
                                     ``save <file>`` / ``save <fmt> <file>``
                                     and the library side reads that file
  ['file', content_id, fmt, explicit] a file written by the harness in format
                                     fmt, named on the command line as
                                     ``<file.fmt>`` or ``<fmt> <file.txt>``
  ['stdin', content_id, fmt]         ``<fmt> -`` with the text on stdin
"""
import io
import os
import itertools

# ===================================================================== files
CONTENT = {
    # simple graphs (n, edges u<v)
    'S1': ('simple', 4, [(1, 2), (1, 3), (2, 3)]),            # triangle + isolated vertex
    'S2': ('simple', 5, [(1, 2), (2, 3), (3, 4), (4, 5), (1, 5)]),  # 5-cycle
    'S3': ('simple', 4, [(1, 2), (2, 3), (3, 4), (1, 4)]),    # 4-cycle (even colouring sat)
    'S4': ('simple', 3, [(1, 3)]),
    'S12': ('simple', 12, [(1, 12), (2, 11), (3, 10), (10, 11), (11, 12), (1, 2)]),
    'S0': ('simple', 0, []),                                   # the graph without vertices
    # dags (n, edges u<v)
    'D1': ('dag', 3, [(1, 3), (2, 3)]),
    'D2': ('dag', 4, [(1, 2), (1, 3), (2, 4), (3, 4)]),
    'D3': ('dag', 1, []),
    'D4': ('dag', 4, [(1, 3), (2, 3)]),                        # two sinks, one isolated
    # bipartite (L, R, edges (left,right))
    'B1': ('bipartite', (3, 2), [(1, 1), (2, 1), (2, 2), (3, 2)]),
    'B2': ('bipartite', (2, 3), [(1, 1), (1, 3), (2, 2)]),
    'B3': ('bipartite', (3, 3), [(1, 1), (1, 2), (2, 2), (2, 3), (3, 1), (3, 3)]),
    'B4': ('bipartite', (2, 2), [(1, 1), (1, 2), (2, 1), (2, 2)]),
}

DIMACS_CNF = {
    'F1': "c a comment\np cnf 4 3\n1 -2 0\n-1 3 4 0\n-3 0\n",
    'F2': "p cnf 3 0\n",
    'F3': "c two lines\nc of comments\np cnf 2 2\n0\n1 2 0\n",
}


def file_text(cid, fmt):
    """The text of content `cid` in graph file format `fmt`, written from the
    format descriptions (docs/graphs.rst), not with cnfgen's writers."""
    t, n, edges = CONTENT[cid]
    out = []
    if fmt == 'kthlist':
        out.append('c content %s' % cid)
        if t == 'bipartite':
            L, R = n
            out.append(str(L + R))
            for u in range(1, L + 1):
                out.append('%d : %s0' % (u, ''.join('%d ' % (v + L) for (a, v) in edges if a == u)))
        else:
            out.append(str(n))
            for v in range(1, n + 1):
                out.append('%d : %s0' % (v, ''.join('%d ' % u for (u, b) in edges if b == v)))
    elif fmt == 'dimacs':
        out.append('c content %s' % cid)
        out.append('p edge %d %d' % (n, len(edges)))
        for u, v in edges:
            out.append('e %d %d' % (u, v))
    elif fmt == 'matrix':
        L, R = n
        out.append('%d %d' % (L, R))
        for u in range(1, L + 1):
            out.append(' '.join('1' if (u, v) in edges else '0' for v in range(1, R + 1)))
    elif fmt == 'gml':
        out.append('graph [')
        if t == 'dag':
            out.append('  directed 1')
        if t == 'bipartite':
            L, R = n
            for u in range(1, L + 1):
                out.append('  node [ id %d label "%d" bipartite 0 ]' % (u, u))
            for v in range(1, R + 1):
                out.append('  node [ id %d label "%d" bipartite 1 ]' % (L + v, L + v))
            for u, v in edges:
                out.append('  edge [ source %d target %d ]' % (u, L + v))
        else:
            for u in range(1, n + 1):
                out.append('  node [ id %d label "%d" ]' % (u, u))
            for u, v in edges:
                out.append('  edge [ source %d target %d ]' % (u, v))
        out.append(']')
    elif fmt == 'dot':
        if t == 'dag':
            out.append('digraph G {')
            arrow = '->'
        else:
            out.append('graph G {')
            arrow = '--'
        if t == 'bipartite':
            L, R = n
            for u in range(1, L + 1):
                out.append('  %d [bipartite=0];' % u)
            for v in range(1, R + 1):
                out.append('  %d [bipartite=1];' % (L + v))
            for u, v in edges:
                out.append('  %d %s %d;' % (u, arrow, L + v))
        else:
            for u in range(1, n + 1):
                out.append('  %d;' % u)
            for u, v in edges:
                out.append('  %d %s %d;' % (u, arrow, v))
        out.append('}')
    else:
        raise KeyError(fmt)
    return '\n'.join(out) + '\n'


def content_graph(cid):
    """(type, n or (L,R), sorted edge list) - what the file must mean."""
    t, n, edges = CONTENT[cid]
    return t, n, sorted(edges)


# ============================================================ graph arguments
def _cons(t, tok, *lib):
    return {'t': t, 'tok': [str(x) for x in tok], 'lib': list(lib)}


def _file(t, cid, fmt, explicit=False):
    return {'t': t, 'tok': [], 'lib': ['file', cid, fmt, explicit]}


def _stdin(t, cid, fmt):
    return {'t': t, 'tok': [], 'lib': ['stdin', cid, fmt]}


# core box: used in the full product  options x parameters x graphs
SIMPLE_CORE = [
    _cons('simple', ['complete', 4], 'direct', 'complete_graph', 4),
    _cons('simple', ['empty', 3], 'direct', 'empty_graph', 3),
    _cons('simple', ['grid', 2, 3], 'saved', 'kthlist', False),
    _cons('simple', ['gnp', 6, 0.5], 'saved', 'kthlist', False),
    _file('simple', 'S1', 'gml'),
    _file('simple', 'S2', 'kthlist'),
    _file('simple', 'S2', 'kthlist', 'digit'),
]
# every construction / modifier / file format / way of naming the format
SIMPLE_MORE = [
    _cons('simple', ['complete', 1], 'direct', 'complete_graph', 1),
    _cons('simple', ['torus', 3, 3], 'saved', 'gml', True),
    _cons('simple', ['grid', 2, 2, 2], 'saved', 'dimacs', False),
    _cons('simple', ['complete', 2, 2], 'saved', 'dimacs', False),
    _cons('simple', ['gnm', 5, 4], 'saved', 'dot', False),
    _cons('simple', ['gnd', 6, 3], 'saved', 'gml', False),
    _cons('simple', ['gnp', 2, 0.5, 3], 'saved', 'kthlist', False),
    _cons('simple', ['empty', 5, 'plantclique', 3], 'saved', 'kthlist', False),
    _cons('simple', ['gnm', 5, 3, 'addedges', 2], 'saved', 'kthlist', True),
    _cons('simple', ['grid', 2, 2, 'splitedges', 1], 'saved', 'dimacs', True),
    _cons('simple', ['gnp', 5, 0.5, 'plantclique', 3, 'addedges', 1], 'saved', 'dot', True),
    _file('simple', 'S1', 'kthlist', True),
    _file('simple', 'S1', 'dot'),
    _file('simple', 'S1', 'dimacs'),
    _file('simple', 'S3', 'dimacs', True),
    _file('simple', 'S3', 'gml', True),
    _file('simple', 'S4', 'dot', True),
    _file('simple', 'S12', 'dot'),
    _file('simple', 'S12', 'kthlist'),
    _stdin('simple', 'S3', 'kthlist'),
    _stdin('simple', 'S1', 'gml'),
    # the format named explicitly while the extension names another one; a
    # bare file name that starts like a number
    _file('simple', 'S1', 'kthlist', 'misleading'),
    _file('simple', 'S3', 'dimacs', 'misleading'),
    _file('simple', 'S1', 'gml', 'digit'),
]
# graphs where every degree is even (the even colouring formula is defined)
SIMPLE_EVEN = [
    _cons('simple', ['complete', 5], 'direct', 'complete_graph', 5),
    _cons('simple', ['empty', 3], 'direct', 'empty_graph', 3),
    _cons('simple', ['torus', 3, 3], 'saved', 'kthlist', False),
    _file('simple', 'S2', 'gml'),
    _file('simple', 'S3', 'dimacs'),
    _stdin('simple', 'S3', 'dot'),
    _cons('simple', ['complete', 4], 'direct', 'complete_graph', 4),   # odd degrees: refused
]

DAG_CORE = [
    _cons('dag', ['path', 3], 'direct', 'dag_path', 3),
    _cons('dag', ['tree', 2], 'direct', 'dag_complete_binary_tree', 2),
    _cons('dag', ['pyramid', 2], 'direct', 'dag_pyramid', 2),
    _file('dag', 'D2', 'kthlist'),
]
DAG_MORE = [
    _cons('dag', ['path', 0], 'direct', 'dag_path', 0),
    _cons('dag', ['tree', 0], 'direct', 'dag_complete_binary_tree', 0),
    _cons('dag', ['pyramid', 0], 'direct', 'dag_pyramid', 0),
    _cons('dag', ['pyramid', 2], 'saved', 'kthlist', False),
    _cons('dag', ['tree', 1], 'saved', 'gml', False),
    _cons('dag', ['path', 2], 'saved', 'dot', False),
    _cons('dag', ['pyramid', 1], 'saved', 'dimacs', True),
    _file('dag', 'D1', 'gml'),
    _file('dag', 'D1', 'dot'),
    _file('dag', 'D1', 'dimacs'),
    _file('dag', 'D4', 'kthlist', True),
    _file('dag', 'D3', 'kthlist'),
    _file('dag', 'D2', 'gml', True),
    _stdin('dag', 'D2', 'kthlist'),
    _stdin('dag', 'D1', 'dimacs'),
    _file('dag', 'D2', 'kthlist', 'misleading'),
    _file('dag', 'D1', 'gml', 'misleading'),
    _file('dag', 'D2', 'kthlist', 'digit'),
]

BIP_CORE = [
    _cons('bipartite', ['complete', 3, 2], 'direct', 'CompleteBipartiteGraph', 3, 2),
    _cons('bipartite', ['shift', 3, 4, 0, 1], 'direct', 'bipartite_shift', 3, 4, [0, 1]),
    _cons('bipartite', ['glrp', 3, 3, 0.5], 'saved', 'kthlist', False),
    _file('bipartite', 'B1', 'matrix'),
    _file('bipartite', 'B1', 'matrix', 'digit'),
]
BIP_MORE = [
    _cons('bipartite', ['empty', 2, 2], 'direct', 'BipartiteGraph', 2, 2),
    _cons('bipartite', ['shift', 3, 4, 2, 0], 'saved', 'matrix', False),
    _cons('bipartite', ['glrm', 3, 4, 5], 'saved', 'matrix', False),
    _cons('bipartite', ['glrd', 4, 3, 2], 'saved', 'gml', False),
    _cons('bipartite', ['regular', 4, 2, 1], 'saved', 'dot', False),
    _cons('bipartite', ['empty', 3, 3, 'plantbiclique', 2, 2], 'saved', 'kthlist', False),
    _cons('bipartite', ['glrm', 3, 3, 2, 'addedges', 3], 'saved', 'matrix', True),
    _cons('bipartite', ['glrp', 3, 3, 0.3, 'plantbiclique', 1, 2, 'addedges', 1], 'saved', 'kthlist', True),
    _file('bipartite', 'B1', 'kthlist'),
    _file('bipartite', 'B2', 'gml'),
    _file('bipartite', 'B2', 'dot'),
    _file('bipartite', 'B3', 'matrix', True),
    _file('bipartite', 'B2', 'kthlist', True),
    _stdin('bipartite', 'B1', 'matrix'),
    _stdin('bipartite', 'B2', 'kthlist'),
    _file('bipartite', 'B1', 'kthlist', 'misleading'),
    _file('bipartite', 'B1', 'matrix', 'misleading'),
    _file('bipartite', 'B2', 'kthlist', 'digit'),
]
# bipartite graphs with exactly 3 left vertices (explicit compression maps
# for a formula with 3 variables)
BIP_LEFT3 = [
    _cons('bipartite', ['complete', 3, 2], 'direct', 'CompleteBipartiteGraph', 3, 2),
    _cons('bipartite', ['shift', 3, 4, 0, 1], 'direct', 'bipartite_shift', 3, 4, [0, 1]),
    _cons('bipartite', ['glrd', 3, 4, 3], 'saved', 'kthlist', False),
    _cons('bipartite', ['glrd', 3, 3, 2, 'addedges', 1], 'saved', 'matrix', False),
    _file('bipartite', 'B1', 'matrix'),
    _file('bipartite', 'B3', 'gml'),
    _stdin('bipartite', 'B3', 'kthlist'),
    _file('bipartite', 'B3', 'matrix', 'digit'),
    _file('bipartite', 'B1', 'kthlist', 'misleading'),
]


def graph_extension(fmt):
    return fmt


def graph_tokens(gd, tmp, tag):
    """Command-line tokens of the graph argument, stdin text (or None) and the
    list of (path, text) files to write before the call."""
    lib = gd['lib']
    kind = lib[0]
    files = []
    stdin = None
    if kind == 'direct':
        toks = list(gd['tok'])
    elif kind == 'saved':
        fmt, explicit = lib[1], lib[2]
        if explicit:
            path = os.path.join(tmp, 'save_%s.txt' % tag)
            toks = list(gd['tok']) + ['save', fmt, path]
        else:
            path = os.path.join(tmp, 'save_%s.%s' % (tag, fmt))
            toks = list(gd['tok']) + ['save', path]
    elif kind == 'file':
        cid, fmt, explicit = lib[1], lib[2], lib[3]
        path = file_path(gd, tmp, tag)
        if explicit == 'digit':
            toks = [os.path.basename(path)]     # relative to the working directory
        elif explicit:
            toks = [fmt, path]
        else:
            toks = [path]
        files.append((path, file_text(cid, fmt)))
    elif kind == 'stdin':
        cid, fmt = lib[1], lib[2]
        toks = [fmt, '-']
        stdin = file_text(cid, fmt)
    else:
        raise KeyError(kind)
    return toks, stdin, files


_OTHER_EXT = {'kthlist': 'gml', 'gml': 'kthlist', 'dimacs': 'kthlist', 'dot': 'gml', 'matrix': 'kthlist'}


def file_path(gd, tmp, tag):
    """Where the harness writes the file of a 'file' graph argument.
    explicit: False  in_<tag>_<cid>.<fmt>            given as  <path>
              True   in_<tag>_<cid>.txt              given as  <fmt> <path>
              'misleading'  in_<tag>_<cid>.<another supported format>
                                                     given as  <fmt> <path>
              'digit'  5in_<tag>_<cid>.<fmt>         given by its bare name,
                       which starts like a number (working directory = tmp)"""
    cid, fmt, explicit = gd['lib'][1], gd['lib'][2], gd['lib'][3]
    if explicit == 'misleading':
        return os.path.join(tmp, 'in_%s_%s.%s' % (tag, cid, _OTHER_EXT[fmt]))
    if explicit == 'digit':
        return os.path.join(tmp, '5in_%s_%s.%s' % (tag, cid, fmt))
    if explicit:
        return os.path.join(tmp, 'in_%s_%s.txt' % (tag, cid))
    return os.path.join(tmp, 'in_%s_%s.%s' % (tag, cid, fmt))


def graph_saved_path(gd, tmp, tag):
    lib = gd['lib']
    if lib[0] != 'saved':
        return None
    if lib[2]:
        return os.path.join(tmp, 'save_%s.txt' % tag)
    return os.path.join(tmp, 'save_%s.%s' % (tag, lib[1]))


def graph_lib(gd, tmp, tag, L):
    """The graph the argument names, obtained on the library side."""
    lib = gd['lib']
    kind = lib[0]
    G = L.graphs
    if kind == 'direct':
        ctor = lib[1]
        args = lib[2:]
        if ctor in ('complete_graph', 'empty_graph'):
            return getattr(G.Graph, ctor)(*args)
        return getattr(G, ctor)(*args)
    if kind == 'saved':
        path = graph_saved_path(gd, tmp, tag)
        fmt = lib[1]
        return G.readGraph(path, gd['t'], fmt if lib[2] else 'autodetect')
    if kind == 'file':
        cid, fmt, explicit = lib[1], lib[2], lib[3]
        path = file_path(gd, tmp, tag)
        if explicit and explicit != 'digit':
            return G.readGraph(path, gd['t'], fmt)
        return G.readGraph(path, gd['t'], 'autodetect')
    if kind == 'stdin':
        cid, fmt = lib[1], lib[2]
        return G.readGraph(io.StringIO(file_text(cid, fmt)), gd['t'], fmt)
    raise KeyError(kind)


def graph_facts(g):
    """Plain description of a cnfgen graph object: (type, size, sorted edges)."""
    if g.is_bipartite():
        return ('bipartite', (g.left_order(), g.right_order()), sorted(tuple(e) for e in g.edges()))
    if g.is_directed():
        return ('dag', g.order(), sorted(tuple(e) for e in g.edges()))
    return ('simple', g.order(), sorted(tuple(sorted(e)) for e in g.edges()))


class GT(list):
    """Token lists of the graph arguments of one command line (+ extras)."""

    def __init__(self, *a):
        list.__init__(self, *a)
        self.extra = {}


def graph_order_hint(gd):
    """Number of vertices of a DAG argument (known from its description)."""
    lib = gd['lib']
    if lib[0] in ('file', 'stdin'):
        return CONTENT[lib[1]][1]
    name, h = gd['tok'][0], int(gd['tok'][1])
    return {'path': h + 1, 'tree': 2 ** (h + 1) - 1, 'pyramid': (h + 1) * (h + 2) // 2}[name]


SENTINEL = '\x02G%d\x02'


# ===================================================== brute-force candidates
class Exists:
    """The command line stands for the library generator applied to SOME
    object of a documented kind: `thunks` builds one candidate formula each."""

    def __init__(self, thunks, kind):
        self.thunks = thunks
        self.kind = kind


_REG = {}


def regular_graphs(n, d):
    """All labelled d-regular simple graphs on vertices 1..n (edge lists)."""
    key = (n, d)
    if key in _REG:
        return _REG[key]
    res = []
    pairs = [(u, v) for u in range(1, n + 1) for v in range(u + 1, n + 1)]
    if (n * d) % 2 == 0 and 0 <= d < n:
        m = n * d // 2
        for es in itertools.combinations(pairs, m):
            deg = [0] * (n + 1)
            ok = True
            for u, v in es:
                deg[u] += 1
                deg[v] += 1
                if deg[u] > d or deg[v] > d:
                    ok = False
                    break
            if ok and all(x == d for x in deg[1:]):
                res.append(es)
    _REG[key] = res
    return res


def left_regular_bipartite(Lo, Ro, d):
    """All bipartite graphs (Lo,Ro) where every left vertex has degree d."""
    rows = list(itertools.combinations(range(1, Ro + 1), d))
    for choice in itertools.product(rows, repeat=Lo):
        yield [(u, v) for u, row in enumerate(choice, start=1) for v in row]


def biregular_plus_one(n, d):
    """All (n,n)-bipartite graphs that are d-regular on both sides plus one
    additional edge."""
    seen = set()
    for es in left_regular_bipartite(n, n, d):
        rdeg = [0] * (n + 1)
        for _, v in es:
            rdeg[v] += 1
        if any(x != d for x in rdeg[1:]):
            continue
        present = set(es)
        for u in range(1, n + 1):
            for v in range(1, n + 1):
                if (u, v) not in present:
                    g = tuple(sorted(present | {(u, v)}))
                    if g not in seen:
                        seen.add(g)
                        yield list(g)


def mk_simple(L, n, edges):
    g = L.graphs.Graph(n)
    g.name = SENTINEL % 9
    for u, v in edges:
        g.add_edge(u, v)
    return g


def mk_bip(L, Lo, Ro, edges):
    g = L.graphs.BipartiteGraph(Lo, Ro)
    g.name = SENTINEL % 9
    for u, v in edges:
        g.add_edge(u, v)
    return g


def charge_vectors(n, parity):
    """All 0/1 vectors of length n; parity in {'odd','even',None}."""
    for bits in itertools.product((0, 1), repeat=n):
        if parity == 'odd' and sum(bits) % 2 != 1:
            continue
        if parity == 'even' and sum(bits) % 2 != 0:
            continue
        yield list(bits)


# ============================================================== sub-commands
class Opt:
    def __init__(self, name, spellings, value=False):
        self.name = name
        self.spellings = spellings
        self.value = value


class Sub:
    """One formula sub-command.  A *case* is a dict
        {'cmd', 'v': variant, 'p': [parameters], 'o': [option names],
         'sp': {option: spelling index}, 'place': 'pre'|'post',
         'g': [graph descriptors], 'ov': {option: value}}"""
    name = None
    opts = []
    exclusive = []        # groups of mutually exclusive option names
    random = False        # the formula depends on the global generator
    pb = True             # also offered by pbgen

    def option_subsets(self):
        names = [o.name for o in self.opts]
        for r in range(len(names) + 1):
            for sub in itertools.combinations(names, r):
                if any(len(set(sub) & set(g)) > 1 for g in self.exclusive):
                    continue
                yield list(sub)

    def opt(self, name):
        for o in self.opts:
            if o.name == name:
                return o
        raise KeyError(name)

    def option_tokens(self, c):
        toks = []
        for name in c['o']:
            o = self.opt(name)
            toks.append(o.spellings[c.get('sp', {}).get(name, 0)])
            if o.value:
                toks.append(str(c['ov'][name]))
        return toks

    # -- to be provided -----------------------------------------------------
    def variants(self, tier):
        """yield (variant, params, [graph descriptors], option_values)"""
        raise NotImplementedError

    def sweep(self, tier):
        """graph-plumbing sweep: yield (variant, params, [graphs], ov) with the
        extended graph box and one parameter setting"""
        return []

    def positional(self, c, GT):
        raise NotImplementedError

    def lib(self, c, G, fc, L):
        raise NotImplementedError

    def applicable(self, c):
        """False for option/variant combinations that make no sense"""
        return True

    # -- derived --------------------------------------------------------------
    def argv(self, c, GT):
        pos = [str(x) for x in self.positional(c, GT)]
        o = self.option_tokens(c)
        if c.get('place', 'pre') == 'pre':
            return [self.name] + o + pos
        return [self.name] + pos + o

    def cases(self, tier):
        import json
        emitted = set()
        for c in self._cases(tier):
            c['ov'] = {k: v for k, v in c['ov'].items() if k in c['o']}
            k = json.dumps(c, sort_keys=True)
            if k not in emitted:
                emitted.add(k)
                yield c

    def _cases(self, tier):
        seen = set()
        full = list(self.variants(tier))
        if tier == 'thorough':           # full product on the extended graph box too
            full += list(self.sweep(tier))
        for (v, p, g, ov) in full:
            for o in self.option_subsets():
                for place in (('pre', 'post') if o else ('pre',)):
                    c = {'cmd': self.name, 'v': v, 'p': list(p), 'g': list(g),
                         'o': o, 'place': place, 'ov': dict(ov or {})}
                    if self.applicable(c):
                        yield c
            # every alternative spelling, one option at a time
            for o in self.opts:
                for i in range(1, len(o.spellings)):
                    c = {'cmd': self.name, 'v': v, 'p': list(p), 'g': list(g),
                         'o': [o.name], 'sp': {o.name: i}, 'place': 'pre',
                         'ov': dict(ov or {})}
                    key = (v, o.name, i)
                    if self.applicable(c) and key not in seen:
                        seen.add(key)
                        yield c
        for (v, p, g, ov) in self.sweep(tier):
            c = {'cmd': self.name, 'v': v, 'p': list(p), 'g': list(g),
                 'o': [], 'place': 'pre', 'ov': dict(ov or {}), 'sweep': True}
            if self.applicable(c):
                yield c


def box(*ranges):
    return itertools.product(*ranges)


FORMULAS = {}


def register(cls):
    FORMULAS[cls.name] = cls()
    return cls


# ----------------------------------------------------------- simple formulas
@register
class _And(Sub):
    """and <P> <N>: A single conjunction of <P> positive and <N> negative literals"""
    name = 'and'

    def variants(self, tier):
        for P, N in box(range(3), range(3)):
            yield 'PN', [P, N], [], None

    def positional(self, c, GT):
        return c['p']

    def lib(self, c, G, fc, L):
        P, N = c['p']
        F = fc()
        F.update_variable_number(P + N)
        for v in range(1, P + 1):
            F.add_clause([v])
        for v in range(P + 1, P + N + 1):
            F.add_clause([-v])
        F._c17_no_names = True       # no library generator documents the names
        return F


@register
class _Or(Sub):
    """or <P> <N>: A single clause with <P> positive and <N> negative literals"""
    name = 'or'

    def variants(self, tier):
        for P, N in box(range(3), range(3)):
            yield 'PN', [P, N], [], None

    def positional(self, c, GT):
        return c['p']

    def lib(self, c, G, fc, L):
        P, N = c['p']
        F = fc()
        F.update_variable_number(P + N)
        F.add_clause(list(range(1, P + 1)) + [-v for v in range(P + 1, P + N + 1)])
        F._c17_no_names = True
        return F


@register
class _True(Sub):
    """true: A CNF with no clauses"""
    name = 'true'

    def variants(self, tier):
        yield '', [], [], None

    def positional(self, c, GT):
        return []

    def lib(self, c, G, fc, L):
        F = fc()
        F._c17_no_names = True
        return F


@register
class _False(Sub):
    """false: A CNF with one empty clause"""
    name = 'false'

    def variants(self, tier):
        yield '', [], [], None

    def positional(self, c, GT):
        return []

    def lib(self, c, G, fc, L):
        F = fc()
        F.add_clause([])
        F._c17_no_names = True
        return F


@register
class _Dimacs(Sub):
    """dimacs [<inputfile>]: read dimacs CNF from file / standard input"""
    name = 'dimacs'
    pb = False

    def variants(self, tier):
        for fid in sorted(DIMACS_CNF):
            yield 'file', [fid], [], None
            yield 'stdin', [fid], [], None

    def positional(self, c, GT):
        if c['v'] == 'file':
            return [GT.extra['dimacs_path']]
        return []

    def lib(self, c, G, fc, L):
        src = io.StringIO(DIMACS_CNF[c['p'][0]])
        src.name = SENTINEL % 0          # the header names the input file
        return fc.from_file(src)


# --------------------------------------------------------------- pigeonhole
@register
class _Php(Sub):
    """php N | M N | M N D | <bipartite>  [--functional] [--onto]
    N: N+1 pigeons fly to N holes; M N: M pigeons N holes; M N D: pigeon left
    degree D (random holes); <bipartite>: pigeons can fly to certain holes."""
    name = 'php'
    opts = [Opt('functional', ['--functional']), Opt('onto', ['--onto'])]

    def variants(self, tier):
        for N in (0, 1, 3):
            yield 'N', [N], [], None
        for M, N in ((0, 0), (1, 2), (3, 2), (2, 3), (3, 3)):
            yield 'MN', [M, N], [], None
        for M, N, D in ((3, 2, 2), (2, 3, 3), (3, 3, 2), (2, 3, 1), (3, 3, 0)):
            yield 'MND', [M, N, D], [], None
        for g in BIP_CORE:
            yield 'B', [], [g], None

    def sweep(self, tier):
        for g in BIP_MORE:
            yield 'B', [], [g], None

    def positional(self, c, GT):
        return c['p'] if c['v'] != 'B' else GT[0]

    def lib(self, c, G, fc, L):
        f = 'functional' in c['o']
        o = 'onto' in c['o']
        v = c['v']
        if v == 'N':
            N = c['p'][0]
            return L.PigeonholePrinciple(N + 1, N, functional=f, onto=o, formula_class=fc)
        if v == 'MN':
            M, N = c['p']
            return L.PigeonholePrinciple(M, N, functional=f, onto=o, formula_class=fc)
        if v == 'MND':
            M, N, D = c['p']
            if D == N:
                return L.PigeonholePrinciple(M, N, functional=f, onto=o, formula_class=fc)
            return Exists(
                [(lambda es=es: L.GraphPigeonholePrinciple(mk_bip(L, M, N, es), functional=f,
                                                           onto=o, formula_class=fc))
                 for es in left_regular_bipartite(M, N, D)],
                'bipartite graph (%d,%d) with left degree %d' % (M, N, D))
        return L.GraphPigeonholePrinciple(G[0], functional=f, onto=o, formula_class=fc)


@register
class _Bphp(Sub):
    """bphp M N: M pigeons fly to N holes (binary encoding)"""
    name = 'bphp'

    def variants(self, tier):
        for M, N in box((1, 2, 3), (1, 2, 3, 4, 5)):
            yield 'MN', [M, N], [], None

    def positional(self, c, GT):
        return c['p']

    def lib(self, c, G, fc, L):
        return L.BinaryPigeonholePrinciple(c['p'][0], c['p'][1], formula_class=fc)


@register
class _Rphp(Sub):
    """rphp P R H: P pigeons, R resting places, H holes"""
    name = 'rphp'

    def variants(self, tier):
        for p in ((0, 0, 0), (1, 1, 1), (2, 3, 2), (3, 2, 2), (2, 2, 3), (1, 0, 2), (2, 1, 0)):
            yield 'PRH', list(p), [], None

    def positional(self, c, GT):
        return c['p']

    def lib(self, c, G, fc, L):
        return L.RelativizedPigeonholePrinciple(*c['p'], formula_class=fc)


@register
class _CliqueColoring(Sub):
    """cliquecoloring n k c"""
    name = 'cliquecoloring'

    def variants(self, tier):
        for p in ((0, 1, 1), (3, 2, 1), (3, 1, 2), (4, 3, 2), (4, 2, 3), (2, 3, 3)):
            yield 'nkc', list(p), [], None

    def positional(self, c, GT):
        return c['p']

    def lib(self, c, G, fc, L):
        return L.CliqueColoring(*c['p'], formula_class=fc)


@register
class _Ram(Sub):
    """ram s k N: no independent set of size s, no clique of size k, N vertices"""
    name = 'ram'

    def variants(self, tier):
        for p in ((1, 1, 0), (2, 3, 3), (3, 2, 3), (3, 3, 4), (2, 2, 4), (1, 3, 2), (4, 2, 4)):
            yield 'skN', list(p), [], None

    def positional(self, c, GT):
        return c['p']

    def lib(self, c, G, fc, L):
        s, k, N = c['p']
        return L.RamseyNumber(s, k, N, formula_class=fc)


@register
class _Vdw(Sub):
    """vdw N k1 k2 [k3 ...]"""
    name = 'vdw'

    def variants(self, tier):
        for p in ((0, 1, 1), (4, 2, 3), (4, 3, 2), (5, 3, 3), (5, 2, 2, 2), (6, 3, 2, 3), (3, 1, 2), (5, 2, 3, 2, 3)):
            yield 'Nks', list(p), [], None

    def positional(self, c, GT):
        return c['p']

    def lib(self, c, G, fc, L):
        return L.VanDerWaerden(*c['p'], formula_class=fc)


@register
class _Ptn(Sub):
    """ptn N"""
    name = 'ptn'

    def variants(self, tier):
        for N in (0, 1, 5, 13):
            yield 'N', [N], [], None

    def positional(self, c, GT):
        return c['p']

    def lib(self, c, G, fc, L):
        return L.PythagoreanTriples(c['p'][0], formula_class=fc)


# ----------------------------------------------------------------- counting
@register
class _Parity(Sub):
    """parity N: a set of N elements can be grouped in pairs"""
    name = 'parity'

    def variants(self, tier):
        for N in range(6):
            yield 'N', [N], [], None

    def positional(self, c, GT):
        return c['p']

    def lib(self, c, G, fc, L):
        return L.CountingPrinciple(c['p'][0], 2, formula_class=fc)


@register
class _Count(Sub):
    """count M p: M elements partitioned in sets of size p"""
    name = 'count'

    def variants(self, tier):
        for M, p in box(range(6), (1, 2, 3)):
            yield 'Mp', [M, p], [], None

    def positional(self, c, GT):
        return c['p']

    def lib(self, c, G, fc, L):
        return L.CountingPrinciple(c['p'][0], c['p'][1], formula_class=fc)


@register
class _Matching(Sub):
    """matching G"""
    name = 'matching'

    def variants(self, tier):
        for g in SIMPLE_CORE:
            yield 'G', [], [g], None

    def sweep(self, tier):
        for g in SIMPLE_MORE:
            yield 'G', [], [g], None

    def positional(self, c, GT):
        return GT[0]

    def lib(self, c, G, fc, L):
        return L.PerfectMatchingPrinciple(G[0], formula_class=fc)


@register
class _Tseitin(Sub):
    """tseitin N | N d | <charge> <graph>
    N [d]: random d-regular graph (default 4) with N vertices, random odd charge;
    charge in first random randomodd randomeven zero one."""
    name = 'tseitin'
    random = True
    CHARGES = ['first', 'random', 'randomodd', 'randomeven', 'zero', 'one']

    def variants(self, tier):
        nd = [(5,), (4, 3), (4, 2), (5, 2), (3, 2)]
        if tier == 'thorough':
            nd += [(6,), (6, 5), (6, 3), (5, 4)]
        for p in nd:
            yield 'Nd', list(p), [], None
        for ch in self.CHARGES:
            for g in SIMPLE_CORE:
                yield 'charge', [ch], [g], None

    def sweep(self, tier):
        for i, g in enumerate(SIMPLE_MORE):
            if g['lib'][1] in ('S12',):
                continue                      # 2^12 charge candidates: leave to 'first'
            yield 'charge', [self.CHARGES[i % len(self.CHARGES)]], [g], None
        for g in SIMPLE_MORE:
            if g['lib'][1] in ('S12',):
                yield 'charge', ['first'], [g], None
                yield 'charge', ['one'], [g], None

    def positional(self, c, GT):
        if c['v'] == 'Nd':
            return c['p']
        return [c['p'][0]] + GT[0]

    def lib(self, c, G, fc, L):
        if c['v'] == 'Nd':
            N = c['p'][0]
            d = c['p'][1] if len(c['p']) > 1 else 4
            return Exists(
                [(lambda es=es, ch=ch: L.TseitinFormula(mk_simple(L, N, es), ch, formula_class=fc))
                 for es in regular_graphs(N, d) for ch in charge_vectors(N, 'odd')],
                '%d-regular graph on %d vertices with an odd charge' % (d, N))
        g = G[0]
        n = g.order()
        ch = c['p'][0]
        if ch == 'first':
            return L.TseitinFormula(g, [1] + [0] * (n - 1), formula_class=fc)
        if ch == 'zero':
            return L.TseitinFormula(g, [0] * n, formula_class=fc)
        if ch == 'one':
            return L.TseitinFormula(g, [1] * n, formula_class=fc)
        parity = {'random': None, 'randomodd': 'odd', 'randomeven': 'even'}[ch]
        return Exists(
            [(lambda v=v: L.TseitinFormula(g, v, formula_class=fc)) for v in charge_vectors(n, parity)],
            'charge vector (%s)' % ch)


@register
class _SubsetCard(Sub):
    """subsetcard [-e|--equal] N | N d | <bipartite>
    N [d]: (N,N)-bipartite d-regular (default 4) + 1 edge."""
    name = 'subsetcard'
    random = True
    opts = [Opt('equal', ['--equal', '-e'])]

    def variants(self, tier):
        nd = [(3, 2), (2, 1), (3, 1), (5,)]
        if tier == 'thorough':
            nd += [(4, 2), (4, 3), (5, 4)]
        for p in nd:
            yield 'Nd', list(p), [], None
        for g in BIP_CORE:
            yield 'B', [], [g], None

    def sweep(self, tier):
        for g in BIP_MORE:
            yield 'B', [], [g], None

    def positional(self, c, GT):
        return c['p'] if c['v'] == 'Nd' else GT[0]

    def lib(self, c, G, fc, L):
        eq = 'equal' in c['o']
        if c['v'] == 'B':
            return L.SubsetCardinalityFormula(G[0], equalities=eq, formula_class=fc)
        N = c['p'][0]
        d = c['p'][1] if len(c['p']) > 1 else 4
        return Exists(
            [(lambda es=es: L.SubsetCardinalityFormula(mk_bip(L, N, N, es), equalities=eq,
                                                        formula_class=fc))
             for es in biregular_plus_one(N, d)],
            '(%d,%d)-bipartite %d-regular graph plus one edge' % (N, N, d))


# --------------------------------------------------------------- orderings
@register
class _Op(Sub):
    """op [--total|-t] [--smart|-s] [--knuth2] [--knuth3] [--plant|-p]  N | N d | <graph>"""
    name = 'op'
    random = True
    opts = [Opt('total', ['--total', '-t']), Opt('smart', ['--smart', '-s']),
            Opt('knuth2', ['--knuth2']), Opt('knuth3', ['--knuth3']),
            Opt('plant', ['--plant', '-p'])]
    exclusive = [['total', 'smart', 'knuth2', 'knuth3']]

    def variants(self, tier):
        for N in (0, 1, 2, 3, 4):
            yield 'N', [N], [], None
        nd = [(4, 3), (4, 2), (5, 2), (5, 4)]
        if tier == 'thorough':
            nd += [(6, 3), (6, 4), (3, 2)]
        for p in nd:
            yield 'Nd', list(p), [], None
        for g in SIMPLE_CORE:
            yield 'G', [], [g], None

    def sweep(self, tier):
        for g in SIMPLE_MORE:
            yield 'G', [], [g], None

    def positional(self, c, GT):
        return c['p'] if c['v'] != 'G' else GT[0]

    def _kw(self, c):
        knuth = 0
        if 'knuth2' in c['o']:
            knuth = 2
        if 'knuth3' in c['o']:
            knuth = 3
        return dict(total='total' in c['o'], smart='smart' in c['o'],
                    plant='plant' in c['o'], knuth=knuth)

    def lib(self, c, G, fc, L):
        kw = self._kw(c)
        if c['v'] == 'N':
            return L.OrderingPrinciple(c['p'][0], formula_class=fc, **kw)
        if c['v'] == 'G':
            return L.GraphOrderingPrinciple(G[0], formula_class=fc, **kw)
        N, d = c['p']
        return Exists(
            [(lambda es=es: L.GraphOrderingPrinciple(mk_simple(L, N, es), formula_class=fc, **kw))
             for es in regular_graphs(N, d)],
            '%d-regular graph on %d vertices' % (d, N))


# -------------------------------------------------------------- graph formulas
class _SimpleGraphSub(Sub):
    """<params> G"""
    params = [[]]

    def variants(self, tier):
        for p in self.params:
            for g in SIMPLE_CORE:
                yield 'G', list(p), [g], None

    def sweep(self, tier):
        p = self.params[min(1, len(self.params) - 1)]
        for g in SIMPLE_MORE:
            yield 'G', list(p), [g], None

    def positional(self, c, GT):
        return list(c['p']) + GT[0]


@register
class _KColor(_SimpleGraphSub):
    """kcolor k G"""
    name = 'kcolor'
    params = [[1], [2], [3]]

    def lib(self, c, G, fc, L):
        return L.GraphColoringFormula(G[0], c['p'][0], formula_class=fc)


@register
class _Ec(_SimpleGraphSub):
    """ec G (well defined as long as all vertices have even degree)"""
    name = 'ec'

    def variants(self, tier):
        for g in SIMPLE_EVEN:
            yield 'G', [], [g], None

    def sweep(self, tier):
        return []

    def lib(self, c, G, fc, L):
        return L.EvenColoringFormula(G[0], formula_class=fc)


@register
class _Domset(_SimpleGraphSub):
    """domset [-a|--alternative] d G"""
    name = 'domset'
    opts = [Opt('alternative', ['--alternative', '-a'])]
    params = [[1], [2], [3]]

    def lib(self, c, G, fc, L):
        return L.DominatingSet(G[0], c['p'][0], alternative='alternative' in c['o'],
                               formula_class=fc)


@register
class _Tiling(_SimpleGraphSub):
    """tiling G"""
    name = 'tiling'

    def lib(self, c, G, fc, L):
        return L.Tiling(G[0], formula_class=fc)


@register
class _KClique(_SimpleGraphSub):
    """kclique [--no-symmetry-breaking] k G"""
    name = 'kclique'
    opts = [Opt('nosb', ['--no-symmetry-breaking'])]
    params = [[0], [1], [2], [3]]

    def lib(self, c, G, fc, L):
        return L.CliqueFormula(G[0], c['p'][0], symbreak='nosb' not in c['o'], formula_class=fc)


@register
class _KCliqueBin(_SimpleGraphSub):
    """kcliquebin k G"""
    name = 'kcliquebin'
    params = [[0], [1], [2], [3]]

    def lib(self, c, G, fc, L):
        return L.BinaryCliqueFormula(G[0], c['p'][0], formula_class=fc)


@register
class _Ramlb(_SimpleGraphSub):
    """ramlb k s G: clique of size k or independent set of size s"""
    name = 'ramlb'
    params = [[2, 2], [3, 2], [2, 3], [0, 1], [1, 0], [3, 3]]

    def lib(self, c, G, fc, L):
        k, s = c['p']
        return L.RamseyWitnessFormula(G[0], k, s, formula_class=fc)


SMALL_SIMPLE = [
    _cons('simple', ['complete', 3], 'direct', 'complete_graph', 3),
    _cons('simple', ['empty', 2], 'direct', 'empty_graph', 2),
    _cons('simple', ['gnp', 4, 0.5], 'saved', 'kthlist', False),
    _cons('simple', ['grid', 2, 2], 'saved', 'gml', True),
    _file('simple', 'S1', 'dot'),
    _file('simple', 'S4', 'kthlist', True),
]


SAME_TWICE = [(['grid', 2, 2], ['grid', 2, 2, 'addedges', 1]),
              (['torus', 3, 3], ['torus', 3, 3, 'splitedges', 1]),
              (['complete', 3], ['complete', 3, 'splitedges', 1]),
              (['empty', 3], ['empty', 3, 'plantclique', 2]),
              (['grid', 3, 1], ['grid', 3, 1, 'plantclique', 3])]


@register
class _Iso(Sub):
    """iso G1 [-e G2]: G1 alone: nontrivial automorphisms; G1 -e G2: isomorphism"""
    name = 'iso'

    def variants(self, tier):
        for g in SIMPLE_CORE:
            yield 'G1', [], [g], None
        for g1 in SMALL_SIMPLE:
            for g2 in SMALL_SIMPLE:
                yield 'G1-e-G2', [], [g1, g2], None
        yield 'G1-e-G2', [], [_file('simple', 'S1', 'gml'), _stdin('simple', 'S1', 'kthlist')], None
        # a second graph without vertices is still a second graph
        for fmt in ('gml', 'kthlist', 'dimacs'):
            yield 'G1-e-G2', [], [SMALL_SIMPLE[0], _file('simple', 'S0', fmt)], None
            yield 'G1-e-G2', [], [_file('simple', 'S0', fmt), SMALL_SIMPLE[1]], None
        yield 'G1-e-G2', [], [_file('simple', 'S0', 'gml'), _file('simple', 'S0', 'kthlist', True)], None
        yield 'G1', [], [_file('simple', 'S0', 'kthlist')], None
        yield 'G1-e-G2', [], [_stdin('simple', 'S3', 'dimacs'), _file('simple', 'S3', 'gml', True)], None
        # the same construction twice on one command line, one of them edited
        # by a modifier: two graph arguments are two graphs
        for plain, edited in SAME_TWICE:
            yield 'G1-e-G2', [], [_cons('simple', plain, 'saved', 'gml', True),
                                  _cons('simple', edited, 'saved', 'kthlist', False)], None
            yield 'G1-e-G2', [], [_cons('simple', edited, 'saved', 'kthlist', True),
                                  _cons('simple', plain, 'saved', 'dimacs', False)], None

    def sweep(self, tier):
        for g in SIMPLE_MORE:
            yield 'G1', [], [g], None
        for g in SIMPLE_MORE:
            if g['lib'][0] != 'stdin' and g['lib'][1] != 'S12':
                yield 'G1-e-G2', [], [SMALL_SIMPLE[0], g], None

    def positional(self, c, GT):
        if c['v'] == 'G1':
            return GT[0]
        return GT[0] + ['-e'] + GT[1]

    def lib(self, c, G, fc, L):
        if c['v'] == 'G1':
            return L.GraphAutomorphism(G[0], formula_class=fc)
        return L.GraphIsomorphism(G[0], G[1], formula_class=fc)


@register
class _Subgraph(Sub):
    """subgraph -G <graph> -H <subgraph>"""
    name = 'subgraph'

    def variants(self, tier):
        for g1 in SMALL_SIMPLE:
            for g2 in SMALL_SIMPLE:
                yield 'GH', [], [g1, g2], None
                if g1 is SMALL_SIMPLE[0] or g2 is SMALL_SIMPLE[1]:
                    yield 'HG', [], [g1, g2], None
        yield 'GH', [], [_stdin('simple', 'S2', 'gml'), _file('simple', 'S4', 'dimacs')], None
        for plain, edited in SAME_TWICE[:3]:
            yield 'GH', [], [_cons('simple', plain, 'saved', 'gml', True),
                             _cons('simple', edited, 'saved', 'kthlist', False)], None
            yield 'GH', [], [_cons('simple', edited, 'saved', 'dimacs', False),
                             _cons('simple', plain, 'saved', 'kthlist', True)], None

    def sweep(self, tier):
        for g in SIMPLE_MORE:
            if g['lib'][0] != 'stdin' and g['lib'][1] != 'S12':
                yield 'GH', [], [g, SMALL_SIMPLE[0]], None

    def positional(self, c, GT):
        if c['v'] == 'GH':
            return ['-G'] + GT[0] + ['-H'] + GT[1]
        return ['-H'] + GT[1] + ['-G'] + GT[0]

    def lib(self, c, G, fc, L):
        return L.SubgraphFormula(G[0], G[1], formula_class=fc)


# ------------------------------------------------------------------ pebbling
@register
class _Peb(Sub):
    """peb <dag>"""
    name = 'peb'

    def variants(self, tier):
        for g in DAG_CORE:
            yield 'D', [], [g], None

    def sweep(self, tier):
        for g in DAG_MORE:
            yield 'D', [], [g], None

    def positional(self, c, GT):
        return GT[0]

    def lib(self, c, G, fc, L):
        return L.PebblingFormula(G[0], formula_class=fc)


@register
class _Stone(Sub):
    """stone <stones> <dag> [--sparse <degree>]"""
    name = 'stone'
    random = True
    opts = [Opt('sparse', ['--sparse'], value=True)]

    def variants(self, tier):
        for s, d in ((1, 1), (2, 1), (2, 2), (3, 2)):
            for g in DAG_CORE:
                yield 'sD', [s], [g], {'sparse': d}

    def sweep(self, tier):
        for g in DAG_MORE:
            yield 'sD', [2], [g], {'sparse': 1}

    def positional(self, c, GT):
        return list(c['p']) + GT[0]

    def lib(self, c, G, fc, L):
        s = c['p'][0]
        D = G[0]
        if 'sparse' not in c['o']:
            return L.StoneFormula(D, s, formula_class=fc)
        d = c['ov']['sparse']
        n = D.order()
        return Exists(
            [(lambda es=es: L.SparseStoneFormula(D, mk_bip(L, n, s, es), formula_class=fc))
             for es in left_regular_bipartite(n, s, d)],
            'availability graph (%d,%d) with left degree %d' % (n, s, d))

    def applicable(self, c):
        if 'sparse' in c['o']:
            from math import comb
            n = graph_order_hint(c['g'][0])
            return comb(c['p'][0], c['ov']['sparse']) ** n <= 300
        return True


# ------------------------------------------------------------------- others
@register
class _Cpls(Sub):
    """cpls <a> <b> <c>  (b, c powers of two)"""
    name = 'cpls'

    def variants(self, tier):
        for p in ((1, 1, 1), (1, 2, 2), (2, 2, 1), (2, 1, 2), (2, 2, 2), (2, 4, 2), (2, 3, 2), (1, 2, 3)):
            yield 'abc', list(p), [], None

    def positional(self, c, GT):
        return c['p']

    def lib(self, c, G, fc, L):
        return L.CPLSFormula(*c['p'], formula_class=fc)


@register
class _Pitfall(Sub):
    """pitfall <v> <d> <ny> <nz> <k>  (random regular Tseitin graph inside)"""
    name = 'pitfall'
    random = True
    seeded = True

    def variants(self, tier):
        ps = [(4, 3, 2, 2, 2), (4, 2, 2, 3, 2)]
        if tier == 'thorough':
            ps += [(6, 3, 3, 2, 2), (5, 2, 2, 2, 4)]
        for p in ps:
            yield 'vdyzk', list(p), [], None

    def positional(self, c, GT):
        return c['p']

    def lib(self, c, G, fc, L):
        return L.PitfallFormula(*c['p'], formula_class=fc)      # after random.seed(seed)


class _RandomFormula(Sub):
    """[-p|--plant] <k> <n> <m>  (seed mirror as in tests/test_seed.py)"""
    random = True
    seeded = True
    opts = [Opt('plant', ['--plant', '-p'])]
    gen = None

    def variants(self, tier):
        for p in ((1, 1, 0), (1, 3, 2), (2, 3, 9), (3, 4, 5), (2, 5, 7), (3, 3, 7), (2, 4, 0), (3, 6, 20)):
            yield 'knm', list(p), [], None

    def positional(self, c, GT):
        return c['p']

    def lib(self, c, G, fc, L):
        import random
        k, n, m = c['p']
        gen = getattr(L, self.gen)
        if 'plant' in c['o']:
            planted = [random.choice([-1, 1]) * v for v in range(1, n + 1)]
            return gen(k, n, m, planted_assignments=[planted], formula_class=fc)
        return gen(k, n, m, formula_class=fc)


@register
class _RandKCnf(_RandomFormula):
    name = 'randkcnf'
    gen = 'RandomKCNF'


@register
class _RandKXor(_RandomFormula):
    name = 'randkxor'
    gen = 'RandomKXOR'

    def variants(self, tier):
        for p in ((1, 1, 0), (1, 3, 2), (2, 3, 3), (3, 4, 5), (2, 5, 7), (3, 3, 1), (2, 4, 0), (3, 6, 12)):
            yield 'knm', list(p), [], None


# ============================================================ transformations
class Tr:
    """One -T sub-command: params box, tokens, library function."""
    name = None
    fn = None
    box = [[]]
    random = False

    def tokens(self, p, GT):
        return [self.name] + [str(x) for x in p]

    def graphs(self, p):
        return []

    def lib(self, F, p, G, L, mirror=False):
        return getattr(L, self.fn)(F, *p)


TRANSFORMS = {}


def tregister(cls):
    TRANSFORMS[cls.name] = cls()
    return cls


def _rank(name, fn, bx=((1,), (2,), (3,))):
    cls = type('_T_' + name, (Tr,), {'name': name, 'fn': fn, 'box': [list(b) for b in bx]})
    return tregister(cls)


_rank('or', 'OrSubstitution')
_rank('xor', 'XorSubstitution')
_rank('eq', 'AllEqualSubstitution')
_rank('neq', 'NotAllEqualSubstitution')
_rank('maj', 'MajoritySubstitution')
_rank('one', 'ExactlyOneSubstitution')
_rank('lift', 'FormulaLifting')
_NK = ((1, 1), (2, 1), (2, 2), (3, 1), (3, 2), (3, 3), (2, 3))
_rank('atleast', 'AtLeastKSubstitution', _NK)
_rank('atmost', 'AtMostKSubstitution', _NK)
_rank('exact', 'ExactlyKSubstitution', _NK)
_rank('anybut', 'AnythingButKSubstitution', _NK)
_rank('ite', 'IfThenElseSubstitution', ((),))
_rank('flip', 'FlipPolarity', ((),))


@tregister
class _TNone(Tr):
    name = 'none'

    def lib(self, F, p, G, L, mirror=False):
        return F


@tregister
class _TShuffle(Tr):
    """shuffle [-p|--no-polarity-flips] [-v|--no-variables-permutation]
    [-c|--no-clauses-permutation]"""
    name = 'shuffle'
    random = True
    FLAGS = [('p', '--no-polarity-flips'), ('v', '--no-variables-permutation'),
             ('c', '--no-clauses-permutation')]
    box = [list(s) for r in range(4) for s in itertools.combinations('pvc', r)] + \
          [['P'], ['V'], ['C'], ['P', 'V', 'C']]

    def tokens(self, p, GT):
        long = dict(self.FLAGS)
        return [self.name] + [('-' + x) if x.islower() else long[x.lower()] for x in p]

    def lib(self, F, p, G, L, mirror=False):
        s = {x.lower() for x in p}
        return L.Shuffle(F,
                         polarity_flips='fixed' if 'p' in s else 'shuffle',
                         variables_permutation='fixed' if 'v' in s else 'shuffle',
                         clauses_permutation='fixed' if 'c' in s else 'shuffle')


class _Comp(Tr):
    """xorcomp|majcomp  N | N d | <bipartite>: each variable is substituted with
    the XOR/majority of d (default 3) members of a set of N new variables, or
    with an explicit mapping"""
    function = None
    random = True
    # params: ['N', N] | ['Nd', N, d] | ['B', graph descriptor]
    box = [['N', 3], ['N', 4], ['Nd', 3, 2], ['Nd', 2, 1], ['Nd', 2, 2]] + \
          [['B', g] for g in BIP_LEFT3]

    def tokens(self, p, GT):
        if p[0] == 'B':
            return [self.name] + GT[0]
        return [self.name] + [str(x) for x in p[1:]]

    def graphs(self, p):
        return [p[1]] if p[0] == 'B' else []

    def lib(self, F, p, G, L, mirror=False):
        fn = self.function
        if p[0] == 'B':
            return L.VariableCompression(F, G[0], function=fn)
        N = p[1]
        d = p[2] if p[0] == 'Nd' else 3
        V = F.number_of_variables()
        if mirror:
            B = L.graphs.bipartite_random_left_regular(V, N, d)
            return L.VariableCompression(F, B, function=fn)
        return Exists(
            [(lambda es=es: L.VariableCompression(F, mk_bip(L, V, N, es), function=fn))
             for es in left_regular_bipartite(V, N, d)],
            'mapping (%d,%d) with left degree %d' % (V, N, d))


@tregister
class _TXorComp(_Comp):
    name = 'xorcomp'
    function = 'xor'


@tregister
class _TMajComp(_Comp):
    name = 'majcomp'
    function = 'maj'


# one representative parameter choice per transformation for chains of length 2
PAIR_PARAMS = {
    'or': [2], 'xor': [2], 'eq': [2], 'neq': [2], 'maj': [3], 'one': [2], 'lift': [2],
    'atleast': [2, 1], 'atmost': [2, 1], 'exact': [2, 1], 'anybut': [3, 1],
    'ite': [], 'flip': [], 'none': [], 'shuffle': [],
    'xorcomp': ['Nd', 2, 2], 'majcomp': ['N', 3],
}
# a second, different choice (rotated in by the thorough tier)
PAIR_PARAMS_2 = {
    'or': [3], 'xor': [3], 'eq': [3], 'neq': [3], 'maj': [2], 'one': [3], 'lift': [3],
    'atleast': [3, 2], 'atmost': [3, 2], 'exact': [3, 2], 'anybut': [2, 2],
    'ite': [], 'flip': [], 'none': [], 'shuffle': ['c'],
    'xorcomp': ['N', 3], 'majcomp': ['Nd', 2, 2],
}

# base formulas for the chains: (sub-command, tokens, library call)
CHAIN_BASES = [
    ('php 2 1', ['php', '2', '1'], lambda L, fc: L.PigeonholePrinciple(2, 1, formula_class=fc)),
    ('op 2 --plant', ['op', '2', '--plant'], lambda L, fc: L.OrderingPrinciple(2, plant=True, formula_class=fc)),
    ('count 3 2', ['count', '3', '2'], lambda L, fc: L.CountingPrinciple(3, 2, formula_class=fc)),
    # variables but not a single clause: a transformation still has its variables to replace
    ('ram 3 3 2', ['ram', '3', '3', '2'], lambda L, fc: L.RamseyNumber(3, 3, 2, formula_class=fc)),
    ('ptn 3', ['ptn', '3'], lambda L, fc: L.PythagoreanTriples(3, formula_class=fc)),
]

# DAG files for kthlist2pebbling (text, meaning)
K2P_FILES = {
    'K1': "1\n1 : 0\n",
    'K2': "c a path\n3\n1 : 0\n2 : 1 0\n3 : 2 0\n",
    'K3': "3\n1 : 0\n2 : 0\n3 : 1 2 0\n",
    'K4': "c pyramid of height 2\n\n6\n1 : 0\n2 : 0\n3 : 0\n4 : 1 2 0\n5 : 2 3 0\n6 : 4 5 0\n",
    'K5': "4\n1 : 0\n2 : 0\n3 : 1 0\n4 : 1 2 0\n",
}
