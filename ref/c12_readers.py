"""C12: strict, independent readers for the text formats cnfgen writes.

Written from the format descriptions, not from the writers:

* OPB (linear pseudo-Boolean, PB competition format): a line starting with
  ``*`` is a comment; the first line is the comment
  ``* #variable= N #constraint= M``; every other line is one constraint:
  a (possibly empty) sequence of terms ``<integer> <literal>`` with
  ``<integer> ::= [+-]?digits`` and ``<literal> ::= x<i> | ~x<i>`` (i >= 1, no
  leading zeros), then ``>=`` or ``=``, an integer degree and an optional
  ``;``.  Nothing else is allowed (no blank lines, no objective, no text).
* LaTeX: the ``align`` environments of a snippet / of a full document
  (verbatim ``lstlisting`` environments are skipped like TeX would); rows are
  separated by ``\\\\``; a row is a clause (``\\square`` or literals joined by
  ``\\lor``, optionally inside ``\\left( .. \\right)``, optionally preceded by
  ``\\land``) or a linear constraint (``0`` or terms joined by ``+``, each an
  optional integer coefficient and a literal, then ``\\geq``/``\\ge``/``=`` and
  an integer).  A literal is a brace group ``{name}``, a negated one is
  ``\\overline{name}``, ``{\\overline{base}rest}`` (name = base+rest) or
  ``\\neg`` followed by a literal.  An environment containing only ``\\top``
  is the empty formula.
* DIMACS CNF (only what is needed to identify the output of to_file).

All readers raise FormatError(kind, message); `kind` is a short stable code.
"""
import re


class FormatError(Exception):
    def __init__(self, kind, message=''):
        Exception.__init__(self, '%s: %s' % (kind, message))
        self.kind = kind
        self.message = message


# =========================================================================
# OPB
# =========================================================================
_OPB_HEADER = re.compile(r'^\*\s*#variable=\s*([0-9]+)\s+#constraint=\s*([0-9]+)\s*$')
_OPB_INT = re.compile(r'^[+-]?[0-9]+$')
_OPB_LIT = re.compile(r'^(~?)x([1-9][0-9]*)$')


def _lines(text):
    """Lines of a text; the final line may or may not be terminated."""
    if text == '':
        return []
    # universal newlines, as any reader that opens the file in text mode sees
    # it: a bare carriage return ends a line too
    lines = re.split(r'\r\n|\r|\n', text)
    if lines[-1] == '':
        lines.pop()
    return lines


def read_opb(text, info=None):
    """Strict OPB reader.

    Returns (N, M, constraints) where constraints is the list, in file
    order, of ([(coefficient, signed literal), ...], relation, degree) with
    relation in {'>=', '='}.  If `info` is a dict it receives 'comments'
    (list of comment lines), 'semicolons' (number of constraint lines ending
    in ';') and 'constraint_lines'.
    """
    lines = _lines(text)
    if not lines:
        raise FormatError('opb-no-header', 'empty text')
    m = _OPB_HEADER.match(lines[0])
    if not m:
        raise FormatError('opb-no-header',
                          'first line is not "* #variable= N #constraint= M": %r'
                          % lines[0][:80])
    N, M = int(m.group(1)), int(m.group(2))
    comments = [lines[0]]
    constraints = []
    semis = 0
    for lineno, line in enumerate(lines[1:], start=2):
        if line.startswith('*'):
            comments.append(line)
            continue
        if line.strip() == '':
            raise FormatError('opb-blank-line', 'line %d is blank' % lineno)
        toks = line.split()
        # optional terminator
        if toks[-1] == ';':
            toks.pop()
            semis += 1
        elif toks[-1].endswith(';'):
            toks[-1] = toks[-1][:-1]
            semis += 1
        if len(toks) < 2 or toks[-2] not in ('>=', '='):
            raise FormatError('opb-non-comment-line',
                              'line %d is neither a comment nor a constraint: %r'
                              % (lineno, line[:80]))
        rel = toks[-2]
        if not _OPB_INT.match(toks[-1]):
            raise FormatError('opb-bad-degree', 'line %d: %r' % (lineno, line[:80]))
        degree = int(toks[-1])
        body = toks[:-2]
        if len(body) % 2:
            raise FormatError('opb-bad-term',
                              'line %d: odd number of term tokens: %r'
                              % (lineno, line[:80]))
        terms = []
        for i in range(0, len(body), 2):
            c, v = body[i], body[i + 1]
            if not _OPB_INT.match(c):
                raise FormatError('opb-bad-coefficient',
                                  'line %d: %r' % (lineno, c))
            lm = _OPB_LIT.match(v)
            if not lm:
                raise FormatError('opb-bad-literal', 'line %d: %r' % (lineno, v))
            idx = int(lm.group(2))
            if idx > N:
                raise FormatError('opb-variable-out-of-range',
                                  'line %d: x%d > #variable= %d' % (lineno, idx, N))
            terms.append((int(c), -idx if lm.group(1) else idx))
        constraints.append((terms, rel, degree))
    if len(constraints) != M:
        raise FormatError('opb-constraint-count',
                          'header declares %d constraints, file has %d constraint lines'
                          % (M, len(constraints)))
    if info is not None:
        info['comments'] = comments
        info['semicolons'] = semis
        info['constraint_lines'] = len(constraints)
    return N, M, constraints


# =========================================================================
# DIMACS (identification + content)
# =========================================================================
_DIMACS_P = re.compile(r'^p cnf ([0-9]+) ([0-9]+)\s*$')


def read_dimacs(text):
    """Returns (N, M, clauses).  Comment lines start with 'c'."""
    lines = _lines(text)
    N = M = None
    nums = []
    for lineno, line in enumerate(lines, start=1):
        if N is None:
            if line == 'c' or line.startswith('c ') or line.startswith('c\t'):
                continue
            m = _DIMACS_P.match(line)
            if not m:
                raise FormatError('dimacs-no-problem-line',
                                  'line %d: %r' % (lineno, line[:80]))
            N, M = int(m.group(1)), int(m.group(2))
            continue
        if line == 'c' or line.startswith('c ') or line.startswith('c\t'):
            continue
        for t in line.split():
            if not re.match(r'^-?[0-9]+$', t):
                raise FormatError('dimacs-bad-token', 'line %d: %r' % (lineno, t))
            nums.append(int(t))
    if N is None:
        raise FormatError('dimacs-no-problem-line', 'no p line')
    clauses = []
    cur = []
    for x in nums:
        if x == 0:
            clauses.append(cur)
            cur = []
        else:
            if abs(x) > N:
                raise FormatError('dimacs-variable-out-of-range', str(x))
            cur.append(x)
    if cur:
        raise FormatError('dimacs-unterminated-clause', repr(cur))
    if len(clauses) != M:
        raise FormatError('dimacs-clause-count', '%d declared, %d found'
                          % (M, len(clauses)))
    return N, M, clauses


# =========================================================================
# LaTeX
# =========================================================================
# tokens:  ('cs', name)   control word / control symbol (without backslash)
#          ('group', inner_text)   balanced {...}
#          ('char', c)    any other non-blank character
#          ('int', text)  maximal run of digits
def _match_brace(s, i):
    """s[i] == '{'; returns the index of the matching '}'."""
    depth = 0
    j = i
    n = len(s)
    while j < n:
        c = s[j]
        if c == '\\':
            j += 2
            continue
        if c == '{':
            depth += 1
        elif c == '}':
            depth -= 1
            if depth == 0:
                return j
        j += 1
    raise FormatError('latex-unbalanced-braces', s[i:i + 60])


def tex_tokens(s):
    toks = []
    i = 0
    n = len(s)
    while i < n:
        c = s[i]
        if c.isspace():
            i += 1
        elif c == '\\':
            if i + 1 >= n:
                raise FormatError('latex-dangling-backslash', s[-20:])
            j = i + 1
            if s[j].isalpha():
                while j < n and s[j].isalpha():
                    j += 1
                toks.append(('cs', s[i + 1:j]))
                i = j
            else:
                toks.append(('cs', s[j]))
                i = j + 1
        elif c == '{':
            j = _match_brace(s, i)
            toks.append(('group', s[i + 1:j]))
            i = j + 1
        elif c == '}':
            raise FormatError('latex-unbalanced-braces', s[max(0, i - 30):i + 10])
        elif c == '%':
            # TeX comment up to end of line
            j = s.find('\n', i)
            i = n if j < 0 else j + 1
        elif c.isdigit():
            j = i
            while j < n and s[j].isdigit():
                j += 1
            toks.append(('int', s[i:j]))
            i = j
        else:
            toks.append(('char', c))
            i += 1
    return toks


def _group_literal(inner):
    """Meaning of a brace group used as a literal: (name, polarity)."""
    t = inner.strip()
    if t.startswith('\\overline') and not t[9:10].isalpha():
        rest = t[9:].lstrip()
        if not rest.startswith('{'):
            raise FormatError('latex-bad-literal', inner[:60])
        j = _match_brace(rest, 0)
        base = rest[1:j]
        if base.strip() == '' or base.rstrip()[-1] in '_^':
            # \overline{x_}{1} is not what TeX accepts as a sub/superscript
            raise FormatError('latex-bad-literal', inner[:60])
        name = base + rest[j + 1:]
        return name.strip(), False
    if t.startswith('\\neg') and not t[4:5].isalpha():
        rest = t[4:].strip()
        if rest.startswith('{') and _match_brace(rest, 0) == len(rest) - 1:
            name, pol = _group_literal(rest[1:-1])
        else:
            name, pol = rest, True
        return name, not pol
    if t == '':
        raise FormatError('latex-empty-literal', inner[:60])
    return t, True


def _parse_literal(toks, i):
    """Parses one literal starting at toks[i]; returns (name, polarity, next)."""
    if i >= len(toks):
        raise FormatError('latex-missing-literal', 'row ends where a literal is expected')
    kind, val = toks[i]
    if kind == 'cs' and val == 'neg':
        name, pol, j = _parse_literal(toks, i + 1)
        return name, not pol, j
    if kind == 'cs' and val == 'overline':
        if i + 1 >= len(toks) or toks[i + 1][0] != 'group':
            raise FormatError('latex-bad-literal', '\\overline without argument')
        name = toks[i + 1][1].strip()
        if name == '':
            raise FormatError('latex-empty-literal', '\\overline{}')
        return name, False, i + 2
    if kind == 'group':
        name, pol = _group_literal(val)
        return name, pol, i + 1
    raise FormatError('latex-bad-literal', 'unexpected token %r' % (toks[i],))


def _is(tok, kind, val):
    return tok[0] == kind and tok[1] == val


def parse_row(toks):
    """One row of an align environment (tokens, without the row separator).

    Returns a dict: {'kind': 'clause', 'lits': [(name, pol)...], 'square': bool,
    'land': bool, 'parens': bool}  or  {'kind': 'constraint', 'terms':
    [(coef, name, pol)...], 'rel': '>='|'=', 'bound': int, 'zero': bool}.
    """
    amps = [k for k, t in enumerate(toks) if _is(t, 'char', '&')]
    if len(amps) > 1 or (amps and amps[0] != 0):
        raise FormatError('latex-bad-alignment', 'alignment marks at %r' % (amps,))
    if amps:
        toks = toks[1:]
    if not toks:
        raise FormatError('latex-empty-row', 'row without content')
    # is there a top-level relation?
    relpos = [k for k, t in enumerate(toks)
              if (t[0] == 'cs' and t[1] in ('geq', 'ge')) or _is(t, 'char', '=')
              or _is(t, 'char', '>')]
    if relpos:
        if len(relpos) != 1:
            raise FormatError('latex-bad-relation', 'more than one relation in a row')
        k = relpos[0]
        if _is(toks[k], 'char', '>'):
            raise FormatError('latex-bad-relation', "'>' is not a relation of the format")
        rel = '=' if _is(toks[k], 'char', '=') else '>='
        rhs = toks[k + 1:]
        neg = False
        if rhs and _is(rhs[0], 'char', '-'):
            neg = True
            rhs = rhs[1:]
        elif rhs and _is(rhs[0], 'char', '+'):
            rhs = rhs[1:]
        if len(rhs) != 1 or rhs[0][0] != 'int':
            raise FormatError('latex-bad-bound', 'right hand side %r' % (rhs,))
        bound = -int(rhs[0][1]) if neg else int(rhs[0][1])
        lhs = toks[:k]
        if len(lhs) == 1 and lhs[0] == ('int', '0'):
            return {'kind': 'constraint', 'terms': [], 'rel': rel,
                    'bound': bound, 'zero': True}
        if not lhs:
            raise FormatError('latex-empty-sum', 'nothing on the left of the relation')
        terms = []
        i = 0
        while True:
            coef = 1
            sign = 1
            if i < len(lhs) and _is(lhs[i], 'char', '-'):
                sign = -1
                i += 1
            if i < len(lhs) and lhs[i][0] == 'int':
                coef = int(lhs[i][1])
                i += 1
                if i < len(lhs) and (_is(lhs[i], 'cs', 'cdot') or _is(lhs[i], 'cs', 'times')):
                    i += 1
            name, pol, i = _parse_literal(lhs, i)
            terms.append((sign * coef, name, pol))
            if i == len(lhs):
                break
            if not _is(lhs[i], 'char', '+'):
                if _is(lhs[i], 'char', '-'):
                    continue
                raise FormatError('latex-bad-sum', 'expected + at token %r' % (lhs[i],))
            i += 1
        return {'kind': 'constraint', 'terms': terms, 'rel': rel,
                'bound': bound, 'zero': False}
    # ---- clause
    land = False
    if _is(toks[0], 'cs', 'land') or _is(toks[0], 'cs', 'wedge'):
        land = True
        toks = toks[1:]
    if len(toks) == 1 and toks[0] in (('cs', 'square'), ('cs', 'Box'), ('cs', 'bot')):
        return {'kind': 'clause', 'lits': [], 'square': True, 'land': land,
                'parens': False}
    parens = False
    if len(toks) >= 4 and _is(toks[0], 'cs', 'left') and _is(toks[1], 'char', '(') \
            and _is(toks[-2], 'cs', 'right') and _is(toks[-1], 'char', ')'):
        parens = True
        toks = toks[2:-2]
    elif len(toks) >= 2 and _is(toks[0], 'char', '(') and _is(toks[-1], 'char', ')'):
        parens = True
        toks = toks[1:-1]
    if not toks:
        raise FormatError('latex-empty-row', 'clause row without literals or \\square')
    lits = []
    i = 0
    while True:
        name, pol, i = _parse_literal(toks, i)
        lits.append((name, pol))
        if i == len(toks):
            break
        if not (_is(toks[i], 'cs', 'lor') or _is(toks[i], 'cs', 'vee')):
            raise FormatError('latex-bad-clause', 'expected \\lor at token %r' % (toks[i],))
        i += 1
    return {'kind': 'clause', 'lits': lits, 'square': False, 'land': land,
            'parens': parens}


def _split_rows(toks):
    rows = [[]]
    for t in toks:
        if t == ('cs', '\\'):
            rows.append([])
        else:
            rows[-1].append(t)
    return rows


def parse_align_body(body):
    """Content between \\begin{align} and \\end{align}: 'top' or list of rows."""
    toks = tex_tokens(body)
    if toks in ([('cs', 'top')], [('char', '&'), ('cs', 'top')]):
        return 'top'
    rows = _split_rows(toks)
    out = []
    for k, r in enumerate(rows):
        if not r:
            raise FormatError('latex-empty-row', 'row %d of %d is empty' % (k + 1, len(rows)))
        if ('cs', 'top') in r:
            raise FormatError('latex-top-in-row', '\\top inside a row')
        out.append(parse_row(r))
    return out


_BEGIN = '\\begin{align}'
_END = '\\end{align}'


def _align_blocks(text, allowed_between):
    """Finds the align environments of `text`; returns (blocks, rest) where
    rest is the list of text pieces outside the environments."""
    blocks = []
    outside = []
    pos = 0
    while True:
        b = text.find(_BEGIN, pos)
        if b < 0:
            outside.append(text[pos:])
            break
        outside.append(text[pos:b])
        e = text.find(_END, b)
        if e < 0:
            raise FormatError('latex-unclosed-align', text[b:b + 60])
        body = text[b + len(_BEGIN):e]
        if _BEGIN in body:
            raise FormatError('latex-nested-align', body[:60])
        blocks.append(parse_align_body(body))
        pos = e + len(_END)
    return blocks, outside


def read_latex_snippet(text):
    """The string produced by to_latex(): one or more align environments and
    nothing else.  Returns the list of blocks ('top' or list of rows)."""
    blocks, outside = _align_blocks(text, None)
    if not blocks:
        raise FormatError('latex-no-align', text[:60])
    for piece in outside:
        p = piece.replace('\\pagebreak', '').strip()
        if p:
            raise FormatError('latex-text-outside-align', p[:60])
    return blocks


_LST_BEGIN = '\\begin{lstlisting}'
_LST_END = '\\end{lstlisting}'


def strip_verbatim(text):
    """Removes lstlisting environments (verbatim for TeX).  Returns
    (text_without, list_of_verbatim_contents)."""
    out = []
    verb = []
    pos = 0
    while True:
        b = text.find(_LST_BEGIN, pos)
        if b < 0:
            out.append(text[pos:])
            break
        out.append(text[pos:b])
        e = text.find(_LST_END, b)
        if e < 0:
            raise FormatError('latex-unclosed-lstlisting', text[b:b + 60])
        verb.append(text[b + len(_LST_BEGIN):e])
        pos = e + len(_LST_END)
    return ''.join(out), verb


_COUNTS = re.compile(r'with ([0-9]+) variables and and ([0-9]+) (clauses|constraints):')


def read_latex_document(text):
    """A full document written by to_file(..., fileformat='latex').

    Returns {'blocks': [...], 'title': str|None, 'verbatim': [...],
             'counts': (n, m, word)|None, 'between': [...]}.
    """
    if '\\documentclass' not in text:
        raise FormatError('latex-no-documentclass', text[:60])
    b = text.find('\\begin{document}')
    e = text.rfind('\\end{document}')
    if b < 0 or e < 0 or e < b:
        raise FormatError('latex-no-document-environment', text[:60])
    if text[e + len('\\end{document}'):].strip():
        raise FormatError('latex-text-after-document', text[e:][:60])
    body = text[b + len('\\begin{document}'):e]
    body, verb = strip_verbatim(body)
    blocks, outside = _align_blocks(body, None)
    if not blocks:
        raise FormatError('latex-no-align', body[:60])
    title = None
    m = re.search(r'\\title\{(.*)\}\n', outside[0])
    if m:
        title = m.group(1)
    counts = None
    m = _COUNTS.search(outside[0])
    if m:
        counts = (int(m.group(1)), int(m.group(2)), m.group(3))
    between = [p.strip() for p in outside[1:-1]]
    for p in between:
        if p.replace('\\pagebreak', '').replace('\\newpage', '').replace('\\clearpage', '').strip():
            raise FormatError('latex-text-between-align', p[:60])
    if outside[-1].strip():
        raise FormatError('latex-text-after-align', outside[-1].strip()[:60])
    return {'blocks': blocks, 'title': title, 'verbatim': verb,
            'counts': counts, 'between': between}


def identify(text):
    """Which of the three formats is this text?  ('opb'|'dimacs'|'latex'|None)
    decided by which strict reader accepts the framing."""
    kinds = []
    if text.startswith('* #variable='):
        kinds.append('opb')
    if '\\documentclass' in text and '\\begin{document}' in text:
        kinds.append('latex')
    for line in _lines(text):
        if line.startswith('p cnf '):
            kinds.append('dimacs')
            break
        if not (line == 'c' or line.startswith('c ')):
            break
    if len(kinds) == 1:
        return kinds[0]
    return None
