"""C14 reference reading of *plain* GML files and of a line-oriented dialect of
DOT (the one networkx/pydot write), independent of networkx and pydot.

Both readers are deliberately partial: they return None ("no judgement")
for every text that is not plainly inside the fragment they understand, so
they can only be used to require that an ACCEPTED graph equals the reading,
never to require acceptance.

    read_gml(text)  -> {'directed': bool, 'nodes': [(id, attrs)], 'edges': [(u, v)]} | None
    read_dot(text)  -> same shape | None
    expected(struct, gtype) -> graph description (see c14_graphref) | None

cnfgen's documented conventions used by `expected`:
  * vertices are renumbered 1..n in the order of their (integer) identifiers;
  * a bipartite graph is an undirected graph whose nodes all carry
    bipartite=0 (left) or bipartite=1 (right); each side is numbered from 1
    in the order of the identifiers.  Only files that declare the nodes of each
    side in increasing order of identifier are judged (file order = identifier
    order inside each side).
"""
import re

_TOKEN = re.compile(r'''
     (?P<key>[A-Za-z][0-9A-Za-z_]*\b)
   | (?P<real>[+-]?(?:[0-9]*\.[0-9]+|[0-9]+\.[0-9]*)(?:[Ee][+-]?[0-9]+)?)
   | (?P<int>[+-]?[0-9]+)
   | (?P<str>"[^"\n]*")
   | (?P<open>\[)
   | (?P<close>\])
   | (?P<ws>\s+)
''', re.X)


def _gml_tokens(text):
    toks = []
    for ln in text.split('\n'):
        if ln.lstrip().startswith('#'):
            continue
        pos = 0
        while pos < len(ln):
            m = _TOKEN.match(ln, pos)
            if m is None:
                return None
            pos = m.end()
            kind = m.lastgroup
            if kind != 'ws':
                toks.append((kind, m.group()))
    return toks


def _gml_list(toks, i, depth):
    """parse (key value)* ; returns (list of (key, value), next index)"""
    items = []
    while i < len(toks):
        kind, val = toks[i]
        if kind == 'close':
            if depth == 0:
                raise ValueError('unbalanced ]')
            return items, i
        if kind != 'key':
            raise ValueError('key expected')
        key = val
        i += 1
        if i >= len(toks):
            raise ValueError('value expected')
        kind, val = toks[i]
        if kind == 'int':
            items.append((key, int(val)))
            i += 1
        elif kind in ('real', 'str'):
            items.append((key, val))
            i += 1
        elif kind == 'open':
            sub, i = _gml_list(toks, i + 1, depth + 1)
            if i >= len(toks) or toks[i][0] != 'close':
                raise ValueError('] expected')
            items.append((key, sub))
            i += 1
        else:
            raise ValueError('value expected')
    if depth != 0:
        raise ValueError('] expected')
    return items, i


def read_gml(text):
    toks = _gml_tokens(text)
    if toks is None:
        return None
    try:
        top, _ = _gml_list(toks, 0, 0)
    except ValueError:
        return None
    graphs = [v for k, v in top if k == 'graph']
    if len(graphs) != 1 or not isinstance(graphs[0], list):
        return None
    g = graphs[0]
    directed = [v for k, v in g if k == 'directed']
    if len(directed) > 1 or any(v not in (0, 1) for v in directed):
        return None
    if any(k == 'multigraph' for k, _ in g):
        return None
    nodes = []
    for k, v in g:
        if k != 'node':
            continue
        if not isinstance(v, list):
            return None
        keys = [a for a, _ in v]
        if len(set(keys)) != len(keys):      # a repeated attribute
            return None
        d = dict(v)
        if not isinstance(d.get('id'), int) or isinstance(d.get('id'), bool):
            return None
        nodes.append((d['id'], d))
    ids = [i for i, _ in nodes]
    if len(set(ids)) != len(ids):
        return None
    edges = []
    for k, v in g:
        if k != 'edge':
            continue
        if not isinstance(v, list):
            return None
        keys = [a for a, _ in v]
        if len(set(keys)) != len(keys):
            return None
        d = dict(v)
        s, t = d.get('source'), d.get('target')
        if not isinstance(s, int) or not isinstance(t, int):
            return None
        if s not in ids or t not in ids:
            return None
        edges.append((s, t))
    is_dir = bool(directed and directed[0] == 1)
    norm = edges if is_dir else [(min(e), max(e)) for e in edges]
    if len(set(norm)) != len(norm):          # a repeated edge: networkx refuses
        return None
    return {'directed': is_dir, 'nodes': nodes, 'edges': edges}


_DOT_HEAD = re.compile(r'\s*(strict\s+)?(graph|digraph)(\s+(?:[A-Za-z_][A-Za-z0-9_]*|"[^"\n]*"))?\s*\{\s*\Z')
_DOT_NODE = re.compile(r'([0-9]+)(?:\s*\[bipartite=([0-9]+)\])?\s*;\Z')
_DOT_EDGE = re.compile(r'([0-9]+)\s*(--|->)\s*([0-9]+)\s*;\Z')


def read_dot(text):
    lines = [ln.strip() for ln in text.split('\n')]
    lines = [ln for ln in lines if ln != '' and not ln.startswith('//')]
    if len(lines) < 2:
        return None
    m = _DOT_HEAD.match(lines[0])
    if m is None or lines[-1] != '}':
        return None
    directed = m.group(2) == 'digraph'
    nodes = {}
    order = []
    edges = []
    for ln in lines[1:-1]:
        m = _DOT_NODE.match(ln)
        if m is not None:
            v = int(m.group(1))
            if m.group(1) != str(v):              # leading zeros: another name
                return None
            attrs = {} if m.group(2) is None else {'bipartite': int(m.group(2))}
            if v in nodes and nodes[v] != attrs:
                return None
            if v not in nodes:
                order.append(v)
            nodes[v] = attrs
            continue
        m = _DOT_EDGE.match(ln)
        if m is None:
            return None
        if (m.group(2) == '->') != directed:
            return None
        u, v = int(m.group(1)), int(m.group(3))
        if m.group(1) != str(u) or m.group(3) != str(v):
            return None
        for x in (u, v):
            if x not in nodes:
                nodes[x] = {}
                order.append(x)
        edges.append((u, v))
    return {'directed': directed, 'nodes': [(v, nodes[v]) for v in order], 'edges': edges}


def expected(struct, gtype):
    """Graph the structure denotes for a requested cnfgen graph type, or None
    when the request does not match the file (no judgement)."""
    if struct is None:
        return None
    ids = [i for i, _ in struct['nodes']]
    if gtype == 'bipartite':
        if struct['directed']:
            return None
        side = {}
        for i, attrs in struct['nodes']:
            b = attrs.get('bipartite')
            if b not in (0, 1) or isinstance(b, bool):
                return None
            side[i] = b
        left = [i for i in ids if side[i] == 0]
        right = [i for i in ids if side[i] == 1]
        if left != sorted(left) or right != sorted(right):
            return None     # file order and identifier order disagree inside a side
        li = {v: k for k, v in enumerate(left, 1)}
        ri = {v: k for k, v in enumerate(right, 1)}
        es = set()
        for u, v in struct['edges']:
            if side[u] == side[v]:
                return None
            if side[u] == 1:
                u, v = v, u
            es.add((li[u], ri[v]))
        return {'L': len(left), 'R': len(right), 'edges': sorted(es)}
    num = {v: k for k, v in enumerate(sorted(ids), 1)}
    if gtype == 'simple':
        if struct['directed']:
            return None
        es = set()
        for u, v in struct['edges']:
            if u == v:
                return None
            a, b = num[u], num[v]
            es.add((min(a, b), max(a, b)))
        return {'n': len(ids), 'edges': sorted(es)}
    if not struct['directed']:
        return None
    return {'n': len(ids), 'edges': sorted(set((num[u], num[v]) for u, v in struct['edges']))}
