"""C14 reference readers for cnfgen's in-house graph file formats.

Written from the format descriptions (www/KTHlistFormat.txt,
www/graphformats.org, the DIMACS edge format, docs/graphs.rst and the
docstrings of the readers), NOT from the readers' code.  Pure Python, no
cnfgen import.

A graph is described by plain data:

    simple    {'n': n, 'edges': sorted [(u, v)] with u < v}
    digraph   {'n': n, 'edges': sorted [(src, dest)]}          (also 'dag')
    bipartite {'L': L, 'R': R, 'edges': sorted [(left, right)]}   right in 1..R

`parse(fmt, gtype, text)` returns a `Parse` with two readings of the text:

* strict  : the graph the text denotes when it is a well-formed file of the
            format for that graph type (None otherwise; `reason` says why);
* content : a lenient reading used only to judge a reader that accepts a text
            the strict reading rejects: the declared number of vertices and the
            set of all edges mentioned by the text.  `content` is None
            (`fatal` says why) when the text cannot be given any meaning:
            no/invalid size declaration, tokens that are not integers, vertices
            outside the declared range, unterminated lists, wrong number of
            entries/edges, a loop in a simple graph, a non increasing edge in a
            file declared acyclic, ...

`consistent(gtype, content, obs)` tells whether an observed graph agrees with
a lenient content (same number of vertices, a split compatible with the text,
exactly the mentioned edges).
"""
import re

INT_STRICT = re.compile(r'[0-9]+\Z')
INT_LENIENT = re.compile(r'[+-]?[0-9]+\Z')

INHOUSE = ('kthlist', 'dimacs', 'matrix')


# strict-only reasons that explain a wrong result best come first in keys
PRIORITY = ('repeated-vertex-line', 'unordered-vertex-lines', 'skipped-left-vertex',
            'blank-line')


class Parse(object):
    __slots__ = ('strict', 'reasons', 'content', 'fatal', 'features')

    def __init__(self):
        self.strict = None      # graph description or None
        self.reasons = []       # reasons why the strict reading fails (in text order)
        self.content = None     # lenient content or None
        self.fatal = None       # reason why there is no lenient content
        self.features = []      # remarkable features of the text

    def note(self, reason):
        if reason not in self.reasons:
            self.reasons.append(reason)

    @property
    def reason(self):
        """The reason used to name the input class of a non-strict text."""
        for r in PRIORITY:
            if r in self.reasons:
                return r
        return self.reasons[0] if self.reasons else None

    def klass(self):
        """Input class of the text, used in violation keys.  The readers work
        line by line, so a blank line met before any fatal error names the
        class (the parse stops at the first fatal error)."""
        if 'blank-line' in self.reasons:
            return 'blank-line'
        return self.fatal or self.reason or 'valid'


def lines_of(text):
    ls = text.split('\n')
    if ls and ls[-1] == '':
        ls.pop()
    return ls


def _int(tok):
    """(value, strict?) or None"""
    if INT_STRICT.match(tok):
        return int(tok), True
    if INT_LENIENT.match(tok):
        return int(tok), False
    return None


# ------------------------------------------------------------------ kthlist --
def _kthlist_rows(text, P):
    """Common syntax of a kthlist file: (n, rows) with rows = [(u, [v...])]
    or None when the text is not a kthlist file at all (P.fatal is set)."""
    n = None
    rows = []

    strict = P.note

    for ln in lines_of(text):
        if ln[:1] == 'c':                 # comment line
            continue
        if ln.strip() == '':              # empty line
            if ln != '':
                P.features.append('whitespace-line')
            continue
        if ':' not in ln:                 # the number of vertices
            tok = ln.strip()
            if n is not None:
                P.fatal = 'second-size-line'
                return None
            iv = _int(tok)
            if iv is None:
                P.fatal = 'bad-size-line'
                return None
            if not iv[1]:
                strict('signed-number')
            n = iv[0]
            if n < 0:
                P.fatal = 'negative-size'
                return None
            continue
        if n is None:
            P.fatal = 'list-before-size-line'
            return None
        parts = ln.split(':')
        if len(parts) != 2:
            P.fatal = 'bad-list-line'
            return None
        iv = _int(parts[0].strip())
        if iv is None:
            P.fatal = 'non-integer-vertex'
            return None
        if not iv[1]:
            strict('signed-number')
        u = iv[0]
        vs = []
        for tok in parts[1].split():
            jv = _int(tok)
            if jv is None:
                P.fatal = 'non-integer-vertex'
                return None
            if not jv[1]:
                strict('signed-number')
            vs.append(jv[0])
        if not vs or vs[-1] != 0:
            P.fatal = 'list-not-terminated'
            return None
        vs.pop()
        if 0 in vs:
            P.fatal = 'zero-inside-list'
            return None
        if not 1 <= u <= n or any(not 1 <= v <= n for v in vs):
            P.fatal = 'vertex-out-of-range'
            return None
        if len(set(vs)) != len(vs):
            strict('duplicate-neighbour')
        rows.append((u, vs))
    if n is None:
        P.fatal = 'no-size-line'
        return None
    return n, rows


def parse_kthlist(text, gtype):
    P = Parse()
    got = _kthlist_rows(text, P)
    if got is None:
        return P
    n, rows = got
    strict = P.note

    listed = [u for u, _ in rows]
    if gtype == 'bipartite':
        # only the left vertices are listed, in order, none skipped; every
        # neighbour is a right vertex
        if len(set(listed)) != len(listed):
            strict('repeated-vertex-line')
        elif listed != sorted(listed):
            strict('unordered-vertex-lines')
        elif listed != list(range(1, len(listed) + 1)):
            strict('skipped-left-vertex')
        pairs = set()
        for u, vs in rows:
            for v in vs:
                pairs.add((u, v))
        maxleft = max(listed) if listed else 0
        minright = min(v for _, v in pairs) if pairs else n + 1
        if maxleft >= minright:
            P.fatal = 'bipartition-violation'
            return P
        P.content = {'n': n, 'listed': sorted(set(listed)),
                     'pairs': sorted(pairs), 'Lmin': maxleft,
                     'Lmax': min(minright - 1, n)}
        if not P.reasons:
            L = len(listed)
            P.strict = {'L': L, 'R': n - L,
                        'edges': sorted((u, v - L) for u, v in pairs)}
        return P

    # simple / digraph / dag: `u : v1 .. vk 0` lists the neighbours
    # (predecessors) of u; lists come in increasing order of u
    seen = set()
    prev = 0
    for u in listed:
        if u in seen:
            strict('repeated-vertex-line')
        elif u < prev:
            strict('unordered-vertex-lines')
        seen.add(u)
        prev = max(prev, u)
    edges = set()
    for u, vs in rows:
        for v in vs:
            if gtype == 'simple':
                if u == v:
                    P.fatal = 'loop'
                    return P
                edges.add((min(u, v), max(u, v)))
            else:
                if gtype == 'dag' and v >= u:
                    P.fatal = 'nonincreasing-edge'
                    return P
                edges.add((v, u))
    if gtype == 'simple':
        # the KTH description wants symmetric lists; cnfgen documents the
        # liberal reading (an edge listed on one side only is an edge)
        mentioned = set((u, v) for u, vs in rows for v in vs)
        if any((v, u) not in mentioned for (u, v) in mentioned):
            P.features.append('asymmetric-lists')
    P.content = {'n': n, 'edges': sorted(edges)}
    if not P.reasons:
        P.strict = {'n': n, 'edges': sorted(edges)}
    return P


# ------------------------------------------------------------------- dimacs --
def parse_dimacs(text, gtype):
    P = Parse()

    strict = P.note

    def fatal(reason):
        P.fatal = reason
        return P

    N = M = None
    elines = 0
    edges = set()
    for ln in lines_of(text):
        s = ln.strip()
        if s == '':
            P.features.append('blank-line')
            strict('blank-line')
            continue
        if s[0] == 'c':
            continue
        toks = s.split()
        if s[0] == 'p':
            if N is not None:
                return fatal('second-problem-line')
            if len(toks) != 4:
                return fatal('bad-problem-line')
            if toks[0] != 'p':
                strict('glued-line-tag')
            if toks[1] != 'edge':
                return fatal('format-not-edge')
            a, b = _int(toks[2]), _int(toks[3])
            if a is None or b is None:
                return fatal('bad-problem-line')
            if not (a[1] and b[1]):
                strict('signed-number')
            N, M = a[0], b[0]
            if N < 0 or M < 0:
                return fatal('negative-number')
            continue
        if s[0] == 'e':
            if N is None:
                return fatal('edge-before-problem-line')
            if len(toks) != 3:
                return fatal('bad-edge-line')
            if toks[0] != 'e':
                strict('glued-line-tag')
            a, b = _int(toks[1]), _int(toks[2])
            if a is None or b is None:
                return fatal('non-integer-vertex')
            if not (a[1] and b[1]):
                strict('signed-number')
            u, v = a[0], b[0]
            if not (1 <= u <= N and 1 <= v <= N):
                return fatal('vertex-out-of-range')
            elines += 1
            if gtype == 'simple':
                if u == v:
                    return fatal('loop')
                e = (min(u, v), max(u, v))
            else:
                if gtype == 'dag' and u >= v:
                    return fatal('nonincreasing-edge')
                e = (u, v)
            if e in edges:
                strict('duplicate-edge')
            edges.add(e)
            continue
        strict('unknown-line')
    if N is None:
        return fatal('no-problem-line')
    if M != elines and M != len(edges):
        return fatal('edge-count-mismatch')
    if M != elines:
        strict('edge-count-mismatch')
    P.content = {'n': N, 'edges': sorted(edges)}
    if not P.reasons:
        P.strict = {'n': N, 'edges': sorted(edges)}
    return P


# ------------------------------------------------------------------- matrix --
def parse_matrix(text, gtype='bipartite'):
    P = Parse()

    def fatal(reason):
        P.fatal = reason
        return P

    toks = []
    for ln in lines_of(text):
        ts = ln.split()
        if not ts:
            continue
        if ts[0][0] == '#':
            P.note('comment-line')
            continue
        toks.extend(ts)
    vals = []
    for t in toks:
        iv = _int(t)
        if iv is None:
            return fatal('non-numeric-entry')
        if not iv[1]:
            P.note('signed-number')
        vals.append(iv[0])
    if len(vals) < 2:
        return fatal('missing-dimensions')
    r, c = vals[0], vals[1]
    if r < 0 or c < 0:
        return fatal('negative-dimension')
    entries = vals[2:]
    if len(entries) != r * c:
        return fatal('wrong-number-of-entries')
    if any(b not in (0, 1) for b in entries):
        return fatal('entry-not-0-1')
    edges = sorted((i + 1, j + 1) for i in range(r) for j in range(c)
                   if entries[i * c + j] == 1)
    P.content = {'L': r, 'R': c, 'edges': edges}
    if not P.reasons:
        P.strict = {'L': r, 'R': c, 'edges': edges}
    return P


def parse(fmt, gtype, text):
    if fmt == 'kthlist':
        return parse_kthlist(text, gtype)
    if fmt == 'dimacs':
        return parse_dimacs(text, gtype)
    if fmt == 'matrix':
        return parse_matrix(text, gtype)
    raise KeyError(fmt)


# -------------------------------------------------------------- comparison --
def diff(expected, obs):
    """Symptom name when two graph descriptions differ, else None."""
    if 'L' in expected:
        if (expected['L'], expected['R']) != (obs.get('L'), obs.get('R')):
            if expected['L'] + expected['R'] != obs.get('L', 0) + obs.get('R', 0):
                return 'vertex-count'
            return 'left-right-split'
    elif expected['n'] != obs.get('n'):
        return 'vertex-count'
    a = set(map(tuple, expected['edges']))
    b = set(map(tuple, obs['edges']))
    if a == b:
        return None
    if b < a:
        return 'edges-dropped'
    if a < b:
        return 'edges-invented'
    return 'edges-differ'


def consistent(fmt, gtype, content, obs):
    """Symptom name when the observed graph is inconsistent with the lenient
    content of a text, else None."""
    if fmt == 'kthlist' and gtype == 'bipartite':
        L, R = obs['L'], obs['R']
        if L + R != content['n']:
            return 'vertex-count'
        if not content['Lmin'] <= L <= content['Lmax']:
            return 'left-right-split'
        exp = {'L': L, 'R': R,
               'edges': sorted((u, v - L) for u, v in content['pairs'])}
        return diff(exp, obs)
    return diff(content, obs)
