"""Strict reference reader / line classifier for DIMACS CNF (property C06).

Written from the format description (SAT competition "satformat" +
the repository's own statement of the format: header comments, one problem
line ``p cnf <n> <m>``, clauses as whitespace separated non-zero integers
terminated by ``0``; tokens of a clause may span lines), NOT from
cnfgen/utils/parsedimacs.py.

Two entry points

* ``parse(text)``  -> Parse(n, m, clauses, issues).  ``issues`` is the list
  of everything that makes the text NOT a well-formed DIMACS CNF text.  The
  scan *recovers* after an issue whenever the rest of the text can still be
  given a meaning (so that all issues of a text are known, and a violation
  can be keyed on the most serious one); ``clauses`` is meaningful as "the
  clauses written in the text" only when ``issues`` is empty.
* ``classify_output(text)`` -> strict classification of a *writer* output:
  every line is a comment, the one problem line, or a clause line.

The text is the character stream a Python text file object delivers: lines
end at '\n' only.  (A caller that reads a real file in text mode applies the
universal-newline translation first, see ``universal_newlines``.)
"""
import re

ASCII_WS = ' \t\r\x0b\x0c'
INT_RE = re.compile(r'[+-]?[0-9]+\Z')                  # a decimal integer
PYINT_UNDERSCORE_RE = re.compile(r'[+-]?[0-9]+(_[0-9]+)+\Z')

# most serious first: the two symptoms the property names explicitly can never
# be hidden behind a lexical leniency of the same text
PRIORITY = [
    'literal-out-of-range',
    'clause-count',
    'unterminated-clause',
    'no-problem-line',
    'second-problem-line',
    'clause-before-problem-line',
    'problem-line-arity',
    'problem-line-negative-count',
    'problem-line-count-token',
    'bad-token',
    'problem-line-first-token',
    'problem-line-format-word',
    'token-underscore',
    'token-non-ascii-digit',
    'separator-not-ascii-whitespace',
]


# Lexical forms outside the letter of the format that the property does not
# speak about (it fixes no lexical grammar): a reader that takes them with
# their obvious meaning (Python's int() / str.split()) still "denotes exactly
# the clauses written in the text".  They are recorded but are not issues.
LENIENT = {'token-underscore', 'token-non-ascii-digit',
           'separator-not-ascii-whitespace'}


class Parse:
    __slots__ = ('n', 'm', 'clauses', 'issues', 'lenient')

    def __init__(self):
        self.n = None
        self.m = None
        self.clauses = []
        self.issues = []
        self.lenient = []

    @property
    def ok(self):
        return not self.issues

    def primary(self):
        for p in PRIORITY:
            if p in self.issues:
                return p
        return None

    def note(self, issue):
        if issue in LENIENT:
            if issue not in self.lenient:
                self.lenient.append(issue)
        elif issue not in self.issues:
            self.issues.append(issue)


def universal_newlines(text):
    return text.replace('\r\n', '\n').replace('\r', '\n')


def _has_exotic_space(s):
    return any(ch.isspace() and ch not in ASCII_WS for ch in s)


def _int_token(tok, P):
    """value of an integer token, or None (noting the issue)."""
    if INT_RE.match(tok):
        return int(tok)
    if PYINT_UNDERSCORE_RE.match(tok):
        P.note('token-underscore')
        return int(tok)
    if not tok.isascii():
        try:
            v = int(tok)
        except ValueError:
            P.note('bad-token')
            return None
        P.note('token-non-ascii-digit')
        return v
    P.note('bad-token')
    return None


def parse(text):
    P = Parse()
    current = []
    for raw in text.split('\n'):
        line = raw.strip(ASCII_WS)
        if line == '' or line[0] == 'c':
            continue
        if _has_exotic_space(line):
            # a separator that is not ASCII white space: not DIMACS.  Recover
            # by treating it as white space to learn the remaining issues.
            P.note('separator-not-ascii-whitespace')
            line = line.strip()
            if line == '' or line[0] == 'c':
                continue
            toks = line.split()
        else:
            toks = line.split()      # only ASCII white space is present
        if line[0] == 'p':
            if P.n is not None:
                P.note('second-problem-line')
                return P
            if toks[0] != 'p':
                P.note('problem-line-first-token')
            if len(toks) != 4:
                P.note('problem-line-arity')
                return P
            if toks[0] == 'p' and toks[1] != 'cnf':
                P.note('problem-line-format-word')
            n = _int_token(toks[2], P)
            m = _int_token(toks[3], P)
            if n is None or m is None:
                P.issues = [i for i in P.issues if i != 'bad-token']
                P.note('problem-line-count-token')
                return P
            if n < 0 or m < 0:
                P.note('problem-line-negative-count')
                return P
            P.n, P.m = n, m
            continue
        if P.n is None:
            P.note('clause-before-problem-line')
            return P
        for tok in toks:
            v = _int_token(tok, P)
            if v is None:
                return P
            if v == 0:
                P.clauses.append(current)
                current = []
            else:
                if not 1 <= abs(v) <= P.n:
                    P.note('literal-out-of-range')
                current.append(v)
    if P.n is None:
        P.note('no-problem-line')
        return P
    if current:
        P.note('unterminated-clause')
    if len(P.clauses) != P.m:
        P.note('clause-count')
    return P


# ---------------------------------------------------------------- writer --
INTS_RE = re.compile(r'^-?[0-9]+( +-?[0-9]+)* ?$')
PLINE_RE = re.compile(r'p cnf (0|[1-9][0-9]*) (0|[1-9][0-9]*)\Z')
CLAUSE_RE = re.compile(r'(-?[1-9][0-9]* )*0\Z')


class Output:
    __slots__ = ('problems', 'n', 'm', 'clauses', 'ncomments', 'nplines')

    def __init__(self):
        self.problems = []      # list of (symptom, detail)
        self.n = None
        self.m = None
        self.clauses = []
        self.ncomments = 0
        self.nplines = 0


def classify_output(text):
    """Strict classification of a DIMACS text produced by a writer."""
    O = Output()
    if text == '':
        O.problems.append(('no-problem-line', 'empty output'))
        return O
    lines = text.split('\n')
    if lines[-1] != '':
        O.problems.append(('last-line-unterminated', repr(lines[-1][:40])))
    else:
        lines.pop()
    pending = []
    for i, line in enumerate(lines, start=1):
        if line.startswith('c'):
            O.ncomments += 1
        elif PLINE_RE.match(line):
            O.nplines += 1
            if O.nplines > 1:
                O.problems.append(('second-problem-line', 'line %d %r' % (i, line)))
                continue
            if O.clauses:
                O.problems.append(('clause-before-problem-line', 'line %d' % i))
            O.n, O.m = (int(x) for x in line.split(' ')[2:])
        elif CLAUSE_RE.match(line) and not pending:
            if O.nplines == 0:
                O.problems.append(('clause-before-problem-line',
                                   'line %d %r' % (i, line[:40])))
            O.clauses.append([int(x) for x in line.split(' ')[:-1]])
        elif INTS_RE.match(line):
            # a clause laid out over several lines is DIMACS too (the property
            # asks that every line that is not part of a clause be a comment):
            # integer tokens accumulate until the terminating 0
            if O.nplines == 0:
                O.problems.append(('clause-before-problem-line',
                                   'line %d %r' % (i, line[:40])))
            for x in line.split():
                if int(x) == 0:
                    O.clauses.append(pending)
                    pending = []
                else:
                    pending.append(int(x))
        else:
            O.problems.append(('non-comment-line', 'line %d %r is neither a comment, '
                               'nor the problem line, nor a clause line ending in 0'
                               % (i, line[:60])))
    if pending:
        O.problems.append(('non-comment-line', 'the last clause %r... is not terminated by 0' % (pending[:6],)))
    if O.nplines == 0:
        O.problems.append(('no-problem-line', ''))
    return O
