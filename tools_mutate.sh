#!/bin/bash
# usage: tools_mutate.sh <file-relative-to-repo> <python-expr old> <new> -- check ids...
# Applies a textual mutation to a scratch copy of /repo/cnfgen and runs the given checks (quick).
set -e
F="$1"; OLD="$2"; NEW="$3"; shift 3
D=$(mktemp -d /tmp/mut_XXXXXX)
cp -r /repo/cnfgen "$D/"
/venv/bin/python - "$D/$F" "$OLD" "$NEW" <<'PY'
import sys
p, old, new = sys.argv[1:4]
s = open(p).read()
assert s.count(old) >= 1, 'pattern not found'
open(p, 'w').write(s.replace(old, new, 1))
PY
for c in "$@"; do
  (cd /verif && VERIF_REPO="$D" /venv/bin/python run.py "$c" --tier quick 2>&1 | grep -v "^   \|conda\|^  key" | sed -n '1,3p;$p' | cut -c1-220; VERIF_REPO="$D" /venv/bin/python run.py "$c" --tier quick 2>&1 | grep "^  key" | cut -d' ' -f3 | sort | uniq -c | head -8)
done
rm -rf "$D"
