#!/venv/bin/python
"""Evaluate one seeded change against the checks.

usage: tools_seed_eval.py <dir-with-patch.diff,demo.py,meta.json> <seed-id> [--tier quick] [--checks C01,C10]

1. scratch git worktree of /repo HEAD (under /tmp), demo on the clean tree (must pass)
2. apply patch, demo must fail
3. pinned test-suite on the patched tree must match BASELINE stable_pass
4. run the check(s) of the property with VERIF_REPO=<patched tree>; record verdicts
5. store everything under /verif/seeded/<seed-id>/ and remove the worktree
"""
import os
import sys
import json
import shutil
import subprocess
import tempfile

VERIF = os.path.dirname(os.path.abspath(__file__))


def sh(cmd, **kw):
    return subprocess.run(cmd, shell=isinstance(cmd, str), stdout=subprocess.PIPE,
                          stderr=subprocess.STDOUT, **kw)


def main():
    src = os.path.abspath(sys.argv[1])
    sid = sys.argv[2]
    tier = 'quick'
    checks = None
    if '--tier' in sys.argv:
        tier = sys.argv[sys.argv.index('--tier') + 1]
    if '--checks' in sys.argv:
        checks = sys.argv[sys.argv.index('--checks') + 1].split(',')
    skip_tests = '--skip-tests' in sys.argv
    meta = json.load(open(os.path.join(src, 'meta.json')))
    for k in ('evaluation', 'what_was_run', 'evaluations_history', 'breaks_property', 'history'):
        meta.pop(k, None) if k != 'history' else None
    prop = meta.get('property', sid.split('-')[0]).upper()
    if not prop.startswith('C'):
        prop = sid.split('-')[0].upper()
    checks = checks or [prop]
    wt = tempfile.mkdtemp(prefix='seedeval_')
    os.rmdir(wt)
    report = {'seed': sid, 'property': prop, 'meta': meta, 'tier': tier}
    try:
        r = sh(['git', '-C', '/repo', 'worktree', 'add', '-q', '--detach', wt, 'HEAD'])
        assert r.returncode == 0, r.stdout.decode()
        env = dict(os.environ, PYTHONPATH=wt, PYTHONDONTWRITEBYTECODE='1')
        demo = os.path.join(src, 'demo.py')
        r0 = sh(['/venv/bin/python', demo], cwd=wt, env=env, timeout=900)
        report['demo_clean_rc'] = r0.returncode
        ra = sh(['git', '-C', wt, 'apply', os.path.join(src, 'patch.diff')])
        report['patch_applies'] = ra.returncode == 0
        if ra.returncode != 0:
            report['patch_error'] = ra.stdout.decode()[-500:]
        r1 = sh(['/venv/bin/python', demo], cwd=wt, env=env, timeout=900)
        report['demo_patched_rc'] = r1.returncode
        report['demo_patched_tail'] = r1.stdout.decode()[-400:]
        if not skip_tests:
            rt = sh(['/venv/bin/python', os.path.join(VERIF, 'tools_baseline.py'), wt], timeout=3000)
            report['tests_match_baseline'] = rt.returncode == 0
            report['tests_tail'] = rt.stdout.decode()[-300:]
        verdicts = {}
        for c in checks:
            e2 = dict(os.environ, VERIF_REPO=wt)
            rc = sh(['/venv/bin/python', os.path.join(VERIF, 'run.py'), c, '--tier', tier],
                    cwd=VERIF, env=e2, timeout=7200)
            text = rc.stdout.decode()
            keys = sorted({l.split('key=')[1].split(' what=')[0] for l in text.splitlines()
                           if l.strip().startswith('key=')})
            verdicts[c] = {'rc': rc.returncode, 'violation_keys': keys[:12],
                           'summary': [l for l in text.splitlines() if l.startswith('check ')][-1:]}
        report['checks'] = verdicts
        report['detected'] = any(v['rc'] == 1 for v in verdicts.values())
    finally:
        sh(['git', '-C', '/repo', 'worktree', 'remove', '--force', wt])
        shutil.rmtree(wt, ignore_errors=True)
    dst = os.path.join(VERIF, 'seeded', sid)
    os.makedirs(dst, exist_ok=True)
    prev = {}
    if os.path.exists(os.path.join(dst, 'meta.json')):
        prev = json.load(open(os.path.join(dst, 'meta.json')))
    if skip_tests and 'tests_match_baseline' in prev.get('evaluation', {}):
        # the pinned suite was run on this patch in an earlier evaluation
        report['tests_match_baseline'] = prev['evaluation']['tests_match_baseline']
        report['tests_tail'] = prev['evaluation'].get('tests_tail', '')
    history = list(prev.get('evaluations_history', []))
    if prev.get('evaluation'):
        history.append({'detected': prev['evaluation'].get('detected'),
                        'checks': {k: v.get('violation_keys') for k, v in
                                   prev['evaluation'].get('checks', {}).items()}})
    for f in ('patch.diff', 'demo.py'):
        if os.path.abspath(os.path.join(src, f)) != os.path.abspath(os.path.join(dst, f)):
            shutil.copy(os.path.join(src, f), os.path.join(dst, f))
    meta_out = dict(meta)
    if history:
        meta_out['evaluations_history'] = history
    if prev.get('history'):
        meta_out['history'] = prev['history']
    meta_out.update({'breaks_property': prop, 'evaluation': report,
                     'what_was_run': ['demo.py on clean and patched scratch worktree of /repo HEAD',
                                      'tools_baseline.py on the patched tree',
                                      'run.py %s --tier %s with VERIF_REPO=<patched tree>' % (','.join(checks), tier)]})
    json.dump(meta_out, open(os.path.join(dst, 'meta.json'), 'w'), indent=1)
    # restore the evidence files of the real tree? (the runs above rewrote them)
    print(json.dumps({k: report[k] for k in report if k not in ('meta',)}, indent=1)[:3000])


if __name__ == '__main__':
    main()
