#!/bin/bash
# re-evaluate every seeded change stored under /verif/seeded with the current checks
# (full evaluation: demo on clean/patched tree, pinned suite, check of the property)
cd /verif
for d in seeded/C*-s*; do
  n=$(basename $d)
  /venv/bin/python tools_seed_eval.py "$d" "$n" 2>&1 | grep -v conda | /venv/bin/python -c "
import sys,json
t=sys.stdin.read()
try:
    r=json.loads(t[t.index('{'):])
    print(r['seed'], 'applies',r.get('patch_applies'),'demo',r.get('demo_clean_rc'),r.get('demo_patched_rc'),'tests',r.get('tests_match_baseline'),'DETECTED' if r.get('detected') else 'MISSED', {k:(v['rc'],v['violation_keys'][:3]) for k,v in r.get('checks',{}).items()})
except Exception as e:
    print('eval failed', e, t[-300:])
"
done
/venv/bin/python tools_seed_summary.py > /dev/null
