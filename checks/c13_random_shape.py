"""C13  Random k-CNF and k-XOR formulas have exactly the promised shape.

For every (k, n, m, planted set) of a small box, EVERY sequence of answers of
the random generator is explored on the real sampler (engine.xp: stateless DFS
over choice points with state hashing on the interpreter frames, which drives
the rejection sampler through all its retries into the dense fallback).  Every
completed execution is checked against the shape promised by the property.
"""
import itertools
import collections
import math

from engine import xp, tt
from engine.common import setup_paths

PROPERTY = 'C13'
LEVEL = 'model_checking'
EXHAUSTIVE = True
ENGINE = 'xp'
TECHNIQUE = ('stateless model checking of the real sampler: DFS over all sequences of random '
             'draws with state hashing on interpreter frames; each execution checked against '
             'the promised shape')
LEVEL_TEXT = ('All executions (every possible answer of every random draw, including all retry '
              'sequences and the dense fallback) of RandomKCNF / RandomKXOR and of the randkcnf / '
              'randkxor command line are enumerated for every (k,n,m,planted) of the box; states '
              'are the implementation\'s own frame states, merged only when entirely equal.')
LEVEL_NOTE = ('Trusted: engine/xp (hashing validated differentially against the unreduced search '
              'in the thorough tier) and the independent count of compatible clauses/parities. '
              'Bounded to n<=3 (4 for a few shapes); float draws are not used by these samplers.')
RULE = ('cases = every (k,n,m,planted-assignment set) of the box for both samplers and the CLI; per '
        'case every sequence of random answers is executed; evaluations = cases (one complete '
        'exploration each; the executions on the implementation are reported as '
        'traces_validated_against_impl); a case is non-trivial when it has more than one execution')
ASSUMPTIONS = [
    'n<=3 variables (some n=4 shapes in thorough), planted sets: none, one total assignment, two '
    'complementary ones, all 2^n',
    'random.sample on populations <= 21 elements (pool algorithm of the stdlib)',
    'state merging soundness argument in engine/xp.py (_note_point); validated differentially',
]
VACUITY = {'executions': 1000, 'raised_ValueError': 5, 'returned_formula': 500,
           'cases_with_many_outcomes': 5}


def coverage_extra(tier, stats, outcomes):
    return {'exhaustive_note': 'library samplers: every sequence of random answers (complete, state hashing); command line cases: every execution with at most max_dev answers off the default schedule',
            'deviation_bounded_cases': int(stats.get('cases_deviation_bounded', 0)),
            'executions_on_implementation': int(stats.get('executions', 0))}


def preload():
    setup_paths()
    import cnfgen  # noqa


# ------------------------------------------------------------ reference --
def compatible_clauses(k, n, planted):
    if n > 8 and (len(planted) <= 1 or math.comb(n, k) << k > 200000):
        # closed form for the large scripted cases (no or one total assignment)
        assert len(planted) <= 1 and all(len(a) == n for a in planted)
        return math.comb(n, k) * (2 ** k - len(planted))
    tot = 0
    for dom in itertools.combinations(range(1, n + 1), k):
        for pol in itertools.product((1, -1), repeat=k):
            cls = [p * v for p, v in zip(pol, dom)]
            if all(any(l in a for l in cls) for a in planted):
                tot += 1
    return tot


def parity_ok(X, b, a):
    return sum(1 for x in X if x in a) % 2 == b


def compatible_parities(k, n, planted):
    if n > 8 and len(planted) > 1:
        # Large case with several planted assignments: give every variable the
        # vector of its truth values under the p assignments; a k-set X admits a
        # constant b iff the XOR of its vectors is all-zeros (b = 0) or all-ones
        # (b = 1).  Counted by a subset-XOR dynamic programme, no enumeration.
        p_ = len(planted)
        sets_ = [set(a) for a in planted]
        assert all(len(s_) == n and {abs(l) for l in s_} == set(range(1, n + 1)) for s_ in sets_)
        vec = [sum(1 << i for i, s_ in enumerate(sets_) if v in s_) for v in range(1, n + 1)]
        dp = [collections.Counter() for _ in range(k + 1)]
        dp[0][0] = 1
        for x in vec:
            for j in range(k - 1, -1, -1):
                for y, c in list(dp[j].items()):
                    dp[j + 1][y ^ x] += c
        return dp[k][0] + dp[k][(1 << p_) - 1]
    if n > 8:
        assert len(planted) <= 1 and all(len(a) == n for a in planted)
        return math.comb(n, k) * (2 - len(planted))
    tot = 0
    for X in itertools.combinations(range(1, n + 1), k):
        for b in (0, 1):
            if all(parity_ok(X, b, a) for a in planted):
                tot += 1
    return tot


def planted_sets(n):
    allpos = list(range(1, n + 1))
    mixed = [v if v % 2 else -v for v in range(1, n + 1)]
    comp = [-l for l in mixed]
    every = [[s * v for s, v in zip(signs, range(1, n + 1))]
             for signs in itertools.product((1, -1), repeat=n)]
    out = [('none', []), ('one', [mixed]), ('two-complementary', [mixed, comp])]
    if n <= 2:
        out.append(('all', every))
    if n >= 2:
        out.append(('pos+mixed', [allpos, mixed]))
        # a total assignment is a set of literals: any order, tuples as well
        out.append(('one-unsorted', [mixed[::-1]]))
        out.append(('two-unsorted', [mixed[1:] + mixed[:1], tuple(comp[::-1])]))
    if n >= 1:
        # the same literal listed twice: an assignment is a set of literals
        out.append(('one-repeated', [mixed + mixed[:1]]))
        if n >= 2:
            out.append(('two-repeated', [mixed[:1] + mixed, comp[:-1] + comp[-1:] * 2]))
    return out


# ------------------------------------------------------------- harness --
def make_body(case):
    kind = case['kind']
    k, n, m = case['k'], case['n'], case['m']
    planted = [list(a) for a in case.get('planted', [])]
    if kind in ('kcnf', 'kxor'):
        from cnfgen.formula.cnf import CNF

        class RecCNF(CNF):
            def __init__(self, *a, **kw):
                self.parities = []
                CNF.__init__(self, *a, **kw)

            def add_parity(self, lits, constant, check=True):
                lits = list(lits)
                self.parities.append((tuple(lits), constant))
                CNF.add_parity(self, lits, constant, check=check)
        from cnfgen.families.randomformulas import RandomKCNF
        from cnfgen.families.randomkxor import RandomKXOR
        gen = RandomKCNF if kind == 'kcnf' else RandomKXOR
        fcls = RecCNF
        if case.get('cls') == 'OPB':
            # the same samplers building a pseudo-Boolean formula (what pbgen does)
            from cnfgen.formula.opb import OPB

            class RecOPB(OPB):
                def __init__(self, *a, **kw):
                    self.parities = []
                    OPB.__init__(self, *a, **kw)

                def add_parity(self, lits, constant, check=True):
                    lits = list(lits)
                    self.parities.append((tuple(lits), constant))
                    OPB.add_parity(self, lits, constant, check=check)
            fcls = RecOPB

        def body():
            pl = [list(a) for a in planted]
            if case.get('planted_none'):
                F = gen(k, n, m, formula_class=fcls)
            else:
                F = gen(k, n, m, planted_assignments=pl, formula_class=fcls)
            if fcls is RecCNF:
                cls_ = [list(c) for c in F.clauses()]
            else:
                # every constraint of these families is a clause: sum of literals >= 1
                cls_ = []
                for row in F.constraints():
                    if row[-2] != '>=' or row[-1] != 1 or any(c != 1 for (c, _) in row[:-2]):
                        raise AssertionError('constraint %r is not a clause' % (row,))
                    cls_.append([l for (_, l) in row[:-2]])
            return {'n': F.number_of_variables(), 'clauses': cls_,
                    'parities': list(F.parities), 'planted': pl}
        return body
    else:
        import cnfgen.clitools.msg as msgmod
        from cnfgen.clitools.cnfgen import cli
        sub = 'randkcnf' if kind == 'cli-kcnf' else 'randkxor'
        argv = ['cnfgen', '-q', sub] + (['-p'] if case.get('plant') else []) + \
            [str(k), str(n), str(m)]

        def body():
            if hasattr(msgmod, '_prefix'):
                msgmod._prefix = ''
            F = cli(list(argv), mode='formula')
            return {'n': F.number_of_variables(),
                    'clauses': [list(c) for c in F.clauses()],
                    'parities': None, 'planted': None}
        return body


def _num(x):
    # numbers with thousands of digits are shown by their size
    return str(x) if x.bit_length() < 200 else 'a %d-bit number' % x.bit_length()


def judge(case, x):
    """Violations of one completed execution."""
    kind = case['kind']
    k, n, m = case['k'], case['n'], case['m']
    planted = [list(a) for a in case.get('planted', [])]
    cli = kind.startswith('cli')
    xor = kind.endswith('kxor')
    out = []
    base = 'Random' + ('KXOR' if xor else 'KCNF') + (':cli' if cli else '')

    def bad(sym, what):
        c = dict(case)
        c['choices'] = list(x['choices'])
        out.append({'key': '%s:%s' % (base, sym), 'what': what, 'case': c})

    if cli and case.get('plant'):
        # the planted assignment is itself drawn at random; whatever it is, it
        # is a single total assignment: capacity = clauses compatible with one
        # total assignment (the same number for every assignment)
        planted_for_count = [list(range(1, n + 1))]
    else:
        planted_for_count = planted
    cap = (compatible_parities if xor else compatible_clauses)(k, n, planted_for_count)
    must_fail = (k > n) or (m > cap)
    e = x['exception']
    if e is not None:
        name = type(e).__name__
        from cnfgen.clitools.cmdline import CLIError
        is_refusal = isinstance(e, ValueError) or (cli and isinstance(e, CLIError))
        if not is_refusal:
            bad('exception:' + name, 'unexpected %s: %s' % (name, e))
        elif not must_fail:
            bad('spurious-refusal', 'refused although k=%d<=n=%d and m=%d<=%s compatible (%s: %s)' %
                (k, n, m, _num(cap), name, str(e)[:120]))
        return out, 'raised_ValueError'
    if must_fail:
        bad('missing-refusal', 'returned a formula although %s' %
            ('k>n' if k > n else 'm=%d exceeds the %s compatible constraints' % (m, _num(cap))))
        return out, 'returned_formula'
    r = x['result']
    if r['n'] != n:
        bad('nvars', 'formula has %d variables instead of %d' % (r['n'], n))
        return out, 'returned_formula'
    if not xor:
        cls = r['clauses']
        if len(cls) != m:
            bad('count', '%d clauses instead of %d' % (len(cls), m))
        for c in cls:
            vs = [abs(l) for l in c]
            if len(c) != k or len(set(vs)) != k or any(v < 1 or v > n for v in vs) or 0 in c:
                bad('width', 'clause %r is not over %d distinct variables of 1..%d' % (c, k, n))
                break
        if len({frozenset(c) for c in cls}) != len(cls):
            bad('duplicate', 'repeated clause in %r' % (cls,))
        pl = r['planted'] if r['planted'] is not None else []
        for a in pl:
            for c in cls:
                if not any(l in a for l in c):
                    bad('planted', 'clause %r falsified by planted assignment %r' % (c, a))
                    break
    else:
        if r['parities'] is not None:
            ps = r['parities']
            if len(ps) != m:
                bad('count', '%d parities instead of %d' % (len(ps), m))
            for X, b in ps:
                if len(X) != k or len(set(X)) != k or any(v < 1 or v > n for v in X) \
                        or b not in (0, 1):
                    bad('width', 'parity %r=%r is not over %d distinct variables' % (X, b, k))
                    break
            if len({(frozenset(X), int(b)) for X, b in ps}) != len(ps):
                bad('duplicate', 'repeated parity in %r' % (ps,))
            for a in (r['planted'] or []):
                for X, b in ps:
                    if not parity_ok(X, b, a):
                        bad('planted', 'parity %r=%r violated by planted %r' % (X, b, a))
                        break
            if n > 16:
                # large scripted case: clause set == documented encoding of the
                # recorded parities (a clause over X forbids the assignment
                # falsifying all its literals, whose parity is #negations)
                exp_cls = set()
                for X, b in ps:
                    for pol in itertools.product((1, -1), repeat=len(X)):
                        if sum(1 for s_ in pol if s_ < 0) % 2 != b:
                            exp_cls.add(frozenset(s_ * v for s_, v in zip(pol, X)))
                got_cls = [frozenset(c) for c in r['clauses']]
                if set(got_cls) != exp_cls or len(got_cls) != len(exp_cls):
                    bad('xor-models', 'clauses do not denote the recorded system (%d clauses, '
                        '%d expected)' % (len(got_cls), len(exp_cls)))
                return out, 'returned_formula'
            # the clauses are exactly the solutions of the linear system
            exp = tt.columns(n)[0]
            cols = tt.columns(n)
            for X, b in ps:
                acc = 0
                for v in X:
                    acc ^= cols[v]
                exp &= acc if b else (cols[0] ^ acc)
            try:
                got = tt.cnf_models(n, r['clauses'])
            except ValueError as err:
                bad('literal-range', str(err))
                got = exp
            if got != exp:
                bad('xor-models', 'clauses %r do not denote the system %r' % (r['clauses'], ps))
        else:
            # CLI: parities are not observable; the clause set must denote a
            # system of exactly m distinct k-parities: recover it
            ok = _recover_xor(r['clauses'], k, n, m)
            if ok is not True:
                bad('xor-shape', ok)
    return out, 'returned_formula'


def _recover_xor(clauses, k, n, m):
    """The CNF of m distinct k-parities: for each parity 2^(k-1) clauses on
    the same k variables with an even/odd number of negations."""
    if k == 0:
        # a 0-parity with constant 1 is the empty clause, with constant 0 nothing
        return True if len(clauses) <= 1 and all(len(c) == 0 for c in clauses) else \
            'unexpected clauses %r for 0-parities' % (clauses,)
    groups = {}
    for c in clauses:
        vs = tuple(sorted(abs(l) for l in c))
        if len(c) != k or len(set(vs)) != k:
            return 'clause %r is not over %d distinct variables' % (c, k)
        neg = sum(1 for l in c if l < 0) % 2
        groups.setdefault((vs, neg), set()).add(tuple(sorted(c, key=abs)))
    for (vs, neg), cs in groups.items():
        if len(cs) != 2 ** (k - 1):
            return 'incomplete parity on %r' % (vs,)
    if len(clauses) != m * 2 ** (k - 1) or len(groups) != m:
        return '%d clauses in %d groups do not make %d distinct %d-parities' % (
            len(clauses), len(groups), m, k)
    return True


def run_case(case, R):
    body = make_body(case)
    outcomes = set()
    nviol = [0]

    def on_result(x):
        vs, cls = judge(case, x)
        R.outcomes[cls] += 1
        if x['exception'] is None:
            outcomes.add(repr(x['result']['clauses']))
        else:
            outcomes.add('EXC')
        if vs and nviol[0] < 3:
            # believe a failure only if the recorded schedule reproduces it
            again = xp.replay(body, x['choices'])
            vs2, _ = judge(case, again)
            if [v['key'] for v in vs2] != [v['key'] for v in vs]:
                raise xp.Divergence('violation did not reproduce on replay: %r' % (case,))
            nviol[0] += 1
            R.extend(vs)
    st = xp.explore(body, on_result, hashing=case.get('hashing', True),
                    horizon=case.get('horizon', 400),
                    max_dev=case.get('max_dev'),
                    max_execs=case.get('max_execs', 150000),
                    default=case.get('default', 'zero'),
                    default_seed=case.get('default_seed', 0))
    if case.get('scripted'):
        R.stats['scripted_large_runs'] += 1
    if case.get('max_dev') is not None:
        R.stats['cases_deviation_bounded'] += 1
    for key in ('executions', 'states', 'transitions', 'cut', 'horizon', 'cap_hit',
                'unique_keys', 'completed'):
        R.stats[key] += st[key]
    R.stats['cases'] += 1
    if len(outcomes) > 3:
        R.stats['cases_with_many_outcomes'] += 1
    R.stats['distinct_outcomes_total'] += len(outcomes)
    sample = dict(case)
    sample['executions'] = st['executions']
    sample['states'] = st['states']
    sample['distinct_outcomes'] = len(outcomes)
    R.case(sample=sample, nontrivial=st['executions'] > 1, n=1)
    return st, outcomes


def run_cases(chunk, R):
    for case in chunk:
        run_case(case, R)


def capacity_cases(tier):
    """Every (k, n) with 9 <= n <= 16 whose number of possible constraints is
    at most 70 000 (quick) / 120 000 (thorough): asking for exactly that many
    must succeed, asking for one more must be refused."""
    lim = 90000 if tier == 'thorough' else 70000
    cs = []
    for n in range(9, 17):
        for k in range(1, n + 1):
            if math.comb(n, k) * 2 ** k <= lim:
                cs.append({'kind': 'kcnf', 'k': k, 'n': n, 'capacity': math.comb(n, k) * 2 ** k})
            if math.comb(n, k) * 2 * 2 ** max(k - 1, 0) <= lim:        # clauses of the encoding
                cs.append({'kind': 'kxor', 'k': k, 'n': n, 'capacity': math.comb(n, k) * 2})
    return cs


def check_capacity(case):
    """One run under a real seeded generator (a script as good as any other
    for this question): the exact maximum is accepted and delivered in full,
    one more is refused."""
    from cnfgen.families.randomformulas import RandomKCNF
    from cnfgen.families.randomkxor import RandomKXOR
    kind, k, n, cap = case['kind'], case['k'], case['n'], case['capacity']
    gen = RandomKCNF if kind == 'kcnf' else RandomKXOR
    base = 'Random' + ('KXOR' if kind == 'kxor' else 'KCNF')
    out = []
    try:
        F = gen(k, n, cap, seed=1)
    except ValueError as e:
        return [{'key': base + ':spurious-refusal',
                 'what': 'refused although k=%d<=n=%d and m=%d is exactly the number of possible '
                         'constraints: %s' % (k, n, cap, e), 'case': dict(case)}]
    except Exception as e:
        return [{'key': base + ':exception:' + type(e).__name__, 'what': repr(e), 'case': dict(case)}]
    cls = [frozenset(c) for c in F.clauses()]
    want = cap if kind == 'kcnf' else cap * 2 ** (k - 1)
    if len(cls) != want or len(set(cls)) != want or any(len(c) != k for c in cls):
        out.append({'key': base + ':count', 'what': '(k,n,m)=(%d,%d,%d): %d clauses, %d distinct, expected %d'
                    % (k, n, cap, len(cls), len(set(cls)), want), 'case': dict(case)})
    try:
        gen(k, n, cap + 1, seed=1)
        out.append({'key': base + ':missing-refusal', 'what': '(k,n)=(%d,%d): m=%d is one more than the '
                    'number of possible constraints and was accepted' % (k, n, cap + 1), 'case': dict(case)})
    except ValueError:
        pass
    except Exception as e:
        out.append({'key': base + ':exception:' + type(e).__name__, 'what': repr(e), 'case': dict(case)})
    return out


def run_capacity(chunk, R):
    for case in chunk:
        R.extend(check_capacity(case))
        R.stats['capacity_boundaries'] += 1
        R.stats['executions'] += 2
        R.outcomes['returned_formula'] += 1
        R.outcomes['raised_ValueError'] += 1
        R.case(sample=case if R.evals % 40 == 0 else None, nontrivial=True)


def run_differential(chunk, R):
    """Soundness of state hashing: same set of outcomes with and without."""
    for case in chunk:
        c1 = dict(case)
        r1 = type(R)('tmp')
        _, o1 = run_case(c1, r1)
        c2 = dict(case, hashing=False)
        r2 = type(R)('tmp')
        _, o2 = run_case(c2, r2)
        R.stats['differential_cases'] += 1
        R.stats['executions'] += r1.stats['executions'] + r2.stats['executions']
        R.stats['states'] += r1.stats['states']
        R.stats['transitions'] += r1.stats['transitions'] + r2.stats['transitions']
        for k_, v in list(r1.outcomes.items()) + list(r2.outcomes.items()):
            R.outcomes[k_] += v
        R.extend(r1.violations)
        if r2.stats['cap_hit'] or r1.stats['cap_hit']:
            R.stats['differential_capped'] += 1
            continue
        R.case(sample=None, nontrivial=True)
        if o1 != o2:
            raise RuntimeError('state hashing lost outcomes on %r: %d vs %d' %
                               (case, len(o1), len(o2)))


def replay(case):
    if 'capacity' in case:
        return check_capacity(case)
    body = make_body(case)
    x = xp.replay(body, case['choices'])
    vs, _ = judge(case, x)
    return vs


# ----------------------------------------------------------------- cases --
def estimate(kind, k, n, m, planted):
    """Rough size of the ordered outcome space, to keep the box tractable."""
    cap = (compatible_parities if kind == 'kxor' else compatible_clauses)(k, n, planted)
    if k > n:
        return 1
    tot = 1
    for i in range(min(m, cap)):
        tot *= (cap - i)
    return tot


def cases(tier, seed):
    thorough = tier == 'thorough'
    cs = []
    limit = 800 if thorough else 130
    for kind in ('kcnf', 'kxor'):
        for n in range(0, 4):
            for k in range(0, n + 2):
                for pname, planted in planted_sets(n):
                    cap = (compatible_parities if kind == 'kxor' else compatible_clauses)(
                        k, n, planted) if k <= n else 0
                    ms = set(range(0, 4)) | ({cap - 1, cap, cap + 1} if cap <= 9 else set())
                    for m in sorted(x for x in ms if x >= 0):
                        if estimate(kind, k, n, m, planted) > limit:
                            continue
                        # the retry counter t (up to 10*m) is part of every
                        # state: the space grows quickly with m
                        if not thorough:
                            mmax = 3 if n <= 2 else (2 if k <= 1 else 1)
                        else:
                            mmax = 5 if n <= 2 else (3 if k <= 1 else 2)
                        if m > mmax:
                            continue
                        cs.append({'kind': kind, 'k': k, 'n': n, 'm': m,
                                   'planted': planted, 'pname': pname})
                # planted_assignments omitted entirely (default None)
                cs.append({'kind': kind, 'k': k, 'n': n, 'm': 1, 'planted': [],
                           'planted_none': True, 'pname': 'default'})
                # pseudo-Boolean formula class: one or two constraints, with and
                # without a planted assignment
                if k <= n:
                    mixed_ = [v if v % 2 else -v for v in range(1, n + 1)]
                    for m_ in ((1, 2) if n <= 2 or thorough else (1,)):
                        for pl_ in ([], [mixed_]):
                            if estimate(kind, k, n, m_, pl_) <= limit:
                                cs.append({'kind': kind, 'k': k, 'n': n, 'm': m_, 'planted': pl_,
                                           'pname': 'opb', 'cls': 'OPB'})
    # command line: every execution costs ~40 ms (argparse), so the random
    # environment is explored with a deviation bound (all executions with at
    # most `max_dev` non-default answers), reported as such
    cli_box = [(1, 1, 1, 2), (1, 2, 2, 2), (2, 2, 1, 2), (3, 2, 1, 2), (1, 3, 2, 2),
               (1, 1, 3, 1), (2, 2, 5, 1)]
    if thorough:
        cli_box = [(1, 1, 1, 3), (1, 2, 2, 3), (2, 2, 1, 3), (3, 2, 1, 2), (1, 3, 2, 3),
                   (2, 3, 1, 3), (1, 1, 3, 2), (2, 2, 5, 2), (2, 3, 2, 2), (3, 3, 2, 2)]
    for kind in ('cli-kcnf', 'cli-kxor'):
        for (k, n, m, dev) in cli_box:
            for plant in (False, True):
                cs.append({'kind': kind, 'k': k, 'n': n, 'm': m, 'plant': plant,
                           'hashing': False, 'max_dev': dev, 'max_execs': 200000})
    # realistic sizes: the full outcome space is out of reach, so these run
    # under a handful of scripted generators (max_dev = 0: exactly the default
    # schedule): pseudo-random 'mix' schedules, and 'zero:T' schedules whose T
    # identical answers drive the sampler through 10*m failed draws into its
    # dense fallback.  Same oracle as the exhaustive box.
    big = [('kcnf', 3, 300, 500, 'none', 'mix'), ('kcnf', 3, 300, 500, 'one', 'mix'),
           ('kcnf', 2, 257, 300, 'none', 'mix'), ('kcnf', 1, 300, 300, 'one', 'mix'),
           ('kcnf', 1, 300, 301, 'one', 'mix'), ('kcnf', 1, 300, 600, 'none', 'mix'),
           ('kxor', 3, 300, 400, 'none', 'mix'), ('kxor', 3, 260, 300, 'one', 'mix'),
           ('kxor', 1, 300, 300, 'one', 'mix'), ('kxor', 1, 300, 301, 'one', 'mix'),
           ('kxor', 2, 258, 520, 'none', 'mix'),
           ('kcnf', 2, 12, 40, 'none', 'zero:3000'), ('kcnf', 2, 12, 262, 'none', 'zero:40000'),
           ('kcnf', 3, 11, 30, 'one', 'zero:3000'), ('kxor', 2, 12, 40, 'none', 'zero:3000'),
           ('kxor', 3, 11, 30, 'one', 'zero:3000'), ('kxor', 2, 12, 131, 'none', 'zero:20000'),
           ('kcnf', 2, 12, 264, 'none', 'mix'), ('kcnf', 2, 12, 265, 'none', 'mix'),
           ('kxor', 2, 12, 132, 'none', 'mix'), ('kxor', 2, 12, 133, 'none', 'mix')]
    for (kind, k, n, m, pname, sched) in big:
        mixed = [v if v % 3 else -v for v in range(1, n + 1)]
        for ds in ((1, 2, 3) if thorough else (1, 2)):
            cs.append({'kind': kind, 'k': k, 'n': n, 'm': m, 'pname': pname,
                       'planted': [mixed] if pname == 'one' else [],
                       'scripted': True, 'hashing': False, 'max_dev': 0, 'default': sched,
                       'default_seed': ds, 'horizon': 5000000, 'max_execs': 5})
    # the same total assignment planted twice with its literals in two orders
    # (it is ONE assignment): requests at the exact capacity and one above, with
    # k = n too, driven into the dense fallback by identical answers
    for (kind, k, n) in (('kcnf', 3, 3), ('kcnf', 2, 2), ('kcnf', 4, 4), ('kcnf', 2, 3),
                         ('kxor', 3, 3), ('kxor', 2, 3), ('kxor', 2, 4)):
        mixed = [v if v % 2 else -v for v in range(1, n + 1)]
        planted = [mixed, mixed[::-1]]
        cap = (compatible_parities if kind == 'kxor' else compatible_clauses)(k, n, planted)
        for m in (cap, cap + 1):
            for sched in ('zero:%d' % (25 * cap + 60), 'mix'):
                cs.append({'kind': kind, 'k': k, 'n': n, 'm': m, 'pname': 'same-twice-reordered',
                           'planted': planted, 'scripted': True, 'hashing': False, 'max_dev': 0,
                           'default': sched, 'default_seed': 1, 'horizon': 200000, 'max_execs': 5})
    # a space of more than a million parities with planted assignments that are
    # sums (mod 2) of each other: 7 assignments of rank 4, so a sixteenth of the
    # parities is compatible, not a 128th
    n = 62
    base = [[v if (v * (i + 3) + v // (i + 2)) % (i + 2) else -v for v in range(1, n + 1)] for i in range(4)]

    def xor3(a, b, c):
        return [v if ((a[v - 1] > 0) ^ (b[v - 1] > 0) ^ (c[v - 1] > 0)) else -v for v in range(1, n + 1)]
    planted = base + [xor3(base[0], base[1], base[2]), xor3(base[0], base[1], base[3]),
                      xor3(base[0], base[2], base[3])]
    cap = compatible_parities(4, n, planted)
    for m in ((cap // 8 + 100, cap + 1) if thorough else (cap // 8 + 100,)):
        cs.append({'kind': 'kxor', 'k': 4, 'n': n, 'm': m, 'pname': 'dependent-7-rank-4',
                   'planted': planted, 'scripted': True, 'hashing': False, 'max_dev': 0,
                   'default': 'mix', 'default_seed': 1, 'horizon': 5000000, 'max_execs': 2})
    # numbers too long to print (the count of possible clauses has thousands of
    # digits), many planted assignments (a filter per assignment)
    for (k, n_, m) in ((6000, 12000, 3), (5000, 10000, 2)):
        cs.append({'kind': 'kcnf', 'k': k, 'n': n_, 'm': m, 'pname': 'huge-k', 'planted': [],
                   'scripted': True, 'hashing': False, 'max_dev': 0, 'default': 'mix', 'default_seed': 1,
                   'horizon': 5000000, 'max_execs': 1})
    lots = [[v if ((a * 2654435761) >> v) & 1 else -v for v in range(1, 13)] for a in range(1, 1101)]
    lots = [list(t) for t in sorted(set(map(tuple, lots)))]
    for (kind, k, m) in (('kxor', 12, 5000), ('kxor', 1, 25), ('kcnf', 12, 5000)):
        cs.append({'kind': kind, 'k': k, 'n': 12, 'm': m, 'pname': '%d-planted' % len(lots), 'planted': lots,
                   'scripted': True, 'hashing': False, 'max_dev': 0, 'default': 'mix', 'default_seed': 1,
                   'horizon': 5000000, 'max_execs': 1})
    # word-size thresholds: variables numbered 64 and above with two planted
    # assignments that differ only there; more than 64 planted assignments
    n = 70
    alltrue = list(range(1, n + 1))
    but70 = alltrue[:-1] + [-n]
    but65 = alltrue[:64] + [-65] + alltrue[65:]
    for (k, m, pl) in ((1, 69, [alltrue, but70]), (1, 70, [alltrue, but70]), (2, 300, [alltrue, but70]),
                       (2, 300, [alltrue, but65, but70]), (1, 68, [alltrue, but65, but70]),
                       (1, 69, [alltrue, but65, but70])):
        for sched in ('mix', 'zero:%d' % (12 * m + 50)):
            cs.append({'kind': 'kxor', 'k': k, 'n': n, 'm': m, 'pname': 'two-differing-above-64',
                       'planted': pl, 'scripted': True, 'hashing': False, 'max_dev': 0,
                       'default': sched, 'default_seed': 1, 'horizon': 2000000, 'max_execs': 2})
    many = [[v if (a >> (v - 1)) & 1 else -v for v in range(1, 8)]
            for a in list(range(0, 128, 2)) + [1]]                  # 65 distinct assignments
    caps = {k: compatible_clauses(k, 7, many) for k in (7, 3, 2)}
    for (k, m) in ((7, caps[7]), (7, caps[7] + 1), (3, caps[3]), (3, caps[3] + 1), (2, caps[2])):
        for sched in ('mix', 'zero:%d' % (12 * m + 50)):
            cs.append({'kind': 'kcnf', 'k': k, 'n': 7, 'm': m, 'pname': '65-planted',
                       'planted': many, 'scripted': True, 'hashing': False, 'max_dev': 0,
                       'default': sched, 'default_seed': 1, 'horizon': 2000000, 'max_execs': 2})
    if not thorough:
        # two designated heavy cases: exact maximum / dense fallback with m=4
        cs.append({'kind': 'kcnf', 'k': 1, 'n': 2, 'm': 4, 'planted': [], 'pname': 'none'})
        cs.append({'kind': 'kxor', 'k': 1, 'n': 2, 'm': 4, 'planted': [], 'pname': 'none'})
    if thorough:
        extra = [('kcnf', 1, 4, 2), ('kxor', 1, 4, 2), ('kcnf', 4, 4, 1), ('kxor', 4, 4, 1)]
        for (kind, k, n, m) in extra:
            cs.append({'kind': kind, 'k': k, 'n': n, 'm': m, 'planted': [], 'pname': 'none'})
    return cs


def diff_cases(tier):
    base = [('kcnf', 1, 2, 2), ('kcnf', 2, 2, 1), ('kxor', 1, 2, 2), ('kcnf', 1, 1, 2),
            ('kxor', 1, 1, 2), ('kcnf', 0, 1, 1), ('kxor', 0, 1, 1)]
    if tier == 'thorough':
        base += [('kcnf', 1, 2, 3), ('kxor', 2, 2, 2), ('kcnf', 1, 3, 2), ('kxor', 1, 3, 2),
                 ('kcnf', 2, 3, 1)]
    return [{'kind': kd, 'k': k, 'n': n, 'm': m, 'planted': [], 'pname': 'none',
             'max_execs': 300000} for (kd, k, n, m) in base]


def shards(tier, seed):
    cs = cases(tier, seed)
    # heavy cases first, one case per shard (costs differ by orders of magnitude)
    def weight(c):
        if c['kind'].startswith('cli'):
            return 10 ** 6 + c['m'] * c.get('max_dev', 1)
        if c.get('scripted'):
            return 10 ** 5
        return estimate(c['kind'], c['k'], c['n'], c['m'], c.get('planted', [])) * (1 + c['m'])
    cs.sort(key=lambda c: -weight(c))
    out = []
    heavy = cs[:48]
    light = cs[48:]
    for i, c in enumerate(heavy):
        out.append(('h%03d' % i, 'run_cases', [c]))
    for i in range(0, len(light), 12):
        out.append(('l%03d' % (i // 12), 'run_cases', light[i:i + 12]))
    for i, c in enumerate(diff_cases(tier)):
        out.append(('d%03d' % i, 'run_differential', [c]))
    cc = capacity_cases(tier)
    cc.sort(key=lambda c: -c['capacity'])
    for i in range(16):
        if cc[i::16]:
            out.append(('cap%02d' % i, 'run_capacity', cc[i::16]))
    return out
