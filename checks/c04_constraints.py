"""C04  Linear, parity and mapping constraint builders mean what their names say.

Five exhaustive parts, every case evaluated on ALL 2^N assignments of the
resulting formula (N = F.number_of_variables()):

lin    every literal list of the scope (all polarity patterns over 0..7
       variables, 0..9 in the thorough tier, + lists with repeated / opposite
       literals, gaps and pre-declared variables), given as list, tuple,
       generator and - where the list is an arithmetic progression - as a
       range object, through every builder of CNF (add_linear with its 6
       operators, cardinality_*, loose/strict majority/minority, add_parity
       with 0/1/True/False) and of OPB (cardinality_*, majorities,
       add_parity), every constant -2..n+2, with check=True (fresh formula)
       and check=False (variables declared beforehand).
       Oracle: the arithmetic meaning  #true literals  op  constant
       (2*#true op n for majorities, XOR for parity), bit-sliced counter on
       the literal columns.
seq    every ordered pair of builder calls on one formula with the SAME list
       object passed twice (<=3 literals, <=4 thorough): the formula means the
       conjunction on the literals as given (catches in-place modification of
       the caller's list and interference between constraints).
nrm    normalize_opb and OPB.add_constraint on every coefficient vector of
       {-2,-1,1,2,3}^(<=3) (<=4 thorough) x every polarity pattern (plus
       repeated / opposite variables and a gap) x 5 operators x degrees -4..8
       (-6..11).  Oracle: per-assignment integer arithmetic on the
       un-normalised constraint; normal form = positive coefficients and
       operator in {>=, ==}.
map    complete / functional / injective / surjective / non-decreasing
       requirements, every non-empty subset of them, on unary mappings
       n,m<=4, sparse mappings over all bipartite graphs <=3x3 and 2x4, 4x2,
       1x5, 5x1 (+3x4, 4x3 thorough), binary mappings n<=4, m<=9 with <=12
       bits (n<=5, m<=17, <=16 bits thorough; m not a power of two included),
       in CNF and OPB, with 0 or 1 variables declared before the group.
       Oracle: the relation R = {(i,j): "f maps i to j"} decoded from the
       group (unary: variable f(i,j); binary: the bits v(i,k-1)..v(i,0) spell
       j and j<m) and the textbook definition of each requirement on R;
       closed-form counts of functions as an independent corollary.
forbid BinaryMappingVariables.forbid(i,j) for every i, every j<2^k: the clause
       is false exactly when the bits of i spell j.
"""
import itertools
from math import comb

from engine import tt, scope
from engine.common import setup_paths

PROPERTY = 'C04'
SECOND_PASS = ('run_groups',)    # see engine/common._run_shard
LEVEL = 'exploration'
EXHAUSTIVE = True
RULE = ('lin: every (class, literal list, container, check flag, builder, operator, constant) of the '
        'scope; nrm: every (term list, operator, degree, entry point); map: every (class, mapping '
        'shape, declared-before count, non-empty requirement subset); forbid: every (shape, i, j). '
        'Each case is built once by the real code and evaluated on all 2^N assignments; a case is '
        'non-trivial when its reference model set is neither empty nor everything (the constraint '
        'discriminates); cases are distinct by construction (each tuple enumerated once)')
ASSUMPTIONS = [
    'bounded scope: <=7 literals (9 thorough) + fixed irregular lists + 2 seed-rotated longer lists; constants -2..n+2; '
    'coefficients {-2,-1,1,2,3}^<=3 (^<=4 thorough), degrees -4..8 (-6..11); pairs of calls on <=3 (4) '
    'literals; unary n,m<=4 (n*m<=20 thorough), bipartite graphs <=3x3,2x4,4x2,1x5,5x1 (+3x4,4x3 '
    'thorough), binary n<=4, m<=9, <=12 bits (n<=5, m<=17, <=16 bits)',
    'trusted reference: engine.tt counters (self-tested against a per-assignment evaluator) and '
    'per-assignment integer arithmetic for the un-normalised pseudo-Boolean constraints',
    '"f maps i to j" is decoded from the variable group: unary variable f(i,j); binary bits '
    'f(i,b) spell j, only j<m are images; injective/non-decreasing are stated on images in the range',
    'an operation documented as unsupported (surjective on binary mappings, binary mappings with '
    'n=0 or m=0) may refuse with ValueError/TypeError/NotImplementedError provided the formula is '
    'left unchanged',
]
ENGINE = 'tt+scope'
TECHNIQUE = ('bounded exhaustive exploration: every builder call of a small scope is executed on the '
             'real classes and its full truth table is compared with the arithmetic / functional meaning')
LEVEL_TEXT = ('Every input tuple of the stated scope (literal lists in all polarities and four container '
              'types, all operators, all constants incl. out-of-range ones, all coefficient vectors, all '
              'mapping shapes and requirement subsets) is executed once on the real CNF/OPB classes and the '
              'complete model set (all 2^N assignments, bit-parallel) is compared with an independent '
              'arithmetic / relational reference. Exhaustive inside the scope; nothing is sampled.')
LEVEL_NOTE = ('Trusted: engine/tt and the twenty-line relational reference in this module. Not covered: '
              'longer literal lists, larger coefficients, mappings beyond the stated sizes.')

OPS6 = ['<=', '>=', '<', '>', '==', '!=']
OPS5 = ['>=', '<=', '>', '<', '==']
CARD = {'cardinality_geq': '>=', 'cardinality_leq': '<=', 'cardinality_eq': '==', 'cardinality_neq': '!='}
MAJ = {'add_loose_majority': '>=', 'add_loose_minority': '<=',
       'add_strict_majority': '>', 'add_strict_minority': '<'}
PARITY_CONSTANTS = [0, 1, True, False]
REQS = ['complete', 'functional', 'injective', 'surjective', 'nondecreasing']
REFUSAL = (ValueError, TypeError, NotImplementedError)


def VACUITY(tier):
    return {'lin:cases': 20000, 'seq:cases': 10000, 'nrm:cases': 50000, 'map:cases': 10000, 'forbid:cases': 50,
            'models:none': 1000, 'models:all': 1000, 'models:proper': 10000,
            'lin:container:range': 500, 'lin:container:tuple': 3000, 'lin:container:gen': 3000,
            'nrm:normal-form-differs-from-input': 10000,
            'map:kind:unary': 500, 'map:kind:sparse': 5000, 'map:kind:binary': 300}


def preload():
    setup_paths()
    import cnfgen  # noqa
    import cnfgen.formula.cnf  # noqa
    import cnfgen.formula.opb  # noqa


def _classes():
    from cnfgen.formula.cnf import CNF
    from cnfgen.formula.opb import OPB
    return {'CNF': CNF, 'OPB': OPB}


# ============================================================ containers ==
def as_range(lits):
    """The range object equal to the list, or None when it is not an
    arithmetic progression."""
    lits = list(lits)
    if not lits:
        return range(1, 1)
    if len(lits) == 1:
        return range(lits[0], lits[0] + 1)
    step = lits[1] - lits[0]
    if step == 0:
        return None
    r = range(lits[0], lits[-1] + (1 if step > 0 else -1), step)
    return r if list(r) == lits else None


def make_container(lits, cont):
    if cont == 'list':
        return list(lits)
    if cont == 'tuple':
        return tuple(lits)
    if cont == 'gen':
        return (x for x in list(lits))
    if cont == 'range':
        r = as_range(lits)
        if r is None:
            raise AssertionError('not expressible as a range: %r' % (lits,))
        return r
    raise KeyError(cont)


def classify(bitmap, N):
    if bitmap == 0:
        return 'models:none'
    if bitmap == tt.columns(N)[0]:
        return 'models:all'
    return 'models:proper'


def describe_diff(got, exp, N):
    a = next(tt.models(got ^ exp))
    side = ('accepted by the formula although the condition is false'
            if (got >> a) & 1 else 'rejected by the formula although the condition holds')
    return 'models=%d expected=%d over %d variables; assignment true=%r is %s' % (
        tt.count(got), tt.count(exp), N, tt.true_vars(a, N), side)


# ================================================================== lin ===
def lin_reference(N, lits, meth, op, c):
    """Arithmetic meaning on the given literals, over N variables."""
    cols = tt.columns(N)
    lc = [tt.lit_col(cols, l) for l in lits]
    if meth == 'add_parity':
        x = 0
        for col in lc:
            x ^= col
        return x if int(c) == 1 else cols[0] ^ x
    if meth in MAJ:
        # 2 * #true  op  n
        return tt.card_cols(N, lc + lc, MAJ[meth], len(lits))
    if meth in CARD:
        op = CARD[meth]
    return tt.card_cols(N, lc, op, c)


def invoke(F, arg, meth, op, c, check):
    if meth == 'add_linear':
        F.add_linear(arg, op, c, check=check)
    elif meth in CARD:
        getattr(F, meth)(arg, c, check=check)
    elif meth in MAJ:
        getattr(F, meth)(arg, check=check)
    elif meth == 'add_parity':
        F.add_parity(arg, c, check=check)
    else:
        raise KeyError(meth)


def lin_run(case):
    """Execute one builder call; returns (symptom, text, N, got, exp)."""
    cls = _classes()[case['cls']]
    lits = list(case['lits'])
    meth, op, c = case['meth'], case.get('op'), case.get('c')
    check = case['check']
    maxabs = max([abs(l) for l in lits], default=0)
    F = cls()
    declared = case.get('pre', 0) if check else max(case.get('pre', 0), maxabs)
    if declared:
        F.update_variable_number(declared)
    arg = make_container(lits, case['cont'])
    try:
        invoke(F, arg, meth, op, c, check)
    except Exception as e:   # the whole scope is inside the documented domain
        return ('exception:' + type(e).__name__, 'the call raised %r' % (e,), None, None, None)
    N = F.number_of_variables()
    if N < max(maxabs, case.get('pre', 0)):
        return ('nvars', 'formula declares %d variables but the literals mention variable %d'
                % (N, maxabs), N, None, None)
    try:
        got = tt.formula_models(F)
    except ValueError as e:
        return ('literal-range', str(e), N, None, None)
    exp = lin_reference(N, lits, meth, op, c)
    if got != exp:
        return ('model-set', describe_diff(got, exp, N), N, got, exp)
    return (None, '', N, got, exp)


def lin_family(case):
    if case['meth'] == 'add_linear':
        return 'add_linear:%s' % case['op']
    return '%s.%s' % (case['cls'], case['meth'])


def lin_check(case, R=None):
    sym, text, N, got, exp = lin_run(case)
    if R is not None:
        R.nt = False
        if exp is not None:
            R.stats['assignments'] += 1 << N
            k = classify(exp, N)
            R.outcomes[k] += 1
            R.nt = (k == 'models:proper')
    if sym is None:
        return []
    # the container is part of the key only when the same call succeeds
    # (or fails differently) with a plain list
    key = '%s:%s' % (lin_family(case), sym)
    if case['cont'] != 'list':
        alt = dict(case)
        alt['cont'] = 'list'
        if lin_run(alt)[0] != sym:
            key = '%s:%s:%s' % (lin_family(case), case['cont'], sym)
    return [{'key': key,
             'what': '%s.%s(%s %r%s%s, check=%r) with %d variables declared before: %s' % (
                 case['cls'], case['meth'], case['cont'], case['lits'],
                 '' if case.get('op') is None else ', %r' % case['op'],
                 '' if case.get('c') is None else ', %r' % (case['c'],),
                 case['check'], case.get('pre', 0), text),
             'case': dict(case)}]


IRREGULAR = [   # (literal list, variables declared before the call)
    ([1, 1], 0), ([1, -1], 0), ([2, 2, 2], 0), ([1, 2, -1], 0), ([1, -2, 2, 1], 0),
    ([3, 1], 0), ([2, -3, 4], 5), ([-2], 3), ([], 2), ([-3, -2, -1], 0), ([4, 2], 0),
    # a variable three or four times, in both polarities
    ([1, 1, -1], 0), ([1, -1, -1], 0), ([1, -1, 1, -1], 0), ([1, 1, -1, 2], 0), ([2, -1, 1, 1, -2], 0),
    ([1, 1, 1], 0), ([-1, -1, 2, 2], 0),
]


def lin_groups(tier, seed):
    thorough = tier == 'thorough'
    nmax = 9 if thorough else 7
    lists = []
    for n in range(nmax + 1):
        for lits in scope.polarity_patterns(n):
            lists.append((lits, 0))
    lists += IRREGULAR
    # VERIF_SEED rotates two additional mid-size patterns (never the core)
    for t in range(2):
        n = nmax + 1 + t
        idx = (seed * 2654435761 + 97 * t + 11) % (1 << n)
        lists.append(([(-(i + 1) if (idx >> i) & 1 else (i + 1)) for i in range(n)], 0))
    groups = []
    for cls in ('CNF', 'OPB'):
        for lits, pre in lists:
            conts = ['list', 'tuple', 'gen'] + (['range'] if as_range(lits) is not None else [])
            for cont in conts:
                for check in (True, False):
                    groups.append({'part': 'lin', 'cls': cls, 'lits': lits, 'pre': pre,
                                   'cont': cont, 'check': check})
    return groups


def lin_cases(g):
    n = len(g['lits'])
    consts = list(range(-2, n + 3))
    base = {k: g[k] for k in ('part', 'cls', 'lits', 'pre', 'cont', 'check')}
    if g['cls'] == 'CNF':
        for op in OPS6:
            for c in consts:
                yield dict(base, meth='add_linear', op=op, c=c)
    for meth in CARD:
        for c in consts:
            yield dict(base, meth=meth, c=c)
    for meth in MAJ:
        yield dict(base, meth=meth)
    for c in PARITY_CONSTANTS:
        yield dict(base, meth='add_parity', c=c)


# ================================================================== seq ===
def seq_alphabet(cls, n):
    calls = []
    consts = range(-1, n + 2)
    if cls == 'CNF':
        for op in OPS6:
            for c in consts:
                calls.append(['add_linear', op, c])
    else:
        for meth in CARD:
            for c in consts:
                calls.append([meth, None, c])
    for meth in MAJ:
        calls.append([meth, None, None])
    for c in (0, 1):
        calls.append(['add_parity', None, c])
    return calls


def seq_check(case, R=None):
    """Two builder calls on the same formula, the SAME list object passed to
    both: the formula must mean the conjunction of the two conditions on the
    literals as given."""
    lits = list(case['lits'])
    calls = case['calls']
    maxabs = max([abs(l) for l in lits], default=0)
    F = _classes()[case['cls']]()
    shared = list(lits)
    sym = text = None
    N = got = exp = None
    try:
        for (meth, op, c) in calls:
            invoke(F, shared, meth, op, c, True)
    except Exception as e:
        sym, text = 'exception:' + type(e).__name__, 'the calls raised %r' % (e,)
    if sym is None:
        N = F.number_of_variables()
        if N < maxabs:
            sym, text = 'nvars', 'formula declares %d variables, literals mention %d' % (N, maxabs)
    if sym is None:
        try:
            got = tt.formula_models(F)
        except ValueError as e:
            sym, text = 'literal-range', str(e)
    if sym is None:
        exp = tt.columns(N)[0]
        for (meth, op, c) in calls:
            exp &= lin_reference(N, lits, meth, op, c)
        if R is not None:
            R.stats['assignments'] += 1 << N
            k = classify(exp, N)
            R.outcomes[k] += 1
            R.nt = (k == 'models:proper')
        if got != exp:
            sym, text = 'model-set', describe_diff(got, exp, N)
    if sym is None:
        return []
    # narrow the key: does one of the calls fail already on its own?
    for (meth, op, c) in calls:
        single = {'part': 'lin', 'cls': case['cls'], 'lits': lits, 'pre': 0, 'cont': 'list',
                  'check': True, 'meth': meth, 'op': op, 'c': c}
        vs = lin_check(single)
        if vs:
            key = vs[0]['key']
            break
    else:
        fams = [lin_family({'cls': case['cls'], 'meth': m_, 'op': o_}) for (m_, o_, _) in calls]
        key = 'seq:after %s:%s' % (fams[0], sym)
    return [{'key': key,
             'what': '%s: calls %r in this order on the same list object %r: %s' % (
                 case['cls'], calls, lits, text),
             'case': dict(case)}]


def seq_groups(tier, seed):
    nmax = 4 if tier == 'thorough' else 3
    groups = []
    for cls in ('CNF', 'OPB'):
        for n in range(nmax + 1):
            for lits in scope.polarity_patterns(n):
                groups.append({'part': 'seq', 'cls': cls, 'lits': lits})
        for lits in ([1, 1], [1, -1], [3, 1], [1, 2, -1]):
            groups.append({'part': 'seq', 'cls': cls, 'lits': lits})
    return groups


def seq_cases(g):
    alpha = seq_alphabet(g['cls'], len(g['lits']))
    for a in alpha:
        for b in alpha:
            yield {'part': 'seq', 'cls': g['cls'], 'lits': g['lits'], 'calls': [a, b]}


# ================================================================== nrm ===
def arith_models(N, terms, op, value):
    """Per-assignment integer arithmetic (independent of normalisation)."""
    b = 0
    for a in range(1 << N):
        s = 0
        for c, l in terms:
            v = (a >> (abs(l) - 1)) & 1
            if (l > 0) == bool(v):
                s += c
        if op == '>=':
            ok = s >= value
        elif op == '<=':
            ok = s <= value
        elif op == '>':
            ok = s > value
        elif op == '<':
            ok = s < value
        elif op == '==':
            ok = s == value
        else:
            raise ValueError(op)
        if ok:
            b |= 1 << a
    return b


def normal_form_problem(con):
    if not isinstance(con, list) or len(con) < 2:
        return 'normal form is not a list [(c,l)...,op,value]: %r' % (con,)
    if con[-2] not in ('>=', '=='):
        return 'operator %r is not >= or ==' % (con[-2],)
    if not isinstance(con[-1], int) or isinstance(con[-1], bool):
        return 'degree %r is not an integer' % (con[-1],)
    for t in con[:-2]:
        if not (isinstance(t, tuple) and len(t) == 2):
            return 'term %r is not a (coefficient, literal) pair' % (t,)
        c, l = t
        if not isinstance(c, int) or c < 0:
            # a term with coefficient 0 that the input already had may stay: it
            # changes nothing of the meaning, which is what this property is about
            return 'coefficient %r is a negative integer or no integer' % (c,)
        if not isinstance(l, int) or l == 0:
            return 'literal %r is not a non-zero integer' % (l,)
    return None


def nrm_check(case, R=None):
    terms = [tuple(t) for t in case['terms']]
    op, d, via = case['op'], case['d'], case['via']
    out = []

    def bad(sym, what):
        out.append({'key': '%s:%s:%s' % (via, op, sym),
                    'what': '%s(%r): %s' % (via, terms + [op, d], what), 'case': dict(case)})

    maxabs = max([abs(l) for (_, l) in terms], default=0)
    con = list(terms) + [op, d]
    try:
        if via == 'normalize_opb':
            from cnfgen.formula.baseopb import normalize_opb
            res = normalize_opb(con)
            N = maxabs
        else:
            if via == 'add_constraint':
                F = _classes()['OPB']()
                F.add_constraint(con)
            elif via == 'add_constraints_from':
                F = _classes()['OPB']()
                F.add_constraints_from([con])
            elif via in ('add_constraint:nocheck', 'add_constraints_from:nocheck'):
                # check=False only says "the variables are declared already":
                # the constraint still is the one written
                F = _classes()['OPB']()
                F.update_variable_number(maxabs)
                if via == 'add_constraint:nocheck':
                    F.add_constraint(con, check=False)
                else:
                    F.add_constraints_from([con], check=False)
            else:                                   # 'constructor'
                F = _classes()['OPB']([con])
            if via != 'add_constraint' or (d + len(terms)) % 2 == 0:
                # the caller goes on using its own list (a template edited for
                # the next constraint): what was inserted must not follow
                con[-1] = d + 1
                if terms:
                    con[0] = (terms[0][0] + 1, -terms[0][1])
                con.append('edited')
            N = F.number_of_variables()
            if len(F) != 1:
                bad('count', 'one constraint added, formula has %d' % len(F))
                return out
            res = list(F.constraints())[0]
    except Exception as e:
        bad('exception:' + type(e).__name__, 'raised %r' % (e,))
        return out
    if N < maxabs:
        bad('nvars', 'formula declares %d variables, constraint mentions %d' % (N, maxabs))
        return out
    prob = normal_form_problem(res)
    if prob:
        bad('not-normal', '%s in %r' % (prob, res))
        return out
    exp = arith_models(N, terms, op, d)
    try:
        got = arith_models(N, res[:-2], res[-2], res[-1])
        if via != 'normalize_opb' and tt.formula_models(F) != got:
            # not a property violation: the two reference evaluators disagree
            raise AssertionError('engine.tt disagrees with per-assignment arithmetic on %r' % (res,))
    except ValueError as e:
        bad('literal-range', '%r in %r' % (e, res))
        return out
    if R is not None:
        R.stats['assignments'] += 1 << N
        k = classify(exp, N)
        R.outcomes[k] += 1
        R.nt = (k == 'models:proper')
        if res != con:
            R.stats['nrm:normal-form-differs-from-input'] += 1
    if got != exp:
        bad('model-set', 'normal form %r: %s' % (res, describe_diff(got, exp, N)))
    return out


COEFS = [-2, -1, 0, 1, 2, 3]


def nrm_groups(tier, seed):
    thorough = tier == 'thorough'
    kmax = 4 if thorough else 3
    groups = []
    for k in range(kmax + 1):
        for coefs in itertools.product(COEFS, repeat=k):
            for lits in scope.polarity_patterns(k):
                groups.append({'part': 'nrm', 'terms': [list(t) for t in zip(coefs, lits)]})
    # repeated / opposite variables, a gap in the variables
    for lits in ([1, 1], [1, -1], [-1, 1], [-1, -1], [3, 1], [2, -2, 1], [1, 2, 1]):
        for coefs in itertools.product(COEFS, repeat=len(lits)):
            groups.append({'part': 'nrm', 'terms': [list(t) for t in zip(coefs, lits)]})
    return groups


def nrm_cases(g, tier):
    degs = range(-6, 12) if tier == 'thorough' else range(-4, 9)
    for op in OPS5:
        for d in degs:
            for via in ('normalize_opb', 'add_constraint'):
                yield {'part': 'nrm', 'terms': g['terms'], 'op': op, 'd': d, 'via': via}
            if d % 3 == 0:
                for via in ('add_constraints_from', 'constructor'):
                    yield {'part': 'nrm', 'terms': g['terms'], 'op': op, 'd': d, 'via': via}
            if d % 3 == 1:
                for via in ('add_constraint:nocheck', 'add_constraints_from:nocheck'):
                    yield {'part': 'nrm', 'terms': g['terms'], 'op': op, 'd': d, 'via': via}


# ================================================================== map ===
def build_mapping(case):
    """(F, f, kind) - formula with `pre` variables declared, then the group."""
    F = _classes()[case['cls']]()
    if case.get('pre', 0):
        F.update_variable_number(case['pre'])
    kind = case['kind']
    if kind == 'unary':
        f = F.new_mapping(case['n'], case['m'])
    elif kind == 'sparse':
        B = scope.mk_bipartite(case['n'], case['m'], [tuple(e) for e in case['edges']])
        f = F.new_sparse_mapping(B)
    elif kind == 'binary':
        f = F.new_binary_mapping(case['n'], case['m'])
    else:
        raise KeyError(kind)
    return F, f


def relation(case, f, N):
    """{(i,j): bitmap of the assignments where f maps i to j}, domain, range."""
    cols = tt.columns(N)
    n, m = case['n'], case['m']
    rel = {}
    if case['kind'] == 'binary':
        k = 0
        while (1 << k) < m:
            k += 1
        D = list(range(1, n + 1))
        Rg = list(range(m))
        for i in D:
            bits = [cols[f(i, b)] for b in range(k)]
            for j in Rg:
                x = cols[0]
                for b in range(k):
                    x &= bits[b] if (j >> b) & 1 else cols[0] ^ bits[b]
                rel[(i, j)] = x
        return rel, D, Rg, n * k
    D = list(range(1, n + 1))
    Rg = list(range(1, m + 1))
    if case['kind'] == 'unary':
        edges = [(i, j) for i in D for j in Rg]
    else:
        edges = [tuple(e) for e in case['edges']]
    for (i, j) in edges:
        rel[(i, j)] = cols[f(i, j)]
    return rel, D, Rg, len(edges)


def requirement(N, rel, D, Rg, req):
    mask = tt.columns(N)[0]

    def g(i, j):
        return rel.get((i, j), 0)
    res = mask
    if req == 'complete':          # every i has at least one image
        for i in D:
            x = 0
            for j in Rg:
                x |= g(i, j)
            res &= x
    elif req == 'functional':      # every i has at most one image
        for i in D:
            res &= tt.card_cols(N, [g(i, j) for j in Rg], '<=', 1)
    elif req == 'injective':       # no two i share an image
        for j in Rg:
            res &= tt.card_cols(N, [g(i, j) for i in D], '<=', 1)
    elif req == 'surjective':      # every j is an image
        for j in Rg:
            x = 0
            for i in D:
                x |= g(i, j)
            res &= x
    elif req == 'nondecreasing':   # i1<i2, i1->j1, i2->j2  =>  j1<=j2
        for i1 in D:
            for i2 in D:
                if i1 < i2:
                    for j1 in Rg:
                        for j2 in Rg:
                            if j1 > j2:
                                res &= mask ^ (g(i1, j1) & g(i2, j2))
    else:
        raise KeyError(req)
    return res


def _falling(h, p):
    r = 1
    for i in range(p):
        r *= (h - i)
    return max(r, 0)


def _surjections(n, m):
    return sum((-1) ** k * comb(m, k) * (m - k) ** n for k in range(m + 1))


def _multichoose(n, m):
    """Number of non-decreasing total functions [n] -> [m]."""
    if m == 0:
        return 1 if n == 0 else 0
    return comb(n + m - 1, n)


def closed_form(case, reqs):
    """Number of relations satisfying the requirement set, when textbook
    combinatorics knows it (complete domain x range only); else None."""
    n, m, kind = case['n'], case['m'], case['kind']
    S = frozenset(reqs)
    if kind == 'binary':
        S = S - {'functional'}      # bit strings are functional by nature
        if S == {'complete'}:
            return m ** n
        if S == {'complete', 'injective'}:
            return _falling(m, n)
        if S == {'complete', 'nondecreasing'}:
            return _multichoose(n, m)
        return None
    if kind != 'unary' or not {'complete', 'functional'} <= S:
        return None
    S = S - {'complete', 'functional'}
    if not S:
        return m ** n
    if S == {'injective'}:
        return _falling(m, n)
    if S == {'surjective'}:
        return _surjections(n, m)
    if S == {'nondecreasing'}:
        return _multichoose(n, m)
    if S == {'injective', 'surjective'}:
        return _falling(n, n) if n == m else 0
    return None


def map_run(case, reqs):
    """(symptom, text, N, exp) for one requirement list applied in order."""
    try:
        F, f = build_mapping(case)
    except REFUSAL as e:
        if case['kind'] == 'binary' and (case['n'] < 1 or case['m'] < 1):
            return ('refused', repr(e), None, None)      # documented: n, m must be > 0
        return ('exception:' + type(e).__name__, 'creating the mapping raised %r' % (e,), None, None)
    except Exception as e:
        return ('exception:' + type(e).__name__, 'creating the mapping raised %r' % (e,), None, None)
    for req in reqs:
        before = (F.number_of_variables(), repr(list(F)))
        nbefore = len(F)
        try:
            getattr(F, 'force_%s_mapping' % req)(f)
        except REFUSAL as e:
            if case['kind'] == 'binary' and req == 'surjective':
                # documented: "works only for mapping represented in unary"
                if (F.number_of_variables(), repr(list(F))) != before:
                    return ('refused-but-formula-changed',
                            'force_surjective_mapping raised %r but left %r in the formula' %
                            (e, list(F)[nbefore:]), None, None)
                return ('refused', repr(e), None, None)
            return ('exception:' + type(e).__name__, 'force_%s_mapping raised %r' % (req, e), None, None)
        except Exception as e:
            return ('exception:' + type(e).__name__, 'force_%s_mapping raised %r' % (req, e), None, None)
    N = F.number_of_variables()
    try:
        rel, D, Rg, nv = relation(case, f, N)
    except Exception as e:
        return ('decode', 'cannot decode the mapping from the group: %r' % (e,), N, None)
    if N != case.get('pre', 0) + nv:
        return ('nvars', 'formula has %d variables, %d declared before + %d of the mapping expected' %
                (N, case.get('pre', 0), nv), N, None)
    try:
        got = tt.formula_models(F)
    except ValueError as e:
        return ('literal-range', str(e), N, None)
    exp = tt.columns(N)[0]
    for req in reqs:
        exp &= requirement(N, rel, D, Rg, req)
    if got != exp:
        return ('model-set', describe_diff(got, exp, N), N, exp)
    cf = closed_form(case, reqs)
    if cf is not None and tt.count(got) != cf << case.get('pre', 0):
        return ('count', 'formula has %d models, textbook count is %d (x2^%d free variables)' %
                (tt.count(got), cf, case.get('pre', 0)), N, exp)
    return (None, '', N, exp)


def map_check(case, R=None):
    reqs = list(case['reqs'])
    sym, text, N, exp = map_run(case, reqs)
    if R is not None:
        R.nt = False
        if sym == 'refused':
            R.outcomes['map:refused:%s' % ('+'.join(reqs) if case['n'] >= 1 and case['m'] >= 1
                                           else 'empty-domain-or-range')] += 1
        if exp is not None:
            R.stats['assignments'] += 1 << N
            k = classify(exp, N)
            R.outcomes[k] += 1
            R.nt = (k == 'models:proper')
    if sym is None or sym == 'refused':
        return []
    # ---- narrow the key: which single requirements fail alone, both classes?
    culprit = reqs
    if len(reqs) > 1:
        alone = [(r, map_run(case, [r])[0]) for r in reqs]
        same = [r for r, s1 in alone if s1 == sym]
        failing = [r for r, s1 in alone if s1 not in (None, 'refused')]
        if same:
            culprit = same
        elif failing:
            culprit = failing
    key = '%s:%s:%s' % (case['kind'], '+'.join(culprit), sym)
    other = dict(case)
    other['cls'] = 'OPB' if case['cls'] == 'CNF' else 'CNF'
    if map_run(other, reqs)[0] != sym:
        key = '%s:%s:%s:%s' % (case['kind'], '+'.join(culprit), case['cls'], sym)
    shape = ('edges=%r' % (case['edges'],)) if case['kind'] == 'sparse' else ''
    return [{'key': key,
             'what': '%s %s mapping %dx%d %s pre=%d, requirements %s: %s' % (
                 case['cls'], case['kind'], case['n'], case['m'], shape, case.get('pre', 0),
                 '+'.join(reqs), text),
             'case': dict(case)}]


def map_groups(tier, seed):
    thorough = tier == 'thorough'
    groups = []
    umax = 5 if thorough else 4
    for cls in ('CNF', 'OPB'):
        for pre in (0, 1):
            for n in range(umax + 1):
                for m in range(umax + 1):
                    if n * m + pre <= (20 if thorough else 17):
                        groups.append({'part': 'map', 'cls': cls, 'kind': 'unary', 'n': n, 'm': m,
                                       'pre': pre})
            sizes = [(L, Rr) for L in range(4) for Rr in range(4)] + [(2, 4), (4, 2), (1, 5), (5, 1)]
            if thorough and pre == 0:
                sizes += [(3, 4), (4, 3)]
            for (L, Rr) in sizes:
                for es in scope.bipartite_graphs(L, Rr):
                    groups.append({'part': 'map', 'cls': cls, 'kind': 'sparse', 'n': L, 'm': Rr,
                                   'edges': [list(e) for e in es], 'pre': pre})
            for n in range(0, (5 if thorough else 4) + 1):
                for m in range(0, (17 if thorough else 9) + 1):
                    if n * max(0, (m - 1).bit_length()) <= (16 if thorough else 12):
                        groups.append({'part': 'map', 'cls': cls, 'kind': 'binary', 'n': n, 'm': m,
                                       'pre': pre})
    # ranges beyond the sizes internal tables may be built for (9, 11, 12 bits)
    for cls in ('CNF', 'OPB'):
        for (n, m) in ((1, 257), (1, 1025), (1, 1500), (1, 2049), (2, 40)):
            groups.append({'part': 'map', 'cls': cls, 'kind': 'binary', 'n': n, 'm': m, 'pre': 0})
    # VERIF_SEED rotates two additional mid-size binary mappings
    extra = [(6, 3), (4, 11), (5, 7), (2, 33), (3, 19), (7, 4)]
    for t in range(2):
        n, m = extra[(seed + 3 * t) % len(extra)]
        groups.append({'part': 'map', 'cls': 'CNF', 'kind': 'binary', 'n': n, 'm': m, 'pre': 2})
    return groups


def req_subsets(kind):
    if kind == 'binary':
        base = ['complete', 'functional', 'injective', 'nondecreasing']
        subs = []
        for r in range(1, len(base) + 1):
            subs += [list(s) for s in itertools.combinations(base, r)]
        subs.append(['surjective'])
        subs.append(['complete', 'surjective'])
        return subs
    subs = []
    for r in range(1, len(REQS) + 1):
        subs += [list(s) for s in itertools.combinations(REQS, r)]
    return subs


def map_cases(g):
    subs = req_subsets(g['kind'])
    if 'slice' in g:
        i, k = g['slice']
        subs = subs[i::k]
    base = {k_: v for k_, v in g.items() if k_ != 'slice'}
    for reqs in subs:
        yield dict(base, reqs=reqs)


def map_nvars(g):
    if g['kind'] == 'binary':
        return g['pre'] + g['n'] * max(0, (g['m'] - 1).bit_length())
    if g['kind'] == 'sparse':
        return g['pre'] + len(g['edges'])
    return g['pre'] + g['n'] * g['m']


def split_heavy(groups):
    """Mapping groups with many variables are split by requirement subsets so
    that no shard gets all 31 subsets of a 2^20-assignment instance."""
    out = []
    for g in groups:
        nv = map_nvars(g)
        k = 1 if nv <= 11 else (4 if nv <= 14 else 16)
        if k == 1:
            out.append(g)
        else:
            for i in range(k):
                if req_subsets(g['kind'])[i::k]:
                    out.append(dict(g, slice=[i, k]))
    return out


# =============================================================== forbid ===
def forbid_check(case, R=None):
    out = []
    n, m, pre, i, j = case['n'], case['m'], case['pre'], case['i'], case['j']

    def bad(sym, what):
        out.append({'key': 'forbid:%s' % sym,
                    'what': 'binary mapping %dx%d pre=%d forbid(%d,%d): %s' % (n, m, pre, i, j, what),
                    'case': dict(case)})
    try:
        F, f = build_mapping({'cls': 'CNF', 'kind': 'binary', 'n': n, 'm': m, 'pre': pre})
        clause = f.forbid(i, j)
    except Exception as e:
        bad('exception:' + type(e).__name__, 'raised %r' % (e,))
        return out
    N = F.number_of_variables()
    cols = tt.columns(N)
    k = 0
    while (1 << k) < m:
        k += 1
    spells = cols[0]
    for b in range(k):
        c = cols[f(i, b)]
        spells &= c if (j >> b) & 1 else cols[0] ^ c
    try:
        got = tt.cnf_models(N, [list(clause)])
    except (ValueError, TypeError) as e:
        bad('literal-range', '%r in clause %r' % (e, clause))
        return out
    if R is not None:
        R.stats['assignments'] += 1 << N
        R.nt = k > 0
    if got != cols[0] ^ spells:
        bad('model-set', 'clause %r is not "false exactly when the bits of %d spell %d": %s' %
            (clause, i, j, describe_diff(got, cols[0] ^ spells, N)))
        return out
    # The clause handed out belongs to the caller: extending it in place (a
    # user adding a literal before inserting the clause) must not change what
    # the same group hands out later, nor the meaning of the requirements
    # added afterwards (sequence: forbid, mutate, forbid / force_*).
    try:
        snapshot = list(clause)
        if isinstance(clause, list):
            clause.append(N + 1)
            clause.reverse()
        again = f.forbid(i, j)
        if list(again) != snapshot:
            bad('aliased-result', 'forbid(%d,%d) returns %r after the caller modified the first '
                'result (was %r)' % (i, j, list(again), snapshot))
            return out
        if j < m and n >= 2 and N <= 14:
            F.force_injective_mapping(f)
            F.force_complete_mapping(f)
            F2, f2 = build_mapping({'cls': 'CNF', 'kind': 'binary', 'n': n, 'm': m, 'pre': pre})
            F2.force_injective_mapping(f2)
            F2.force_complete_mapping(f2)
            if [list(c) for c in F.clauses()] != [list(c) for c in F2.clauses()]:
                bad('requirements-after-mutation',
                    'injective+complete clauses differ after a forbid() result was modified')
    except Exception as e:
        bad('sequence:exception:' + type(e).__name__, 'raised %r' % (e,))
    return out


def forbid_groups(tier, seed):
    thorough = tier == 'thorough'
    return [{'part': 'forbid', 'n': n, 'm': m, 'pre': pre}
            for pre in (0, 1, 3)
            for n in range(1, (4 if thorough else 3) + 1)
            for m in range(1, (33 if thorough else 16) + 1)
            if pre + n * max(0, (m - 1).bit_length()) <= 16]


def forbid_cases(g):
    k = 0
    while (1 << k) < g['m']:
        k += 1
    for i in range(1, g['n'] + 1):
        for j in range(1 << k):
            yield dict(g, i=i, j=j)


# ============================================================== driver ====
def wide_lits(n, variant):
    """n literals over distinct variables, mixed polarities, not in order."""
    vs = list(range(1, n + 1))
    if variant == 1:
        vs = vs[::2] + vs[1::2][::-1]
    return [v if (v * 7 + variant) % 3 else -v for v in vs]


def wide_groups(tier, seed):
    widths = (15, 16, 17, 18, 20) if tier == 'thorough' else (16, 17, 18)
    return [{'part': 'wide', 'cls': cls, 'n': n, 'variant': v}
            for cls in ('CNF', 'OPB') for n in widths for v in (0, 1)]


def wide_cases(g):
    for c in (0, 1):
        yield dict(g, meth='add_parity', c=c)
    yield dict(g, meth='cardinality_geq', c=1)
    yield dict(g, meth='cardinality_leq', c=g['n'] - 1)
    yield dict(g, meth='cardinality_eq', c=0)


def wide_check(case, R=None):
    """Constraints over 16..20 literals (beyond 16-bit masks): the clauses
    emitted are compared with the documented encoding as SETS -- a clause over
    the variables of the constraint forbids exactly the assignment falsifying
    all its literals, so the expected set is computed per forbidden
    assignment, no truth table needed."""
    n, meth, c = case['n'], case['meth'], case['c']
    lits = wide_lits(n, case['variant'])
    F = _classes()[case['cls']]()
    out = []

    def bad(sym, what):
        out.append({'key': '%s.%s:wide:%s' % (case['cls'], meth, sym),
                    'what': '%s over %d literals, constant %r: %s' % (meth, n, c, what), 'case': dict(case)})
    try:
        getattr(F, meth)(list(lits), c)
    except Exception as e:
        bad('exception:' + type(e).__name__, repr(e))
        return out
    if hasattr(F, 'constraints'):
        rows = []
        native = []
        for row in F.constraints():
            if row[-2] == '>=' and row[-1] == 1 and all(co == 1 for (co, _) in row[:-2]):
                rows.append(frozenset(l for (_, l) in row[:-2]))
            else:
                native.append(row)
    else:
        rows = [frozenset(cl) for cl in F.clauses()]
        native = []
    if R is not None:
        R.nt = True
        R.stats['wide_constraints'] += 1
    if F.number_of_variables() != n:
        bad('nvars', 'formula declares %d variables' % F.number_of_variables())
    if meth == 'add_parity':
        exp = set()
        for flips in range(1 << n):
            if bin(flips).count('1') % 2 != c:
                exp.add(frozenset(-l if (flips >> i) & 1 else l for i, l in enumerate(lits)))
        if native:
            bad('clauses', 'parity is documented as clauses, found %r' % (native[:2],))
        elif set(rows) != exp or len(rows) != len(exp):
            miss = len(exp - set(rows))
            extra = len(set(rows) - exp)
            bad('clauses', '%d clauses, expected %d; %d documented clauses missing, %d others present'
                % (len(rows), len(exp), miss, extra))
    elif not native:
        if meth == 'cardinality_geq':
            exp = {frozenset(lits)}
        elif meth == 'cardinality_leq':
            exp = {frozenset(-l for l in lits)}
        else:
            exp = {frozenset([-l]) for l in lits}
        if set(rows) != exp:
            bad('clauses', '%d clauses %r..., expected %d' % (len(rows), [sorted(r) for r in rows[:2]], len(exp)))
    else:
        # a native pseudo-Boolean constraint: its meaning on the all-true /
        # all-false / one-true assignments of the literals
        from engine import tt as _tt  # noqa
        if len(native) != 1 or rows:
            bad('clauses', 'expected one native constraint, found %d (+%d clauses)' % (len(native), len(rows)))
        else:
            row = native[0]
            terms = row[:-2]

            def val(true_lits):
                sv = sum(co for (co, l) in terms if l in true_lits)
                return sv >= row[-1] if row[-2] == '>=' else sv == row[-1]
            allt, allf = set(lits), set(-l for l in lits)
            onet = set([lits[0]]) | set(-l for l in lits[1:])
            want = {'cardinality_geq': (True, False, True), 'cardinality_leq': (False, True, True),
                    'cardinality_eq': (False, True, False)}[meth]
            if (val(allt), val(allf), val(onet)) != want:
                bad('meaning', 'native constraint %r evaluates to %r on (all true, all false, one true)'
                    % (row[:3], (val(allt), val(allf), val(onet))))
    return out


CHECKERS = {'lin': lin_check, 'seq': seq_check, 'nrm': nrm_check, 'map': map_check,
            'forbid': forbid_check, 'wide': wide_check}


def check_case(case, R=None):
    return CHECKERS[case['part']](case, R)


replay = check_case


def group_cases(g, tier):
    part = g['part']
    if part == 'lin':
        return lin_cases(g)
    if part == 'seq':
        return seq_cases(g)
    if part == 'nrm':
        return nrm_cases(g, tier)
    if part == 'map':
        return map_cases(g)
    if part == 'wide':
        return wide_cases(g)
    return forbid_cases(g)


def group_weight(g):
    """Estimated cost in microseconds (calibrated on this machine; only used
    to balance the shards, never for a verdict)."""
    part = g['part']
    if part == 'lin':
        n = len(g['lits'])
        return ((10 if g['cls'] == 'CNF' else 4) * (n + 5) + 8) * (50 + (1 << n) // 8)
    if part == 'seq':
        return 35 * len(seq_alphabet(g['cls'], len(g['lits']))) ** 2
    if part == 'nrm':
        return 3000
    if part == 'wide':
        return 3 * (1 << g['n'])
    if part == 'map':
        nsub = len(list(map_cases(g)))
        size = g['n'] * g['m']
        nv = map_nvars(g)
        return nsub * (100 + ((size * size) << nv) // (4 << 11))
    nv = g['pre'] + g['n'] * max(0, (g['m'] - 1).bit_length())
    return g['n'] * 2 * g['m'] * (30 + (1 << nv) // 64)


def shards(tier, seed):
    groups = lin_groups(tier, seed) + seq_groups(tier, seed) + nrm_groups(tier, seed) + \
        split_heavy(map_groups(tier, seed)) + forbid_groups(tier, seed) + wide_groups(tier, seed)
    k = 64 if tier == 'thorough' else 48
    # deterministic greedy balancing by estimated weight (heaviest first)
    order = sorted(range(len(groups)), key=lambda i: (-group_weight(groups[i]), i))
    bins = [[0, []] for _ in range(k)]
    for i in order:
        b = min(range(k), key=lambda x: (bins[x][0], x))
        bins[b][0] += group_weight(groups[i])
        bins[b][1].append(i)
    return [('s%03d' % bi, 'run_groups', {'tier': tier, 'groups': [groups[i] for i in sorted(b[1])]})
            for bi, b in enumerate(bins) if b[1]]


def run_groups(args, R):
    tier = args['tier']
    rev = bool(args.get('reverse'))
    for g in (reversed(args['groups']) if rev else args['groups']):
        part = g['part']
        for case in (reversed(list(group_cases(g, tier))) if rev else group_cases(g, tier)):
            R.nt = False
            vs = check_case(case, R)
            R.case(sample=case if R.evals % 4999 == 0 else None, nontrivial=R.nt)
            R.stats[part + ':cases'] += 1
            if part == 'lin':
                R.stats['lin:container:' + case['cont']] += 1
                R.outcomes['lin:' + lin_family(case).split(':')[0]] += 1
            elif part == 'map':
                R.stats['map:kind:' + case['kind']] += 1
            R.extend(vs)
