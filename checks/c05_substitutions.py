"""C05  Substitution, lifting and compression compose the formula with the gadget.

For every CNF F of a small scope (engine.scope.cnfs: empty clause, unit /
binary / ternary clauses, repeated and opposite literals, declared but unused
variables), every transformation T of cnfgen.transformations.substitutions,
every arity k, every threshold and (for variable compression) every bipartite
graph with the right left side, the real T(F) is built and evaluated on ALL
2^n' assignments of its n' variables (engine.tt).  The oracle is

        T(F)(a)  ==  valid(a)  and  F(g(a))

where g applies the *documented truth table* of the gadget to the block of new
variables owned by each original variable and `valid` is "exactly one selector
per original variable" for lifting (True otherwise).  g is a plain Python
predicate on the bits of a block (function `g_value`), lifted to all
assignments by expanding the truth table of the block (no CNF encoding of the
gadget is ever produced by the oracle, so nothing of the code under test is
re-implemented).  When the transformed formula has <= 6 variables the same
statement is re-checked assignment by assignment in plain Python and the two
oracles must agree (harness self-check).

The documented number of variables is checked first: k per original variable,
3 for if-then-else, 2k for lifting, the right side of the graph for
compression, unchanged for polarity flip.

Layout (which new variable belongs to which original variable):
  * k-ary substitutions: original variable v owns (v-1)k+1 .. vk;
  * lifting: v owns a block of 2k variables, first the k copies X then the k
    selectors Y (docstring "Y variable select X values", labels X_.. / Y_..);
  * if-then-else: the three variables of v are identified by the published
    labels  {v}^{i}, {v}^{t}, {v}^{e}  (if / then / else);
  * compression: v owns its right neighbours in the graph.

A second leg drives the same transformations through the command line
(`cnfgen dimacs <file> -T <name> ...`, in process) with the same oracle, where
F is what the tool itself reads from the file.
"""
import itertools
import os
import re
import shutil
import tempfile
import random as _random

from engine import tt, scope
from engine.common import setup_paths

PROPERTY = 'C05'
SECOND_PASS = ('run_shard',)     # see engine/common._run_shard
_NX_REUSED = {}
LEVEL = 'exploration'
EXHAUSTIVE = True
RULE = ('every CNF of engine.scope.cnfs(v,m) (clause alphabet with the empty clause, repeated and '
        'opposite literals; 0 or 1 declared-but-unused variable) x every transformation x arity '
        '1..3(4) x threshold -1..k+2 x (compression) every bipartite graph with that left side and '
        '<=3 right vertices x {xor,maj}; each transformed formula evaluated on all 2^n assignments; '
        'an instance is non-trivial when F has a non-empty clause; instances are distinct by '
        'construction (each (F, transformation, parameters) tuple is enumerated once)')
ASSUMPTIONS = [
    'bounded scope, quick: all substitutions (arity 1..3, thresholds -1..k+2) on cnfs(0,2), '
    'cnfs(1,3), cnfs(2,2), cnfs(3,2), arity 4 too on cnfs(v<=2,.); all compression graphs with '
    '<=3 right vertices on cnfs(0,2), cnfs(1,3), cnfs(2,2), cnfs(3,1) (4 left vertices: <=2 right '
    'vertices); thorough: substitutions also on cnfs(2,3), cnfs(3,3); compression also on '
    'cnfs(2,3), cnfs(3,2) (4 left vertices: 3 right vertices only for <=1 clause); arities 4..5 '
    'on the fixed catalogue engine.scope.small_cnf_catalogue',
    'lifting of rank 3 on 4 declared variables (24 new variables) only for formulas with <=1 clause',
    'majority means loose majority 2*sum >= arity (docs/transform.rst "Loose majority", CLI help '
    '"X(1)+...+X(N) >= N/2"), also for majority compression (majority of zero variables is true, '
    'xor of zero variables is false)',
    'layout: contiguous blocks (v-1)k+1..vk; lifting block = k copies then k selectors; '
    'if-then-else variables are identified through the published labels ^{i} ^{t} ^{e}',
    'rank < 1, a graph whose left side differs from the number of variables and a function other '
    'than xor/maj are outside the domain: the documented refusal is ValueError',
    'trusted: engine.tt (cross-checked by its selftest and, for <=6 variables, by the per-assignment '
    'evaluation in this module) and the plain truth tables g_value/g_valid of this module',
]
VACUITY = {'sat_instances': 2000, 'unsat_instances': 2000, 'mixed_instances': 2000,
           'assignments_plain': 10000, 'refused:ValueError': 20, 'cli_instances': 50,
           'T:xor': 50, 'T:or': 50, 'T:maj': 50, 'T:eq': 50, 'T:neq': 50, 'T:one': 50,
           'T:exact': 50, 'T:atleast': 50, 'T:atmost': 50, 'T:anybut': 50, 'T:ite': 20,
           'T:lift': 50, 'T:flip': 20, 'T:xorcomp': 500, 'T:majcomp': 500}
ENGINE = 'tt+scope'
TECHNIQUE = ('bounded exhaustive model checking of the transformations: every small CNF x every '
             'transformation/arity/threshold/compression graph x all assignments of the transformed '
             'formula, compared with the composition F o gadget computed from plain truth tables')
LEVEL_TEXT = ('Every CNF of the scope is pushed through the real transformation (library call and, for a '
              'catalogue, the command line) and the complete model set of the result (all 2^n '
              'assignments, bit-parallel; additionally one by one in plain Python up to 6 variables) '
              'is compared with {a : valid(a) and F(g(a))}, g being the documented gadget applied '
              'block by block, plus the documented variable count. Exhaustive inside the scope; '
              'nothing is sampled (VERIF_SEED only rotates a few extra mid-size instances).')
LEVEL_NOTE = ('Trusted: the truth tables g_value/g_valid and the layout table of checks/c05, engine/tt. '
              'Not covered: arities above 5, formulas beyond 3 variables / 3 clauses, compression '
              'graphs with more than 3 right vertices (except seed-rotated extras).')

KARY = ('xor', 'or', 'maj', 'eq', 'neq', 'one')
THRESH = ('exact', 'atleast', 'atmost', 'anybut')
COMP = ('xorcomp', 'majcomp')
PLAIN_LIMIT = 6          # per-assignment plain-Python re-check up to 2^6 assignments


def preload():
    setup_paths()
    import cnfgen  # noqa
    import cnfgen.transformations.substitutions  # noqa


# ---------------------------------------------------------------------------
# reference: gadget truth tables (plain Python on the bits of ONE block)
# ---------------------------------------------------------------------------
def g_valid(T, bits):
    """Side condition on a block: lifting demands exactly one selector."""
    if T == 'lift':
        k = len(bits) // 2
        return sum(bits[k:]) == 1
    return True


def g_value(T, c, bits):
    """Value the gadget T (threshold c) gives to an original variable whose
    block of new variables has the values `bits` (tuple of 0/1)."""
    k = len(bits)
    s = sum(bits)
    if T in ('xor', 'xorcomp'):
        return s % 2 == 1
    if T == 'or':
        return s >= 1
    if T in ('maj', 'majcomp'):
        return 2 * s >= k
    if T == 'eq':
        return s == 0 or s == k
    if T == 'neq':
        return not (s == 0 or s == k)
    if T == 'one':
        return s == 1
    if T == 'exact':
        return s == c
    if T == 'atleast':
        return s >= c
    if T == 'atmost':
        return s <= c
    if T == 'anybut':
        return s != c
    if T == 'ite':
        cond, then, other = bits
        return bool(then if cond else other)
    if T == 'flip':
        return not bits[0]
    if T == 'lift':
        half = k // 2
        copies, selectors = bits[:half], bits[half:]
        chosen = [i for i in range(half) if selectors[i]]
        if len(chosen) != 1:
            return False          # irrelevant: g_valid is False there
        return bool(copies[chosen[0]])
    raise KeyError(T)


def expected_nvars(T, k, N, graph):
    if T in KARY or T in THRESH:
        return k * N
    if T == 'ite':
        return 3 * N
    if T == 'lift':
        return 2 * k * N
    if T == 'flip':
        return N
    if T in COMP:
        return graph[0]
    raise KeyError(T)


_ITE_LABEL = re.compile(r'^(.*)\^\{?([ite])\}?$', re.S)


def _strip(s):
    return s.replace('{', '').replace('}', '')


def ite_layout(orig_labels, new_labels):
    """Blocks [if, then, else] of every original variable read off the
    published labels; None when the labels do not identify them."""
    N = len(orig_labels)
    roles = {'i': [], 't': [], 'e': []}
    for idx, lab in enumerate(new_labels, 1):
        m = _ITE_LABEL.match(lab) if isinstance(lab, str) else None
        if not m:
            return None
        roles[m.group(2)].append((_strip(m.group(1)), idx))
    if any(len(roles[r]) != N for r in 'ite'):
        return None
    stripped = [_strip(x) for x in orig_labels]
    by_name = len(set(stripped)) == N
    blocks = []
    for v in range(N):
        block = []
        for r in 'ite':
            if by_name:
                hits = [idx for (nm, idx) in roles[r] if nm == stripped[v]]
                if len(hits) != 1:
                    return None
                block.append(hits[0])
            else:
                block.append(roles[r][v][1])
        blocks.append(tuple(block))
    return blocks


def layout(T, k, N, graph, orig_labels=None, new_labels=None):
    """blocks[v-1] = tuple of the new variables owned by original variable v
    in the order expected by g_value."""
    if T in KARY or T in THRESH:
        return [tuple(range((v - 1) * k + 1, v * k + 1)) for v in range(1, N + 1)]
    if T == 'flip':
        return [(v,) for v in range(1, N + 1)]
    if T == 'lift':
        return [tuple(range((v - 1) * 2 * k + 1, v * 2 * k + 1)) for v in range(1, N + 1)]
    if T == 'ite':
        return ite_layout(orig_labels, new_labels)
    if T in COMP:
        Rn, edges = graph
        return [tuple(sorted(r for (l, r) in edges if l == v)) for v in range(1, N + 1)]
    raise KeyError(T)


_COLCACHE = {}


def block_columns(T, c, n, block):
    """(value, valid) bitmaps over all 2^n assignments for one block, by
    expanding the plain truth table of the gadget."""
    key = (T, c, n, block)
    hit = _COLCACHE.get(key)
    if hit is not None:
        return hit
    cols = tt.columns(n)
    mask = cols[0]
    val = 0
    ok = 0
    for p in itertools.product((0, 1), repeat=len(block)):
        good = g_valid(T, p)
        if not good:
            continue
        term = mask
        for bit, var in zip(p, block):
            term &= cols[var] if bit else mask ^ cols[var]
        ok |= term
        if g_value(T, c, p):
            val |= term
    if len(_COLCACHE) > 20000:
        _COLCACHE.clear()
    _COLCACHE[key] = (val, ok)
    return val, ok


def expected_models(T, c, n, blocks, N, clauses):
    """Bitmap of {a : valid(a) and F(g(a))} over the n new variables."""
    mask = tt.columns(n)[0]
    vals = [0]
    exp = mask
    for block in blocks:
        val, ok = block_columns(T, c, n, block)
        vals.append(val)
        exp &= ok
    for clause in clauses:
        cl = 0
        for lit in clause:
            v = abs(lit)
            if v == 0 or v > N:
                raise AssertionError('harness: literal %r outside the input formula' % (lit,))
            cl |= vals[v] if lit > 0 else mask ^ vals[v]
        exp &= cl
    return exp


def induced(T, c, blocks, a):
    """(valid, assignment number over the original variables) induced by the
    assignment number a of the new variables -- plain Python."""
    ok = True
    ind = 0
    for v, block in enumerate(blocks):
        bits = tuple((a >> (b - 1)) & 1 for b in block)
        if not g_valid(T, bits):
            ok = False
        if g_value(T, c, bits):
            ind |= 1 << v
    return ok, ind


# ---------------------------------------------------------------------------
# the code under test
# ---------------------------------------------------------------------------
def mk_formula(case):
    """The input CNF of a case (public constructors only)."""
    from cnfgen.formula.cnf import CNF
    nv = case['nv']
    if case.get('named') == 'dup':
        # distinct variables that carry the same label (two blocks with the
        # default label, new_variable('x') twice): labels are names, not keys
        F = CNF()
        left = nv
        while left >= 2 and F.number_of_variables() < 4:
            F.new_block(2)
            left -= 2
        while left >= 1:
            F.new_variable('x')
            left -= 1
        for cl in case['cls']:
            F.add_clause(list(cl))
        return F
    if case.get('named') == 'mixed':
        # anonymous variables (known only through a raised count) before,
        # between and after named groups; layout bit 0: a gap between the
        # block and the single variable
        F = CNF()
        layout = case.get('layout', 0)
        left = nv
        if left >= 1:
            F.update_variable_number(1)
            left -= 1
        if left >= 2:
            F.new_block(2, label='y_{}')
            left -= 2
        if left >= 2 and layout % 2 == 1:
            F.update_variable_number(F.number_of_variables() + 1)
            left -= 1
        if left >= 1:
            F.new_variable('z')
            left -= 1
        if left >= 1:
            F.update_variable_number(F.number_of_variables() + left)
        for cl in case['cls']:
            F.add_clause(list(cl))
        return F
    if case.get('named'):
        # named variables, labels with braces and format-like fragments
        F = CNF()
        names = ['a', None, 'w{}', 'q_{1,2}']
        made = 0
        while made < nv:
            nm = names[made % len(names)]
            if nm is None:
                F.new_block(1, label='p_{{{}}}')
            else:
                F.new_variable(nm + ("'" * (made // len(names))))
            made += 1
        for cl in case['cls']:
            F.add_clause(list(cl))
        return F
    return scope.mk_cnf(nv, [tuple(cl) for cl in case['cls']])


def transform(T, k, c, F, graph, fn=None):
    import cnfgen.transformations.substitutions as S
    if T == 'xor':
        return S.XorSubstitution(F, k)
    if T == 'or':
        return S.OrSubstitution(F, k)
    if T == 'maj':
        return S.MajoritySubstitution(F, k)
    if T == 'eq':
        return S.AllEqualSubstitution(F, k)
    if T == 'neq':
        return S.NotAllEqualSubstitution(F, k)
    if T == 'one':
        return S.ExactlyOneSubstitution(F, k)
    if T == 'exact':
        return S.ExactlyKSubstitution(F, k, c)
    if T == 'atleast':
        return S.AtLeastKSubstitution(F, k, c)
    if T == 'atmost':
        return S.AtMostKSubstitution(F, k, c)
    if T == 'anybut':
        return S.AnythingButKSubstitution(F, k, c)
    if T == 'ite':
        return S.IfThenElseSubstitution(F)
    if T == 'lift':
        return S.FormulaLifting(F, k)
    if T == 'flip':
        return S.FlipPolarity(F)
    if T in COMP:
        L, Rn, edges = graph
        mode = (len(edges) + 2 * L + Rn) % 3
        if mode == 0 or L == 0 or Rn == 0:
            B = scope.mk_bipartite(L, Rn, [tuple(e) for e in edges])
        else:
            # the graph is also accepted as a networkx graph with the
            # 'bipartite' node attribute (BipartiteGraph.normalize): each side
            # inserted in index order, the two sides right-first or interleaved,
            # edges given right endpoint first
            import networkx
            # ONE networkx object per shape, rewired in place from case to case
            # (same nodes, often the same number of edges, other neighbourhoods)
            B = _NX_REUSED.get((L, Rn, mode))
            if B is not None:
                B.remove_edges_from(list(B.edges()))
                for (u, v) in edges:
                    B.add_edge('r%d' % v, 'l%d' % u)
                return S.VariableCompression(F, B, fn if fn is not None else T[:3])
            B = networkx.Graph()
            _NX_REUSED[(L, Rn, mode)] = B
            lefts = [('l', i) for i in range(1, L + 1)]
            rights = [('r', j) for j in range(1, Rn + 1)]
            if mode == 1:
                seq = rights + lefts
            else:
                seq = []
                for t in range(max(L, Rn)):
                    if t < Rn:
                        seq.append(rights[t])
                    if t < L:
                        seq.append(lefts[t])
            for side, i in seq:
                # the side as an int, or (interleaved layout) as the string a dot
                # file delivers
                bip = (0 if side == 'l' else 1) if mode == 1 else ('0' if side == 'l' else '1')
                B.add_node('%s%d' % (side, i), bipartite=bip)
            for (u, v) in edges:
                B.add_edge('r%d' % v, 'l%d' % u)
        return S.VariableCompression(F, B, fn if fn is not None else T[:3])
    raise KeyError(T)


def cli_tail(T, k, c, graph, tmpdir, via=None):
    """Command line words after `-T` for a transformation."""
    if T in KARY or T == 'lift':
        return [T, str(k)]
    if T in THRESH:
        return [T, str(k), str(c)]
    if T in ('ite', 'flip'):
        return [T]
    if T in COMP:
        L, Rn, edges = graph
        if via == 'complete':
            return [T, 'complete', str(L), str(Rn)]
        path = os.path.join(tmpdir, 'b.matrix')
        es = set(tuple(e) for e in edges)
        with open(path, 'w') as f:
            f.write('%d %d\n' % (L, Rn))
            for u in range(1, L + 1):
                f.write(' '.join('1' if (u, w) in es else '0' for w in range(1, Rn + 1)) + '\n')
        return [T, path]
    raise KeyError(T)


def run_cli(argv):
    import cnfgen.clitools.msg as msg
    from cnfgen.clitools.cnfgen import cli
    msg._prefix = ''
    try:
        return cli(argv, mode='formula')
    finally:
        msg._prefix = ''


# ---------------------------------------------------------------------------
# one case
# ---------------------------------------------------------------------------
def classify(T, k, c):
    """Input class that goes in the violation key: the transformation, plus
    a marker for thresholds outside 0..k (constant gadgets)."""
    if T in THRESH and c is not None and k is not None and (c < 0 or c > k):
        return '%s:threshold-outside-0..k' % T
    return T


def check_cli_short(case, R=None):
    """The shorthand `-T xorcomp M d` / `-T majcomp M d`: the compression
    graph is drawn at random by the tool, so the result must equal the library
    transformation for SOME bipartite graph with N left vertices of degree d
    and M right vertices -- all of them are tried."""
    T, M, d = case['T'], case['M'], case['d']
    out = []
    tmpdir = tempfile.mkdtemp(prefix='c05_')
    try:
        path = os.path.join(tmpdir, 'f.cnf')
        with open(path, 'w') as f:
            f.write('p cnf %d %d\n' % (case['nv'], len(case['cls'])))
            for cl in case['cls']:
                f.write(' '.join(str(x) for x in list(cl) + [0]) + '\n')
        try:
            G = run_cli(['cnfgen', '-q', '--seed', str(case.get('seed', 1)), 'dimacs', path,
                         '-T', T, str(M), str(d)])
        except BaseException as e:
            if isinstance(e, KeyboardInterrupt):
                raise
            return [{'key': 'cli:%s:shorthand:exception:%s' % (T, type(e).__name__),
                     'what': str(e)[:200], 'case': dict(case)}]
        got = (G.number_of_variables(), sorted(tuple(sorted(cl)) for cl in G))
        N = case['nv']
        rights = list(itertools.combinations(range(1, M + 1), d))
        tried = 0
        for choice in itertools.product(rights, repeat=N):
            edges = [(u + 1, v) for u, nb in enumerate(choice) for v in nb]
            F = scope.mk_cnf(N, [tuple(cl) for cl in case['cls']])
            try:
                H = transform(T, None, None, F, (N, M, edges))
            except Exception as e:
                # the library refuses a left-regular graph that fits the formula
                return [{'key': 'cli:%s:shorthand:library-refuses-a-candidate-graph:%s' % (T, type(e).__name__),
                         'what': 'VariableCompression with the %dx%d graph %r raised %r' % (N, M, edges, e),
                         'case': dict(case)}]
            tried += 1
            if (H.number_of_variables(), sorted(tuple(sorted(cl)) for cl in H)) == got:
                if R is not None:
                    R.stats['cli_shorthand_explained'] += 1
                return out
        out.append({'key': 'cli:%s:shorthand:not-the-compression-by-any-graph' % T,
                    'what': '`-T %s %d %d` on %r gives %d variables, clauses %r: equal to the library '
                            'compression for none of the %d graphs with %d left vertices of degree %d' %
                            (T, M, d, case['cls'], got[0], got[1][:6], tried, N, d),
                    'case': dict(case)})
        return out
    finally:
        shutil.rmtree(tmpdir, ignore_errors=True)


def _sig(F):
    return (F.number_of_variables(), [tuple(cl) for cl in F.clauses()], list(F.all_variable_labels()))


def check_then(case, R=None):
    """G = T1(F); the caller goes on building F (a variable, a clause); then
    H = T2(G).  H must be what T2(T1(.)) gives on an untouched copy of the
    original formula: the result of a transformation stands on its own."""
    out = []
    t1, t2 = case['T1'], case['T2']
    mk = lambda: scope.mk_cnf(case['nv'], [tuple(cl) for cl in case['cls']])

    def run(spec, F):
        T, k, c = spec
        graph = None
        if T in COMP:
            n_ = F.number_of_variables()
            graph = (n_, n_ + 1, [(u, w) for u in range(1, n_ + 1) for w in (u, u + 1)])
        return transform(T, k, c, F, graph)
    try:
        want = _sig(run(t2, run(t1, mk())))
        F = mk()
        G = run(t1, F)
        v = F.new_variable('late')
        F.add_clause([v, -1] if case['nv'] else [v])
        F.new_block(2, label='later_{}')
        got = _sig(run(t2, G))
    except Exception as e:
        return [{'key': '%s-then-%s:exception:%s' % (t1[0], t2[0], type(e).__name__), 'what': repr(e),
                 'case': dict(case)}]
    if R is not None:
        R.nt = True
    if got != want:
        out.append({'key': '%s-then-%s:depends-on-later-edits-of-the-input' % (t1[0], t2[0]),
                    'what': 'T2(T1(F)) has %d variables / %d clauses / names %r...; after the caller added a variable, '
                            'a clause and a block to F between the two steps: %d variables / %d clauses / names %r...'
                            % (want[0], len(want[1]), want[2][:3], got[0], len(got[1]), got[2][:3]),
                    'case': dict(case)})
    return out


def check_case(case, R=None):
    """Violations of one (F, transformation, parameters) instance."""
    if case.get('kind') == 'cli-short':
        return check_cli_short(case, R)
    if case.get('kind') == 'then':
        return check_then(case, R)
    kind = case.get('kind', 'lib')
    T = case['T']
    k = case.get('k')
    c = case.get('c')
    g = case.get('graph')
    graph = None if g is None else (g[0], g[1], [tuple(e) for e in g[2]])
    out = []
    fam = ('cli:' if kind == 'cli' else '') + (classify(T, k, c) if kind != 'refuse' else T)

    def bad(sym, what):
        out.append({'key': '%s:%s' % (fam, sym), 'what': what, 'case': dict(case)})

    tmpdir = None
    try:
        if kind == 'cli':
            tmpdir = tempfile.mkdtemp(prefix='c05_')
            path = os.path.join(tmpdir, 'f.cnf')
            with open(path, 'w') as f:
                f.write('p cnf %d %d\n' % (case['nv'], len(case['cls'])))
                for cl in case['cls']:
                    f.write(' '.join(str(x) for x in list(cl) + [0]) + '\n')
            try:
                F = run_cli(['cnfgen', '-q', 'dimacs', path])
            except BaseException as e:      # the reader is not our subject
                if isinstance(e, KeyboardInterrupt):
                    raise
                if R is not None:
                    R.stats['cli_input_not_read'] += 1
                return out
        else:
            F = mk_formula(case)
        N = F.number_of_variables()
        clsF = [tuple(cl) for cl in F]
        orig_labels = list(F.all_variable_labels())

        if kind == 'refuse':
            try:
                G = transform(T, k, c, F, graph, case.get('fn'))
            except ValueError:
                if R is not None:
                    R.outcomes['refused:ValueError'] += 1
                return out
            except Exception as e:
                bad('out-of-domain:exception:' + type(e).__name__,
                    'arguments outside the documented domain (%s) raised %r instead of ValueError'
                    % (case.get('why'), e))
                return out
            bad('out-of-domain:accepted',
                'arguments outside the documented domain (%s) were accepted (%d variables, %d clauses)'
                % (case.get('why'), G.number_of_variables(), len(list(G))))
            return out

        try:
            if kind == 'cli':
                argv = ['cnfgen', '-q', 'dimacs', path, '-T'] + cli_tail(T, k, c, graph, tmpdir, case.get('via'))
                G = run_cli(argv)
            else:
                G = transform(T, k, c, F, graph)
        except BaseException as e:
            if isinstance(e, KeyboardInterrupt):
                raise
            bad('exception:' + type(e).__name__,
                'the transformation raised %r on arguments inside its domain' % (str(e)[:200],))
            return out

        n = G.number_of_variables()
        clsT = [tuple(cl) for cl in G]
        gr = None if graph is None else (graph[1], graph[2])
        want_n = expected_nvars(T, k, N, gr)
        if R is not None:
            R.nt = any(len(cl) > 0 for cl in clsF)
            R.outcomes['T:' + T] += 1
            if kind == 'cli':
                R.stats['cli_instances'] += 1
        if n != want_n:
            bad('nvars', 'transformed formula has %d variables, documented count is %d '
                '(%d original variables)' % (n, want_n, N))
            return out
        new_labels = list(G.all_variable_labels()) if T == 'ite' else None
        blocks = layout(T, k, N, gr, orig_labels, new_labels)
        if blocks is None:
            bad('labels', 'cannot identify the if/then/else variables from the labels %r'
                % (new_labels[:6],))
            return out
        try:
            got = tt.cnf_models(n, clsT)
        except ValueError as e:
            bad('literal-range', str(e))
            return out
        exp = expected_models(T, c, n, blocks, N, clsF)
        if R is not None:
            R.stats['assignments'] += 1 << n
            if got == 0:
                R.stats['unsat_instances'] += 1
            else:
                R.stats['sat_instances'] += 1
                if got != tt.columns(n)[0]:
                    R.stats['mixed_instances'] += 1
        witness = None
        if got != exp:
            witness = next(tt.models(got ^ exp))
        if n <= PLAIN_LIMIT:
            # the same statement, one assignment at a time, plain Python
            for a in range(1 << n):
                ok, ind = induced(T, c, blocks, a)
                want = ok and tt.eval_cnf(ind, clsF)
                have = tt.eval_cnf(a, clsT)
                if want != bool((exp >> a) & 1) or have != bool((got >> a) & 1):
                    raise AssertionError('harness: plain and bit-parallel evaluation disagree '
                                         'on %r assignment %d' % (case, a))
            if R is not None:
                R.stats['assignments_plain'] += 1 << n
        if witness is not None:
            a = witness
            ok, ind = induced(T, c, blocks, a)
            want = ok and tt.eval_cnf(ind, clsF)
            have = tt.eval_cnf(a, clsT)
            if want == have:
                raise AssertionError('harness: bitmap difference not confirmed by plain '
                                     'evaluation on %r assignment %d' % (case, a))
            side = ('satisfies T(F) although the induced assignment does not satisfy F'
                    if have else
                    'falsifies T(F) although the induced assignment satisfies F')
            bad('semantics',
                'models(T(F))=%d, models(F o gadget)=%d of %d; new variables true %r -> '
                'induced original variables true %r%s: %s; F=%r T(F)=%r'
                % (tt.count(got), tt.count(exp), 1 << n, tt.true_vars(a, n),
                   tt.true_vars(ind, N), '' if ok else ' (selectors not exactly one)',
                   side, clsF[:4], clsT[:6]))
        return out
    finally:
        if tmpdir is not None:
            shutil.rmtree(tmpdir, ignore_errors=True)


replay = check_case


# ---------------------------------------------------------------------------
# enumeration
# ---------------------------------------------------------------------------
def subst_specs(N, m, kmax=3, kmin=1):
    """All non-compression transformations with their parameters."""
    specs = []
    for k in range(kmin, kmax + 1):
        for T in KARY:
            specs.append((T, k, None))
        for T in THRESH:
            for c in range(-1, k + 3):
                specs.append((T, k, c))
        if 2 * k * N <= 18 or (m <= 1 and 2 * k * N <= 24):
            specs.append(('lift', k, None))
    if kmin == 1:
        specs.append(('ite', None, None))
        specs.append(('flip', None, None))
    return specs


def plan(tier, seed):
    """Deterministic list of jobs.  A job is
       ('F', nv, clauses, kmax, comp_rmax)       library, one input formula:
                                                 all substitutions of arity
                                                 <=kmax (0: none) and all
                                                 compression graphs with
                                                 <=comp_rmax right vertices
       ('X', case)                               a single explicit case
    """
    thorough = tier == 'thorough'
    jobs = []
    # ---- exhaustive core -------------------------------------------------
    if thorough:
        box = [(0, 3, 4, 3), (1, 3, 4, 3), (2, 2, 4, 3), (2, 3, 3, 3), (3, 2, 3, 3), (3, 3, 3, -1)]
    else:
        box = [(0, 2, 4, 3), (1, 3, 4, 3), (2, 2, 4, 3), (3, 1, 3, 3), (3, 2, 3, -1)]
    seen = set()
    for (v, m, kmax, rmax) in box:
        for nv, cls in scope.cnfs(v, m):
            key = (nv, tuple(cls))
            if key in seen:
                # already enumerated by an earlier box entry: only add what is new
                continue
            seen.add(key)
            r = rmax
            if nv >= 4:
                # 4 left vertices: 2^12 graphs with 3 right vertices; keep all
                # graphs with <=2 right vertices, and 3 only for <=1 clause
                r = min(rmax, 3 if (thorough and len(cls) <= 1) else 2)
            jobs.append(('F', nv, [list(c) for c in cls], kmax, r))
    # ---- arities 4 and 5 on the fixed catalogue --------------------------
    for nv, cls in scope.small_cnf_catalogue():
        for (T, k, c) in subst_specs(nv, len(cls), kmax=5, kmin=4):
            n2 = (2 * k * nv) if T == 'lift' else k * nv
            if n2 <= (20 if thorough else 16):
                jobs.append(('X', {'T': T, 'k': k, 'c': c, 'nv': nv,
                                   'cls': [list(x) for x in cls]}))
    # ---- named variables (labels with braces) -----------------------------
    for nv, cls in [(1, [(1,)]), (2, [(1, -2), (2,)]), (3, [(1, 2), (-1, -2)]),
                    (4, [(1, -2, 3), (-3, 4), ()]), (5, [(1, 5), (-2, -3, 4)])]:
        for (T, k, c) in subst_specs(nv, 2, kmax=2):
            if (2 * k * nv if T == 'lift' else (k or 3) * nv) <= 16:
                jobs.append(('X', {'T': T, 'k': k, 'c': c, 'nv': nv, 'named': True,
                                   'cls': [list(x) for x in cls]}))
    # ---- anonymous variables before / between / after named groups ---------
    for nv, cls in [(2, [(1, -2), (2,)]), (3, [(1, 2), (-1, -3)]), (4, [(1, -2, 3), (-3, 4), ()]),
                    (5, [(1, 5), (-2, -3, 4)]), (6, [(1, -6), (2, 5)])]:
        for layout in (0, 1):
            for (T, k, c) in subst_specs(nv, 2, kmax=2):
                if (2 * k * nv if T == 'lift' else (k or 3) * nv) <= 16:
                    jobs.append(('X', {'T': T, 'k': k, 'c': c, 'nv': nv, 'named': 'mixed',
                                       'layout': layout, 'cls': [list(x) for x in cls]}))
    # ---- distinct variables with equal labels ---------------------------------
    for nv, cls in [(2, [(1, -2), (2,)]), (3, [(1, 2), (-1, -3)]), (4, [(1, -3), (2, -4), (-1, 4)]),
                    (5, [(1, -3), (-2, 5), (4,)])]:
        for (T, k, c) in subst_specs(nv, 2, kmax=2):
            if (2 * k * nv if T == 'lift' else (k or 3) * nv) <= 16:
                jobs.append(('X', {'T': T, 'k': k, 'c': c, 'nv': nv, 'named': 'dup',
                                   'cls': [list(x) for x in cls]}))
    # ---- arguments outside the domain --------------------------------------
    base = {'nv': 2, 'cls': [[1, -2], [2]]}
    for k in (0, -1, -2):
        for T in KARY + ('lift',):
            jobs.append(('X', dict(base, kind='refuse', T=T, k=k, c=None, why='rank %d' % k)))
        for T in THRESH:
            jobs.append(('X', dict(base, kind='refuse', T=T, k=k, c=1, why='rank %d' % k)))
    for T in COMP:
        for L in (0, 1, 3, 4):
            jobs.append(('X', dict(base, kind='refuse', T=T, graph=[L, 2, [[1, 1]] if L else []],
                                   why='left side %d for 2 variables' % L)))
        for fn in ('or', 'XOR', 'majority', ''):
            jobs.append(('X', dict(base, kind='refuse', T=T, fn=fn, graph=[2, 2, [[1, 1], [2, 2]]],
                                   why='function %r' % fn)))
    # ---- command line -------------------------------------------------------
    cli_cnfs = [(2, [(1, -2), (2,)]), (3, [(1, 2), (-1, -2)]), (2, [(1, 1), (2, -1, -2), ()]),
                (0, []), (1, [(-1,), (1,)]), (3, [(1, -2, 3), (-3,), (2, 3)])]
    if thorough:
        cli_cnfs += [(nv, cls) for nv, cls in scope.small_cnf_catalogue() if 1 <= nv <= 3][:8]
    for nv, cls in cli_cnfs:
        cl = [list(x) for x in cls]
        for k in (1, 2, 3):
            for T in KARY + ('lift',):
                jobs.append(('X', {'kind': 'cli', 'T': T, 'k': k, 'c': None, 'nv': nv, 'cls': cl}))
            for T in THRESH:
                for c in range(1, k + 2):
                    jobs.append(('X', {'kind': 'cli', 'T': T, 'k': k, 'c': c, 'nv': nv, 'cls': cl}))
        for T in ('ite', 'flip'):
            jobs.append(('X', {'kind': 'cli', 'T': T, 'k': None, 'c': None, 'nv': nv, 'cls': cl}))
        for T in COMP:
            for Rn in (1, 2, 3):
                pairs = [(u, w) for u in range(1, nv + 1) for w in range(1, Rn + 1)]
                graphs = [pairs, pairs[::2], pairs[1::3], [p for p in pairs if p[0] != 1]]
                uniq = []
                for gph in graphs:
                    if gph not in uniq:
                        uniq.append(gph)
                for gph in uniq:
                    jobs.append(('X', {'kind': 'cli', 'T': T, 'k': None, 'c': None, 'nv': nv,
                                       'cls': cl, 'graph': [nv, Rn, [list(e) for e in gph]]}))
                if nv >= 1:
                    jobs.append(('X', {'kind': 'cli', 'T': T, 'k': None, 'c': None, 'nv': nv,
                                       'cls': cl, 'via': 'complete',
                                       'graph': [nv, Rn, [list(e) for e in pairs]]}))
    # ---- the shorthand with a random graph ----------------------------------------
    for T in COMP:
        for nv, cl in [(2, [[1, -2], [2]]), (3, [[1, 2], [-1, -3], [3]]), (1, [[-1]]), (2, [[1], [-2]])]:
            for (M, d) in ((2, 1), (2, 2), (3, 2), (3, 3), (3, 1)):
                for sd in (1, 2):
                    jobs.append(('X', {'kind': 'cli-short', 'T': T, 'nv': nv, 'cls': cl, 'M': M, 'd': d,
                                       'seed': sd, 'k': None, 'c': None}))
    # ---- the input keeps being built on between two transformations ---------
    firsts = [('flip', None, None), ('xor', 2, None), ('or', 2, None), ('maj', 3, None), ('eq', 2, None),
              ('one', 2, None), ('exact', 2, 1), ('ite', None, None), ('lift', 2, None), ('xorcomp', None, None),
              ('majcomp', None, None)]
    seconds = [('xor', 2, None), ('ite', None, None), ('lift', 2, None), ('flip', None, None), ('or', 2, None),
               ('xorcomp', None, None)]
    for nv, cl in [(2, [[1, -2], [2]]), (3, [[1, 2], [-1, -3], [3]]), (0, [[]])]:
        for t1 in firsts:
            for t2 in seconds:
                jobs.append(('X', {'kind': 'then', 'T': t1[0], 'T1': list(t1), 'T2': list(t2), 'nv': nv, 'cls': cl,
                                   'k': None, 'c': None}))
    # ---- gadgets over 16..18 new variables (more than a 16-bit mask holds) ---
    for k in ((16, 17, 18) if thorough else (17,)):
        for cl in ([[1]], [[-1]]):
            jobs.append(('X', {'T': 'xor', 'k': k, 'c': None, 'nv': 1, 'cls': cl}))
            jobs.append(('X', {'T': 'xorcomp', 'k': None, 'c': None, 'nv': 1, 'cls': cl,
                               'graph': [1, k, [[1, w] for w in range(1, k + 1)]]}))
        jobs.append(('X', {'T': 'maj', 'k': k, 'c': None, 'nv': 1, 'cls': [[1]]}))
        jobs.append(('X', {'T': 'eq', 'k': k, 'c': None, 'nv': 1, 'cls': [[-1]]}))
        jobs.append(('X', {'T': 'or', 'k': k, 'c': None, 'nv': 1, 'cls': [[-1]]}))
    # ---- VERIF_SEED rotates a few extra mid-size instances ------------------
    rng = _random.Random(1000003 * (seed + 1))
    cat = [(nv, cls) for nv, cls in scope.small_cnf_catalogue() if nv >= 3]
    for i in range(8 if not thorough else 24):
        nv, cls = cat[rng.randrange(len(cat))]
        Rn = rng.choice((4, 5, 6))
        edges = [[u, w] for u in range(1, nv + 1) for w in range(1, Rn + 1) if rng.random() < 0.5]
        jobs.append(('X', {'T': rng.choice(COMP), 'k': None, 'c': None, 'nv': nv, 'extra': True,
                           'cls': [list(x) for x in cls], 'graph': [nv, Rn, edges]}))
        T = rng.choice(KARY + THRESH)
        k = rng.choice((4, 5))
        if k * nv <= 18:
            jobs.append(('X', {'T': T, 'k': k, 'c': rng.randrange(-1, k + 3) if T in THRESH else None,
                               'nv': nv, 'cls': [list(x) for x in cls], 'extra': True}))
    return jobs


def shards(tier, seed):
    k = 64 if tier == 'thorough' else 48
    return [('s%03d' % i, 'run_shard', {'tier': tier, 'seed': seed, 'i': i, 'of': k})
            for i in range(k)]


def run_one(case, R):
    R.nt = False
    vs = check_case(case, R)
    R.case(sample=case if (R.evals % 4999 == 0 and case.get('kind', 'lib') == 'lib') else None,
           nontrivial=R.nt)
    # one defect shows up in thousands of instances: keep three cases per key
    # and shard so that a flood of one key cannot push another key out of the
    # runner's per-shard violation cap
    seen = R.__dict__.setdefault('_c05_keys', {})
    for v in vs:
        seen[v['key']] = seen.get(v['key'], 0) + 1
        if seen[v['key']] <= 3:
            R.bad(v['key'], v['what'], v['case'])
        else:
            R.nviol += 1
            R.stats['violating_instances_beyond_three_per_key_and_shard'] += 1


def run_shard(args, R):
    jobs = plan(args['tier'], args['seed'])
    mine = jobs[args['i']::args['of']]
    if args.get('reverse'):
        mine = list(reversed(mine))
    for job in mine:
        if job[0] == 'X':
            run_one(job[1], R)
            continue
        _, nv, cls, kmax, rmax = job
        if kmax:
            for (T, k, c) in subst_specs(nv, len(cls), kmax=kmax):
                run_one({'T': T, 'k': k, 'c': c, 'nv': nv, 'cls': cls}, R)
        for Rn in range(0, rmax + 1):
            for es in scope.bipartite_graphs(nv, Rn):
                g = [nv, Rn, [list(e) for e in es]]
                for T in COMP:
                    run_one({'T': T, 'k': None, 'c': None, 'nv': nv, 'cls': cls, 'graph': g}, R)
