"""C20  solve() and is_satisfiable() report what the SAT solver found.

No SAT solver is installed, so the bridge (cnfgen/utils/solver.py) is never
executed by the project's own tests.  This check owns the environment of the
bridge completely:

* a **stand-in solver** (a small script written by the check into a private
  directory) is installed under every supported solver name -- and under an
  unsupported name -- in a private PATH.  It is a real, honest solver: it
  parses the DIMACS text *as the bridge delivered it* (stdin, or the file named
  on its command line), decides it by brute force over all assignments and
  picks the model it is told to pick.  How it *says* what it found is scripted
  by a "reply shape" (environment variable): one / several `v` lines, any
  literal order, comments interleaved, blank lines, CRLF, missing terminator,
  no answer, `s UNKNOWN`, garbage, crash, for the minisat convention the
  result file `SAT\\n1 -2 0` / `UNSAT` / `INDET` / empty / removed, and the
  exit status (10/20, 0, 1).  It adapts to the way it is invoked (no file
  argument = stdin/stdout, one = file-in/stdout, two = file-in/file-out) and
  writes down what it saw (name it was called by, argument vector, the parsed
  formula, the literals it printed) in a log outside the temporary directory.
* every call of `solve()` / `is_satisfiable()` runs in-process with PATH,
  TMPDIR / tempfile.tempdir and the working directory pointing to private
  directories whose complete content is compared before and after the call.

Enumerated exhaustively (no sampling): every supported name (introspected) x
every reply shape of the convention the bridge uses for it x a catalogue of
boundary formulas x every model the solver may report; `cmd=None` with every
subset of installed solvers (bounded size in the quick tier) and every kind of
"not runnable" entry in PATH; `cmd` with options / surrounding blanks /
absolute path; unsupported command with and without `sameas`; every
(cmd, sameas) pair of supported names; bad `sameas`; arguments that are not
CNF objects; verbose levels; the three entry points.

Oracle (only what the property and the docstring of solve() state):
solver answered satisfiable -> `(True, assignment)`, the assignment being the
literals the solver printed, ordered by variable, one per variable, and
satisfying the formula (checked against the formula object, not against the
solver's opinion); unsatisfiable -> `(False, None)`; `is_satisfiable()` gives
the same verdict; no answer / `s UNKNOWN` / garbage / missing or unusable or
unsupported solver -> RuntimeError, unknown `sameas` -> ValueError, not a CNF
-> TypeError -- never a verdict; the private temporary directory and working
directory are identical before and after every call.
"""
import os
import json
import io
import re
import ast
import sys
import shutil
import tempfile
import itertools

from engine import tt, scope
from engine.common import setup_paths

PROPERTY = 'C20'
LEVEL = 'fault_enumeration'
EXHAUSTIVE = True
RULE = ('one case = (installed entries of the private PATH, cmd, sameas, formula, reply shape of '
        'the stand-in solver incl. the model it reports, verbose, entry point); enumerated as the '
        'full product supported name x reply shape (all single deviations from the plain reply, '
        'listed combinations; all pairs and a full product in the thorough tier) x boundary '
        'formulas, plus every subset of installed solvers for cmd=None (size<=3 or >=10 quick, all '
        '2^11 thorough), every non-runnable kind of PATH entry, every (cmd,sameas) pair, bad '
        'sameas values and non-CNF arguments; two calls of one process overlapping: for every '
        'pair of conventions x 5 formula pairs, every placement of a complete second call at each '
        'seam point of the first (before a child is created, after its output was collected) '
        'under a controlled scheduler, compared with the two calls run one after the other.  '
        'Cases are distinct by construction; a case is '
        'non-trivial when a stand-in solver process really answered or a documented refusal is '
        'the expected outcome')
ASSUMPTIONS = [
    'the stand-in solver (brute force over all assignments of the DIMACS text it receives, '
    'validated in every case against engine.tt on the text it logged) plays the role of all '
    'supported solvers; the real binaries are not run, so whether e.g. real glucose prints its '
    'model without an extra option is outside the scope',
    'formulas have at most 11 variables; solver replies are the listed shapes (deviation bound '
    '1 from the plain reply plus listed combinations; bound 2 and one full product in thorough)',
    'the set of supported names is introspected with supported_satsolvers(); the convention used '
    'for a name is observed by a probe call and compared with the conventions the docstrings '
    'state for minisat, lingeling, cryptominisat, sat4j, march (and glucose while the docstring '
    'of solve() says it follows minisat)',
    'for replies the DIMACS output convention leaves open (missing final 0, satisfiable without '
    'any value line, a complete answer with exit status 1) both the answer and RuntimeError are '
    'accepted; only a wrong verdict or an undocumented exception is reported',
]
VACUITY = {
    'solver_names': 11,
    'solve:(True,assignment)': 200,
    'solve:(False,None)': 100,
    'solve:raised:RuntimeError': 100,
    'solve:raised:ValueError': 20,
    'solve:raised:TypeError': 10,
    'interface:stdin_stdout': 100,
    'interface:filein_stdout': 50,
    'interface:filein_fileout': 50,
    'standin_solver_runs': 1000,
    'tempdir_comparisons': 1000,
    'fault_injections': 100,
    'overlap_schedules': 100,
}

ENGINE = 'faults+tt (scripted stand-in solver in a private PATH/TMPDIR)'
TECHNIQUE = ('environment fault enumeration: the bridge really spawns a stand-in solver whose '
             'reply shape, exit status, installation state and reported model are enumerated '
             'exhaustively; results compared with engine.tt and the docstring of solve()')
LEVEL_TEXT = ('Every supported solver name x every reply shape x boundary formulas x call forms is '
              'executed through the real CNF.solve()/is_satisfiable() with a real child process; '
              'the oracle recomputes satisfiability and checks the returned assignment against the '
              'formula, the documented exceptions and the content of the private temporary and '
              'working directories before/after each call.')
LEVEL_NOTE = ('Trusted: the stand-in solver (cross-checked per case against engine.tt) and the '
              'list of reply shapes.  Not covered: behaviour of the real solver binaries, formulas '
              'with more than 11 variables.  Two overlapping calls of one process are explored '
              'only at the granularity of the process-spawning seam (every placement of a complete '
              'second call at a seam point of the first: one preemption); finer interleavings of '
              'real threads are not.')

UNKNOWN = 'c20-mysolver'          # a command that is not a supported solver
CONVS = ('stdin_stdout', 'filein_stdout', 'filein_fileout')

# conventions stated by the docstrings of cnfgen/utils/solver.py (default
# command / examples of the three interface functions)
DOC_CONV = {
    'minisat': 'filein_fileout',
    'lingeling': 'stdin_stdout',
    'cryptominisat': 'stdin_stdout',
    'sat4j': 'filein_stdout',
    'march': 'filein_stdout',
}


def preload():
    setup_paths()
    import cnfgen  # noqa
    conventions()


# =========================================================================
#  the stand-in solver
# =========================================================================
STANDIN_SH = '''#!/bin/sh
# C20 stand-in SAT solver (wrapper): answers the "is it installed" probe at
# once, hands everything else to the python part.
for a in "$@"; do
  if [ "$a" = "--help" ]; then exit 0; fi
done
exec "%(python)s" -ISs "%(py)s" "$0" "$@"
'''

STANDIN_PY = r'''
import os, sys


def parse(data):
    text = data.decode('ascii')
    n = m = None
    toks = []
    for line in text.split('\n'):
        s = line.strip()
        if not s or s[0] == 'c':
            continue
        if s[0] == 'p':
            f = s.split()
            if n is not None or len(f) != 4 or f[1] != 'cnf':
                raise ValueError('bad problem line %r' % line)
            n, m = int(f[2]), int(f[3])
            continue
        if n is None:
            raise ValueError('clause before the problem line')
        toks += [int(t) for t in s.split()]
    if n is None:
        raise ValueError('no problem line')
    clauses, cur = [], []
    for t in toks:
        if t == 0:
            clauses.append(cur)
            cur = []
        else:
            if abs(t) > n:
                raise ValueError('literal %d out of range' % t)
            cur.append(t)
    if cur:
        raise ValueError('last clause not terminated')
    if len(clauses) != m:
        raise ValueError('%d clauses announced, %d found' % (m, len(clauses)))
    return n, clauses


def chunks(lits, k):
    if k <= 0 or not lits:
        return [list(lits)]
    return [lits[i:i + k] for i in range(0, len(lits), k)]


def main(rec):
    argv0 = sys.argv[1]
    args = sys.argv[2:]
    files = [a for a in args if a.startswith('/')]
    conv = ('stdin_stdout', 'filein_stdout', 'filein_fileout')[len(files)] \
        if len(files) <= 2 else 'other'
    fam = 'fo' if conv == 'filein_fileout' else 'so'
    spec = {}
    for kv in os.environ.get('C20_SHAPE', '').split(';'):
        if '=' in kv:
            k, v = kv.split('=', 1)
            spec[k] = v
    fallback = spec.get('fam', 'so') != fam
    if fallback:
        spec = {}
    g = spec.get
    rec.update({'name': os.path.basename(argv0), 'argv': args, 'conv': conv,
                'fallback': fallback})
    out = sys.stdout.buffer
    ans = g('ans', 'honest')
    strict = os.environ.get('C20_STRICT', '')
    if strict:
        # the caller named no command: a solver found on the machine is run the
        # way IT is documented to work; called any other way it fails like the
        # real program would
        import json as _json
        native = _json.loads(strict).get(os.path.basename(argv0))
        if native is not None and native != conv:
            rec['wrong_convention'] = [native, conv]
            out.write(b'usage error: this solver does not work that way\n')
            with open(os.environ['C20_LOG'], 'a') as f:
                f.write(repr(rec) + '\n')
            out.flush()
            sys.exit(1)

    def finish(code, kill=False):
        rec['exit'] = 'KILL' if kill else code
        with open(os.environ['C20_LOG'], 'a') as f:
            f.write(repr(rec) + '\n')
        out.flush()
        if kill:
            os.kill(os.getpid(), 9)
        sys.exit(code)

    if ans == 'early':            # dies before reading its input
        finish(1)
    if conv == 'stdin_stdout' and g('lazy', '0') == '1':
        # a solver that answers as soon as it knows: it stops reading at the
        # first empty clause (a line made of the terminator alone), says
        # UNSATISFIABLE and exits, leaving the rest of its input unread
        got = b''
        while True:
            line = sys.stdin.buffer.readline()
            if not line:
                break
            got += line
            if line.strip() == b'0':
                rec['lazy_stop_after_bytes'] = len(got)
                out.write(b'c empty clause found\ns UNSATISFIABLE\n')
                try:
                    sys.stdin.close()
                except Exception:
                    pass
                finish(20)
        data = got
    elif conv == 'stdin_stdout':
        data = sys.stdin.buffer.read()
    else:
        try:
            with open(files[0], 'rb') as f:
                data = f.read()
        except OSError as e:
            # like a real solver: complain and give up
            rec['parse_error'] = 'cannot read the input file %r: %s' % (files[0], type(e).__name__)
            if fam == 'so':
                out.write(b'c cannot read the input file\ns UNKNOWN\n')
            finish(1)
    try:
        n, clauses = parse(data)
    except Exception as e:
        rec['parse_error'] = '%s: %s; text=%r' % (type(e).__name__, e, data[:200])
        if fam == 'so':
            out.write(b'c parse error\ns UNKNOWN\n')
        finish(1)
    rec['n'] = n
    rec['clauses'] = clauses
    models = []
    for a in range(1 << n):
        for c in clauses:
            for l in c:
                if ((a >> (abs(l) - 1)) & 1) == (l > 0):
                    break
            else:
                break
        else:
            models.append(a)
    sat = bool(models)
    rec['sat'] = sat
    rec['nmodels'] = len(models)
    lits = []
    if sat:
        a = models[int(g('model', '0')) % len(models)]
        lits = [v if (a >> (v - 1)) & 1 else -v for v in range(1, n + 1)]
        if g('omit', '0') == '1':
            used = set(abs(l) for c in clauses for l in c)
            lits = [l for l in lits if abs(l) in used]
        order = g('order', 'asc')
        if order == 'desc':
            lits = lits[::-1]
        elif order == 'rot' and lits:
            lits = lits[1:] + lits[:1]
    rec['lits'] = lits
    ex = g('exit', 'honest')
    code = (10 if sat else 20) if ex == 'honest' else int(ex)
    sep = ' \t ' if g('sp', '0') == '1' else ' '
    eol = b'\r\n' if g('crlf', '0') == '1' else b'\n'
    term = g('term', 'same')
    perline = int(g('perline', '0'))
    blank = g('blank', '0') == '1'
    com = g('com', '0')
    # chatter that is no part of the answer, in an encoding of the solver's choice
    banner = {'latin1': b'c r\xe9solveur version 1.0 \xa9\n', 'utf8': 'c r\u00e9solveur \u2713\n'.encode('utf-8'),
              'none': b''}[g('banner', 'none')]

    if g('err', '0') == '1':
        # what a solver says on its standard error is no part of its answer:
        # a version line, a timing line, and lines that LOOK like an answer --
        # the opposite one
        wrong = b's UNSATISFIABLE\n' if sat else b's SATISFIABLE\nv 1 0\n'
        try:
            os.write(2, b'version 2.3.5\nsolving time 0.01 s\nwarning: stand-in on stderr\n' + wrong)
        except OSError:
            pass

    if fam == 'so':
        if ans == 'silent':
            finish(1)
        if ans == 'unknown':
            out.write(b'c stand-in gives up\ns UNKNOWN\nc bye\n')
            finish(0)
        if ans in ('none', 'none0'):
            out.write(b'c stand-in solver\nc no answer today\n')
            finish(1 if ans == 'none' else 0)
        if ans == 'text':
            out.write(b'hello world\nthis is not dimacs output\n')
            finish(1)
        if ans == 'bare_s':
            out.write(b'c stand-in solver\ns\n')
            finish(1)
        if ans == 's_word':
            out.write(b'c stand-in solver\nsegmentation fault (core dumped)\n')
            finish(1)
        if ans == 'v_token':
            out.write(b's SATISFIABLE\nv 1 x 0\n')
            finish(1)
        if ans == 'nonascii':
            out.write(b'\xff\xfe\x00 garbage \xe9\n')
            finish(1)
        if ans == 'crash':
            out.write(b'c stand-in solver\nc solving\n')
            finish(1, kill=True)
        lines = []
        sline = 's SATISFIABLE' if sat else 's UNSATISFIABLE'
        if sep != ' ':
            sline = sline.replace(' ', sep) + ' '
        vlines = []
        if sat and ans != 'satnomodel':
            parts = chunks([str(l) for l in lits], perline)
            if term == 'same':
                parts[-1] = parts[-1] + ['0']
            elif term == 'own':
                parts.append(['0'])
            vlines = [sep.join(['v'] + p) for p in parts if p]
        body = (vlines + [sline]) if g('vfirst', '0') == '1' else ([sline] + vlines)
        if com == '1':
            lines.append('c stand-in solver 1.0')
            for b in body:
                lines.append(b)
                lines.append('c in between')
            lines.append('c done')
        elif com == '2':
            other = 's UNSATISFIABLE' if sat else 's SATISFIABLE'
            lines.append('c ' + other)
            lines.append('c\t' + other)
            for b in body:
                lines.append('c v 9 -9 0')
                lines.append(b)
                lines.append('c')
            lines.append('cv -1 0')
            lines.append('c s UNKNOWN')
        else:
            lines = body
        if blank:
            nl = ['']
            for b in lines:
                nl.append(b)
                nl.append('')
                nl.append('   ')
            lines = nl
        out.write(banner + eol.join(x.encode('ascii') for x in lines) + eol)
        finish(code)

    # ---- minisat convention: statistics on stdout, answer in the file ----
    out.write(banner + b'============================[ Problem Statistics ]=====\n'
              b'|  Number of variables: %12d   |\n'
              b'solving...\nvalues follow in the result file\n' % n)
    res = files[1]
    if ans == 'missing':
        os.unlink(res)
        finish(1)
    if ans == 'empty' or ans == 'crash':
        open(res, 'wb').close()
        finish(1, kill=(ans == 'crash'))
    if ans == 'indet':
        with open(res, 'wb') as f:
            f.write(b'INDET\n')
        finish(0)
    if ans == 'garbage':
        with open(res, 'wb') as f:
            f.write(b'FOO BAR 1 2 0\n')
        finish(1)
    if ans == 'lower':
        with open(res, 'wb') as f:
            f.write(b'sat\n' + ' '.join(str(l) for l in lits).encode() + b' 0\n')
        finish(1)
    if ans == 'nonascii':
        with open(res, 'wb') as f:
            f.write(b'\xff\xfe\x00 garbage \xe9\n')
        finish(1)
    if sat:
        lines = ['SAT']
        if ans != 'satnomodel':
            parts = chunks([str(l) for l in lits], perline)
            if term == 'same':
                parts[-1] = parts[-1] + ['0']
            elif term == 'own':
                parts.append(['0'])
            lines += [sep.join(p) for p in parts if p]
    else:
        lines = ['UNSAT']
    if g('lead', '0') == '1':
        lines = ['  ' + x for x in lines]
    if blank:
        nl = ['']
        for b in lines:
            nl.append(b)
            nl.append('')
            nl.append('   ')
        lines = nl
    blob = eol.join(x.encode('ascii') for x in lines)
    if g('nonl', '0') != '1':
        blob += eol
    with open(res, 'wb') as f:
        f.write(blob)
    finish(code)


if __name__ == '__main__':
    rec = {}
    try:
        main(rec)
    except SystemExit:
        raise
    except BaseException:
        import traceback
        with open(os.environ['C20_LOG'], 'a') as f:
            f.write(repr({'internal_error': traceback.format_exc()}) + '\n')
        sys.exit(3)
'''


# =========================================================================
#  private environment of one shard
# =========================================================================
class Env:
    """Private PATH / TMPDIR / cwd; everything is restored by close()."""

    def __init__(self):
        base = '/tmp' if os.path.isdir('/tmp') else None
        self.root = tempfile.mkdtemp(prefix='c20_', dir=base)
        j = os.path.join
        self.bin = j(self.root, 'bin')
        self.pa = j(self.root, 'pa')
        self.pb = j(self.root, 'pb')
        self.tmp = j(self.root, 'tmp')
        # a second, legal but awkward temporary directory (blank in the path)
        self.tmp_blank = j(self.root, 'my tmp dir')
        self.tmp_plain = self.tmp
        self.cwd = j(self.root, 'cwd')
        self.log = j(self.root, 'log')
        for d in (self.bin, self.pa, self.pb, self.tmp, self.tmp_blank, self.cwd):
            os.mkdir(d)
        self.py = j(self.bin, 'standin.py')
        self.script = j(self.bin, 'standin.sh')
        with open(self.py, 'w') as f:
            f.write(STANDIN_PY)
        # byte-compiled once per shard: the stand-in starts ~20% faster
        import py_compile
        self.pyc = j(self.bin, 'standin.pyc')
        py_compile.compile(self.py, cfile=self.pyc, doraise=True)
        with open(self.script, 'w') as f:
            f.write(STANDIN_SH % {'python': sys.executable, 'py': self.pyc})
        os.chmod(self.script, 0o755)
        # self-test: the private directory must allow running the stand-in
        import subprocess
        if subprocess.run([self.script, '--help']).returncode != 0:
            shutil.rmtree(self.root, ignore_errors=True)
            raise RuntimeError('cannot execute the stand-in solver in %s' % self.root)
        with open(j(self.tmp, 'c20_keep.txt'), 'w') as f:
            f.write('this file was here before the call\n')
        with open(j(self.tmp_blank, 'c20_keep.txt'), 'w') as f:
            f.write('this file was here before the call\n')
        with open(j(self.cwd, 'c20_keep.txt'), 'w') as f:
            f.write('this file was here before the call\n')
        self._inst = None
        self._saved_env = {k: os.environ.get(k) for k in
                           ('PATH', 'TMPDIR', 'TEMP', 'TMP', 'C20_LOG', 'C20_SHAPE', 'C20_STRICT')}
        self._saved_tempdir = tempfile.tempdir
        self._saved_cwd = os.getcwd()
        self._saved_stderr = sys.stderr
        os.environ['PATH'] = os.pathsep.join([j(self.root, 'no-such-dir'), self.pa, self.pb])
        os.environ['TMPDIR'] = self.tmp
        os.environ.pop('TEMP', None)
        os.environ.pop('TMP', None)
        os.environ['C20_LOG'] = self.log
        tempfile.tempdir = self.tmp
        os.chdir(self.cwd)

    def close(self):
        sys.stderr = self._saved_stderr
        try:
            os.chdir(self._saved_cwd)
        except OSError:
            pass
        tempfile.tempdir = self._saved_tempdir
        for k, v in self._saved_env.items():
            if v is None:
                os.environ.pop(k, None)
            else:
                os.environ[k] = v
        shutil.rmtree(self.root, ignore_errors=True)

    def set_tmp(self, kind):
        self.tmp = self.tmp_blank if kind == 'blank' else self.tmp_plain
        os.environ['TMPDIR'] = self.tmp
        tempfile.tempdir = self.tmp

    def __enter__(self):
        return self

    def __exit__(self, *a):
        self.close()

    # ---- installation states of the names in the private PATH ------------
    def install(self, inst):
        key = repr(inst)
        if key == self._inst:
            return
        for d in (self.pa, self.pb):
            shutil.rmtree(d)
            os.mkdir(d)
        j = os.path.join
        for name, kind in inst:
            a, b = j(self.pa, name), j(self.pb, name)
            if kind == 'ok':
                os.symlink(self.script, a)
            elif kind == 'okb':
                os.symlink(self.script, b)
            elif kind == 'nonexec':
                shutil.copyfile(self.script, a)
                os.chmod(a, 0o644)
            elif kind == 'dir':
                os.mkdir(a)
            elif kind == 'dangling':
                os.symlink(j(self.root, 'nowhere', name), a)
            elif kind == 'badinterp':
                with open(a, 'w') as f:
                    f.write('#!/nonexistent/c20-interpreter\nexit 0\n')
                os.chmod(a, 0o755)
            elif kind == 'shadowed':     # not executable in the first
                shutil.copyfile(self.script, a)   # directory, fine in the second
                os.chmod(a, 0o644)
                os.symlink(self.script, b)
            else:
                raise ValueError('unknown installation kind %r' % (kind,))
        self._inst = key

    # ---- observation -------------------------------------------------------
    def snapshot(self):
        snap = {}
        for top in (self.tmp_plain, self.tmp_blank, self.cwd):
            for dirpath, dirnames, filenames in os.walk(top):
                for d in dirnames:
                    snap[os.path.join(dirpath, d)] = 'dir'
                for fn in filenames:
                    p = os.path.join(dirpath, fn)
                    try:
                        with open(p, 'rb') as f:
                            snap[p] = f.read()
                    except OSError as e:
                        snap[p] = 'unreadable:%s' % type(e).__name__
        return snap

    def restore(self, before, after):
        """Bring the private directories back to `before`."""
        for p in sorted(after, key=len, reverse=True):
            if p not in before:
                try:
                    if after[p] == 'dir':
                        shutil.rmtree(p, ignore_errors=True)
                    else:
                        os.unlink(p)
                except OSError:
                    pass
        for p in sorted(before, key=len):
            if p not in after or after[p] != before[p]:
                if before[p] == 'dir':
                    os.makedirs(p, exist_ok=True)
                else:
                    with open(p, 'wb') as f:
                        f.write(before[p])

    def read_log(self):
        try:
            with open(self.log) as f:
                text = f.read()
        except FileNotFoundError:
            return []
        os.unlink(self.log)
        recs = [ast.literal_eval(line) for line in text.splitlines() if line.strip()]
        for r in recs:
            if 'internal_error' in r:
                raise RuntimeError('stand-in solver failed internally:\n' + r['internal_error'])
        return recs


# =========================================================================
#  reply shapes
# =========================================================================
def spec_str(fam, d):
    items = dict(d)
    items['fam'] = fam
    return ';'.join('%s=%s' % (k, items[k]) for k in sorted(items))


def spec_dict(s):
    out = {}
    for kv in (s or '').split(';'):
        if '=' in kv:
            k, v = kv.split('=', 1)
            out[k] = v
    return out


# single deviations from the plain reply, per dimension
SO_DEV = [
    ('perline', '1'), ('perline', '2'), ('order', 'desc'), ('order', 'rot'),
    ('com', '1'), ('com', '2'), ('blank', '1'), ('term', 'own'), ('vfirst', '1'),
    ('crlf', '1'), ('sp', '1'), ('omit', '1'), ('exit', '0'),
    ('banner', 'latin1'), ('banner', 'utf8'), ('err', '1'),
]
FO_DEV = [
    ('perline', '1'), ('perline', '2'), ('order', 'desc'), ('order', 'rot'),
    ('blank', '1'), ('term', 'own'), ('crlf', '1'), ('sp', '1'), ('omit', '1'),
    ('exit', '0'), ('nonl', '1'), ('lead', '1'),
    ('banner', 'latin1'), ('banner', 'utf8'), ('err', '1'),
]
SO_COMBOS = [
    {'perline': '2', 'com': '1', 'blank': '1'},
    {'perline': '1', 'order': 'desc'},
    {'perline': '2', 'com': '2', 'term': 'own'},
    {'perline': '1', 'order': 'rot', 'vfirst': '1', 'crlf': '1', 'exit': '0'},
]
FO_COMBOS = [
    {'perline': '2', 'blank': '1'},
    {'perline': '1', 'order': 'desc', 'term': 'own'},
    {'order': 'rot', 'crlf': '1', 'nonl': '1', 'exit': '0'},
]
SO_LENIENT = [{'term': 'none'}, {'term': 'none', 'perline': '2'}, {'ans': 'satnomodel'},
              {'exit': '1'}]
FO_LENIENT = [{'term': 'none'}, {'term': 'none', 'perline': '1'}, {'ans': 'satnomodel'},
              {'exit': '1'}]
SO_FAIL = ['unknown', 'none', 'none0', 'silent', 'text', 'bare_s', 's_word', 'v_token',
           'nonascii', 'crash', 'early']
FO_FAIL = ['indet', 'empty', 'missing', 'garbage', 'lower', 'nonascii', 'crash', 'early']
# dimensions that change nothing when the formula is unsatisfiable
SAT_ONLY_DIMS = ('perline', 'order', 'term', 'omit', 'model')


def shapes(fam, tier):
    """[(spec string, applies to 'sat' | 'any', 'core' | 'pair')] for one
    reply family."""
    dev = SO_DEV if fam == 'so' else FO_DEV
    combos = SO_COMBOS if fam == 'so' else FO_COMBOS
    len_ = SO_LENIENT if fam == 'so' else FO_LENIENT
    fail = SO_FAIL if fam == 'so' else FO_FAIL
    out = []
    seen = set()

    def add(d, tag='core'):
        s = spec_str(fam, d)
        if s in seen:
            return
        seen.add(s)
        satonly = all(k in SAT_ONLY_DIMS for k in d) and len(d) > 0
        if d.get('ans') in ('satnomodel', 'v_token'):
            satonly = True
        out.append((s, 'sat' if satonly else 'any', tag))
    add({})
    for k, v in dev:
        add({k: v})
    for c in combos:
        add(c)
    for c in len_:
        add(c)
    for a in fail:
        add({'ans': a})
    if tier == 'thorough':
        for (k1, v1), (k2, v2) in itertools.combinations(dev, 2):
            if k1 != k2:
                add({k1: v1, k2: v2}, 'pair')
    return out


def shape_class(spec, sat):
    """'answer' | 'fail' | 'lenient' for an (effective) spec and the truth."""
    ans = spec.get('ans', 'honest')
    if ans == 'satnomodel':
        return 'lenient' if sat else 'answer'
    if ans != 'honest':
        return 'fail'
    if spec.get('exit') == '1':
        return 'lenient'
    if spec.get('term') == 'none' and sat:
        return 'lenient'
    return 'answer'


def shape_id(spec):
    d = {k: v for k, v in spec.items() if k not in ('fam', 'model')}
    if not d:
        return 'plain'
    if 'ans' in d and d['ans'] != 'honest':
        return d['ans']
    return '+'.join('%s=%s' % (k, d[k]) for k in sorted(d))


# =========================================================================
#  formulas
# =========================================================================
FORMULAS = [
    ('novars', 0, []),                                    # satisfiable, no variables
    ('novars-emptyclause', 0, [[]]),                      # unsatisfiable
    ('one-sat', 1, [[1]]),
    ('one-unsat', 1, [[1], [-1]]),
    ('unused', 3, [[-2]]),                                # variables 1 and 3 never used
    ('three-sat', 3, [[1, -2, 3], [-1, 2], [-3]]),
    ('emptyclause', 2, [[1, 2], []]),                     # unsatisfiable
    ('noclauses', 2, []),
    ('mixed-unique', 4, [[-1], [2], [-3], [4]]),
    ('eleven', 11, [[i if i % 2 == 0 else -i] for i in range(1, 12)]),
    ('two-unsat', 2, [[1, 2], [-1, 2], [1, -2], [-1, -2]]),
    ('odd-clauses', 2, [[1, 1], [1, -1, 2], [-2, -2]]),   # repeated / opposite literals
]
FBYNAME = {f[0]: [f[1], f[2]] for f in FORMULAS}
SEED_EXTRA = [
    [5, [[1, 2], [-2, 3], [-3, 4], [-4, 5], [-5, -1]]],
    [6, [[1, -6], [2, -5], [3, -4], [-1, -2, -3]]],
    [5, [[1], [-1, 2], [-2, 3], [-3, 4], [-4, 5], [-5]]],
    [7, [[7, -6, 5], [-7, 6], [1, 2, 3, 4], [-1, -2], [-3, -4]]],
    [6, [[1, 2, 3], [-1, -2, -3], [4, 5, 6], [-4, -5, -6], [1, -4]]],
    [8, [[i, -(i % 8 + 1)] for i in range(1, 9)]],
]


def expand(F):
    """['BIG', n, head clauses, repeated block, times] -> [n, clauses]: formulas
    whose DIMACS text is larger than a pipe buffer, kept short in the case."""
    if isinstance(F, list) and F and F[0] == 'BIG':
        _, n, head, block, times = F
        return [n, [list(c) for c in head] + [list(c) for c in block] * times]
    return F


def truth(F):
    """(satisfiable, list of model numbers) by engine.tt."""
    n, clauses = expand(F)
    bm = tt.cnf_models(n, [tuple(c) for c in clauses])
    return bool(bm), bm


def nth_model(F, idx, omit=False):
    n, clauses = expand(F)
    sat, bm = truth(F)
    if not sat:
        return None
    cnt = tt.count(bm)
    k = idx % cnt
    a = None
    for i, a in enumerate(tt.models(bm)):
        if i == k:
            break
    lits = [v if (a >> (v - 1)) & 1 else -v for v in range(1, n + 1)]
    if omit:
        used = set(abs(l) for c in clauses for l in c)
        lits = [l for l in lits if abs(l) in used]
    return lits


NONCNF = ['opb', 'list', 'none', 'str', 'int', 'class', 'dict']


def build_formula(F):
    from cnfgen.formula.cnf import CNF
    if isinstance(F, dict):
        kind = F['noncnf']
        if kind == 'opb':
            from cnfgen.formula.opb import OPB
            X = OPB()
            X.update_variable_number(2)
            X.cardinality_geq([1, 2], 1)
            return X
        if kind == 'list':
            return [[1, -2], [2]]
        if kind == 'none':
            return None
        if kind == 'str':
            return 'p cnf 1 1\n1 0\n'
        if kind == 'int':
            return 7
        if kind == 'class':
            return CNF
        if kind == 'dict':
            return {1: True}
        raise KeyError(kind)
    F = expand(F)
    return scope.mk_cnf(F[0], [list(c) for c in F[1]])


# =========================================================================
#  conventions the bridge uses (observed by a probe call, cached)
# =========================================================================
_CONV = {}


def supported():
    from cnfgen.utils.solver import supported_satsolvers
    return list(supported_satsolvers())


def all_ok(names):
    return [[nm, 'ok'] for nm in names] + [[UNKNOWN, 'ok']]


def conventions():
    """name -> convention observed when the bridge is called with cmd=name
    (None when the probe did not reach the stand-in)."""
    if _CONV:
        return _CONV
    setup_paths()
    names = supported()
    conv = {}
    with Env() as env:
        env.install(all_ok(names))
        os.environ['C20_SHAPE'] = ''
        F = scope.mk_cnf(1, [[1]])
        for nm in names:
            sys.stderr = io.StringIO()
            try:
                F.solve(cmd=nm)
            except Exception:
                pass
            finally:
                sys.stderr = env._saved_stderr
            recs = env.read_log()
            conv[nm] = recs[-1]['conv'] if recs and recs[-1].get('name') == nm else None
            after = env.snapshot()
            for p in list(after):
                if not p.endswith('c20_keep.txt'):
                    try:
                        os.unlink(p)
                    except OSError:
                        pass
    _CONV.update(conv)
    return _CONV


def documented_conventions():
    doc = dict(DOC_CONV)
    try:
        from cnfgen.formula.cnf import CNF
        from cnfgen.utils.solver import sat_solve
        text = ' '.join(((CNF.solve.__doc__ or '') + ' ' + (sat_solve.__doc__ or ''))
                        .replace('`', '').split())
        # NOTE (coordinator): the docstrings say glucose is a drop-in replacement
        # of minisat while the interface table maps it to the stdin/stdout
        # convention.  That is an inconsistency of the documentation, not of
        # property C20 (which does not say which solver speaks which
        # convention), so it is deliberately not compared.
    except Exception:
        pass
    return doc


# =========================================================================
#  one case
# =========================================================================
def expand_inst(inst, names):
    if inst == 'ALL':
        return all_ok(names)
    return [list(x) for x in inst]


RUNNABLE = ('ok', 'okb', 'shadowed')


def expectation(case, names, conv):
    """What the property demands, before looking at the reply shape."""
    F = case['F']
    cmd = case.get('cmd')
    sameas = case.get('sameas')
    inst = dict((a, b) for a, b in expand_inst(case['inst'], names))
    noncnf = isinstance(F, dict)
    badsame = sameas is not None and not (isinstance(sameas, str) and sameas in names)

    def usable(nm):
        return inst.get(nm) in RUNNABLE

    if noncnf and badsame:
        return {'kind': 'exc', 'types': ['TypeError', 'ValueError'], 'sit': 'not-cnf+bad-sameas'}
    if noncnf:
        return {'kind': 'exc', 'types': ['TypeError'], 'sit': 'not-cnf'}
    if badsame:
        return {'kind': 'exc', 'types': ['ValueError'], 'sit': 'bad-sameas'}
    if cmd is None or not cmd.split():
        winner = next((nm for nm in names if usable(nm)), None)
        if winner is None:
            return {'kind': 'exc', 'types': ['RuntimeError'], 'sit': 'none-installed'}
        convs = [conv.get(winner)]
        if sameas is not None:          # the docs do not say whether sameas
            convs.append(conv.get(sameas))   # counts without a command line
        return {'kind': 'run', 'runner': winner, 'opts': [], 'convs': convs}
    head = cmd.split()[0]
    opts = cmd.split()[1:]
    base = os.path.basename(head)
    if head not in names and sameas is None:
        return {'kind': 'exc', 'types': ['RuntimeError'], 'sit': 'unsupported-cmd'}
    if head.startswith('@PA@/'):
        ok = inst.get(base) == 'ok'
    else:
        ok = usable(head)
    if not ok:
        return {'kind': 'exc', 'types': ['RuntimeError'], 'sit': 'missing-solver'}
    return {'kind': 'run', 'runner': base, 'opts': opts,
            'convs': [conv.get(sameas if sameas is not None else head)]}


def call(fn):
    """('ret', value) | ('exc', type name, mro names, message)"""
    try:
        return ('ret', fn())
    except Exception as e:
        return ('exc', type(e).__name__, [c.__name__ for c in type(e).__mro__], str(e)[:200])


def describe(o):
    if o[0] == 'ret':
        return 'returned %r' % (o[1],)
    return 'raised %s(%r)' % (o[1], o[3])


def proj(o, pair):
    """Verdict-level projection of an outcome."""
    if o[0] == 'exc':
        return ('exc', o[1])
    v = o[1]
    if pair:
        if isinstance(v, tuple) and len(v) == 2:
            v = v[0]
        else:
            return ('ret', 'not-a-pair')
    return ('ret', repr(v))


def _open_descriptors():
    """Open file descriptors of this process (a call that answers must not keep
    any: after enough calls a reachable solver could no longer be run)."""
    try:
        return len(os.listdir('/proc/self/fd'))
    except OSError:
        return None


class FaultyPopen:
    """Fault injector at the process-spawning seam of the bridge: counts the
    subprocess.Popen calls and makes the k-th one fail -- at construction
    (`spawn`: the program vanished, E2BIG, EMFILE...) or when its output is
    collected (`comm`: communicate() raises).  fault = [k, kind, errno]."""

    def __init__(self, fault):
        self.fault = fault
        self.calls = []

    def __enter__(self):
        import subprocess
        self._real = subprocess.Popen
        me = self

        class Popen(self._real):
            def __init__(p_self, *a, **kw):
                args = kw.get('args', a[0] if a else None)
                idx = len(me.calls)
                probe = bool(args) and list(args)[-1:] == ['--help']
                me.calls.append('probe' if probe else 'run')
                p_self._c20_fail = None
                if me.fault is not None and me.fault[0] == idx:
                    if me.fault[1] == 'spawn':
                        raise OSError(me.fault[2], os.strerror(me.fault[2]))
                    p_self._c20_fail = me.fault[2]
                me._real.__init__(p_self, *a, **kw)

            def communicate(p_self, *a, **kw):
                if p_self._c20_fail is not None:
                    try:
                        me._real.communicate(p_self, *a, **kw)
                    finally:
                        pass
                    raise OSError(p_self._c20_fail, os.strerror(p_self._c20_fail))
                return me._real.communicate(p_self, *a, **kw)
        subprocess.Popen = Popen
        return self

    def __exit__(self, *a):
        import subprocess
        subprocess.Popen = self._real


def execute(case, env, names):
    """Run solve() and is_satisfiable() for the case; returns observations."""
    from cnfgen.formula.cnf import CNF
    from cnfgen.utils.solver import sat_solve
    env.install(expand_inst(case['inst'], names))
    env.set_tmp(case.get('tmpkind', 'plain'))
    os.environ['C20_SHAPE'] = case.get('shape') or ''
    c_ = case.get('cmd')
    if (c_ is None or (isinstance(c_, str) and not c_.split())) and case.get('strict'):
        os.environ['C20_STRICT'] = json.dumps({k_: v_ for k_, v_ in conventions().items() if v_})
    else:
        os.environ['C20_STRICT'] = ''
    X = build_formula(case['F'])
    vandal_ = None
    if case.get('vandal'):
        # the caller asked which solvers are supported and edited the list it
        # was given (filtering it for a report, say): the list is the caller's
        from cnfgen.utils.solver import supported_satsolvers
        lst_ = supported_satsolvers()
        if isinstance(lst_, list):
            vandal_ = (lst_, list(lst_))
            lst_.reverse()
            del lst_[1:]
            lst_.append('c20-not-a-solver')
    cmd = case.get('cmd')
    if isinstance(cmd, str):
        cmd = cmd.replace('@PA@', env.pa)
    sameas = case.get('sameas')
    verbose = case.get('verbose', 0)
    entry = case.get('entry', 'method')
    if entry == 'method':
        def f_solve():
            return X.solve(cmd=cmd, sameas=sameas, verbose=verbose)

        def f_issat():
            return X.is_satisfiable(cmd=cmd, sameas=sameas)
    elif entry == 'function':
        def f_solve():
            return sat_solve(X, cmd=cmd, sameas=sameas, verbose=verbose)

        def f_issat():
            return CNF.is_satisfiable(X, cmd=cmd, sameas=sameas)
    elif entry == 'unbound':
        def f_solve():
            return CNF.solve(X, cmd=cmd, sameas=sameas, verbose=verbose)

        def f_issat():
            return CNF.is_satisfiable(X, cmd=cmd, sameas=sameas)
    else:
        raise KeyError(entry)
    obs = {'root': env.root}
    env.read_log()
    fault = case.get('fault')
    for tag, fn in (('solve', f_solve), ('issat', f_issat)):
        before = env.snapshot()
        cwd0 = os.getcwd()
        fds0 = _open_descriptors()
        sys.stderr = io.StringIO()
        inj = FaultyPopen(fault) if fault is not None or case.get('count_popen') else None
        saved2 = None
        if 'err=1' in (case.get('shape') or ''):
            # the children inherit descriptor 2: keep their chatter off the
            # report of the check
            saved2 = os.dup(2)
            dn = os.open(os.devnull, os.O_WRONLY)
            os.dup2(dn, 2)
            os.close(dn)
        try:
            if inj is not None:
                inj.__enter__()
            o = call(fn)
        finally:
            if inj is not None:
                inj.__exit__()
            sys.stderr = env._saved_stderr
            if saved2 is not None:
                os.dup2(saved2, 2)
                os.close(saved2)
        if inj is not None:
            obs.setdefault('popen', {})[tag] = list(inj.calls)
        after = env.snapshot()
        added = sorted(p for p in after if p not in before)
        removed = sorted(p for p in before if p not in after)
        changed = sorted(p for p in before if p in after and before[p] != after[p])
        cwd1 = os.getcwd()
        if added or removed or changed:
            env.restore(before, after)
        if cwd1 != cwd0:
            os.chdir(cwd0)
        obs[tag] = {'out': o, 'log': env.read_log(), 'added': added, 'removed': removed,
                    'changed': changed, 'cwd_moved': cwd1 != cwd0,
                    'fds': (fds0, _open_descriptors())}
    if vandal_ is not None:
        vandal_[0][:] = vandal_[1]        # (matters only if the list was the library's own)
    return obs


def check_standin(rec):
    """The stand-in must have decided the text it received correctly."""
    if 'n' not in rec:
        return
    sat, bm = truth([rec['n'], rec['clauses']])
    if bool(rec['sat']) != sat or rec['nmodels'] != tt.count(bm):
        raise RuntimeError('stand-in solver and engine.tt disagree on %r' % (rec,))
    if sat and rec['lits']:
        a = tt.assignment_from_true([l for l in rec['lits'] if l > 0])
        full = len(rec['lits']) == rec['n']
        if full and not (bm >> a) & 1:
            raise RuntimeError('stand-in reported a non-model %r' % (rec,))


def judge(case, exp, obs, names):
    """List of violations of one executed case."""
    out = []
    F = case['F']

    def bad(key, what):
        # no run-specific path in a message: replays must be reproducible
        what = re.sub(re.escape(obs['root']) + r'/tmp/tmp[A-Za-z0-9_]+', '<tmpfile>', what)
        what = re.sub(r'tmp/tmp[A-Za-z0-9_]{6,}', 'tmp/<tmpfile>', what)
        what = re.sub(r'my tmp dir/tmp[A-Za-z0-9_]{6,}', 'my tmp dir/<tmpfile>', what)
        out.append({'key': key, 'what': what.replace(obs['root'], '<root>'), 'case': case})

    so = obs['solve']['out']
    io_ = obs['issat']['out']
    log = obs['solve']['log']
    for tag in ('solve', 'issat'):
        for r in obs[tag]['log']:
            check_standin(r)
    rec = log[-1] if log else None
    used_conv = rec['conv'] if rec else 'no-solver-run'

    # ---- temporary files (every call, also the failing ones) --------------
    for tag, api in (('solve', 'solve'), ('issat', 'is_satisfiable')):
        ob = obs[tag]
        lg = ob['log']
        cv = lg[-1]['conv'] if lg else 'no-solver-run'
        when = 'after-answer' if ob['out'][0] == 'ret' else 'after-error'
        rel = lambda ps: [os.path.join(os.path.basename(os.path.dirname(p)), os.path.basename(p))
                          for p in ps]
        if ob['added']:
            bad('tempfiles:%s:%s:leftover' % (cv, when),
                '%s() left %d new file(s) behind in the private temporary/working directory '
                '(%s ...); outcome: %s' % (api, len(ob['added']), rel(ob['added'])[:2],
                                           describe(ob['out'])))
        if ob['removed'] or ob['changed']:
            bad('tempfiles:%s:%s:foreign-file-touched' % (cv, when),
                '%s() removed %r / changed %r which existed before the call' %
                (api, rel(ob['removed']), rel(ob['changed'])))
        if ob['cwd_moved']:
            bad('tempfiles:%s:%s:cwd-changed' % (cv, when), '%s() changed the working directory' % api)

    # ---- documented refusals -------------------------------------------------
    if exp['kind'] == 'exc':
        sit = exp['sit']
        if so[0] == 'ret':
            bad('error:%s:returned-verdict' % sit,
                'solve(cmd=%r, sameas=%r) %s; documented: %s' %
                (case.get('cmd'), case.get('sameas'), describe(so), '/'.join(exp['types'])))
        elif not any(t in so[2] for t in exp['types']):
            bad('error:%s:exception:%s' % (sit, so[1]),
                'solve(cmd=%r, sameas=%r) %s; documented: %s' %
                (case.get('cmd'), case.get('sameas'), describe(so), '/'.join(exp['types'])))
        if proj(so, True) != proj(io_, False):
            bad('is_satisfiable:%s:differs-from-solve' % sit,
                'solve() %s but is_satisfiable() %s' % (describe(so), describe(io_)))
        return out

    # ---- a solver must have been run -------------------------------------------
    sat, bm = truth(F)
    spec = spec_dict(case.get('shape'))
    form = case['grp']
    if rec is not None:
        fam_used = 'fo' if rec['conv'] == 'filein_fileout' else 'so'
        if rec['fallback'] or spec.get('fam', 'so') != fam_used:
            spec = {}
        if rec['name'] != exp['runner']:
            bad('select:%s:wrong-solver' % ('cmd=None' if not (case.get('cmd') or '').split()
                                             else 'cmd=given'),
                'installed (usable) solvers %r, supported order %r: expected %r to be run, the '
                'bridge ran %r' % ([a for a, b in expand_inst(case['inst'], names) if b in RUNNABLE],
                                   names, exp['runner'], rec['name']))
        convs = [c for c in exp['convs'] if c]
        if convs and rec['conv'] not in convs:
            bad('convention:%s:wrong-interface' % form,
                'cmd=%r sameas=%r: the solver was invoked with the %s convention (argv %r), '
                'the bridge uses %s for that name otherwise' %
                (case.get('cmd'), case.get('sameas'), rec['conv'], rec['argv'], convs))
        passed = [a for a in rec['argv'] if not a.startswith('/')]
        if passed != exp['opts']:
            bad('cmdline:%s:options' % rec['conv'],
                'cmd=%r: the solver received the options %r (argv %r), expected %r' %
                (case.get('cmd'), passed, rec['argv'], exp['opts']))
    cls = shape_class(spec, sat)
    sid = shape_id(spec)
    note = ''
    if rec is None:
        note = ' [no stand-in solver was run]'
    elif 'parse_error' in rec:
        note = ' [the solver could not parse what it was given: %s]' % rec['parse_error']
    elif bool(rec.get('sat')) != sat:
        note = ' [the solver was given a different formula: n=%r clauses=%r]' % (
            rec.get('n'), rec.get('clauses'))
    big = isinstance(F, list) and F and F[0] == 'BIG'
    if big:
        F = expand(F)
    ctx = 'formula n=%d clauses=%s, cmd=%r sameas=%r, reply %s via %s%s' % (
        F[0], ('%r... (%d clauses)' % (F[1][:3], len(F[1]))) if big else repr(F[1]),
        case.get('cmd'), case.get('sameas'), sid, used_conv, note)
    truthword = 'sat' if sat else 'unsat'
    n = F[0]

    def witness_problems(w, expected):
        """symptom or None for the second component of a SAT answer."""
        if w is None:
            return 'witness-None'
        if not isinstance(w, (list, tuple)) or not all(type(x) is int for x in w):
            return 'witness-type'
        if any(x == 0 or abs(x) > n for x in w):
            return 'witness-literal-range'
        if [abs(x) for x in w] != sorted(set(abs(x) for x in w)):
            return 'witness-unsorted'
        s = set(w)
        if not all(any(l in s for l in c) for c in F[1]):
            return 'witness-not-satisfying'
        if expected is not None and list(w) != expected:
            return 'witness-differs-from-solver'
        return None

    expected_w = None
    if sat:
        expected_w = sorted(nth_model(F, int(spec.get('model', '0')), spec.get('omit') == '1'),
                            key=abs)

    if cls == 'fail':
        if so[0] == 'ret':
            bad('solve:%s:reply=%s:returned-verdict' % (used_conv, sid),
                'the solver gave no usable answer but solve() %s; %s' % (describe(so), ctx))
        elif 'RuntimeError' not in so[2]:
            bad('solve:%s:reply=%s:exception:%s' % (used_conv, sid, so[1]),
                'the solver gave no usable answer; solve() %s instead of the documented '
                'RuntimeError; %s' % (describe(so), ctx))
    else:
        lenient = cls == 'lenient'
        if so[0] == 'exc':
            if not (lenient and 'RuntimeError' in so[2]):
                bad('solve:%s:%s:exception:%s' % (used_conv, truthword, so[1]),
                    'solve() %s; %s' % (describe(so), ctx))
        else:
            v = so[1]
            if not (isinstance(v, tuple) and len(v) == 2):
                bad('solve:%s:%s:not-a-pair' % (used_conv, truthword),
                    'solve() %s; %s' % (describe(so), ctx))
            elif sat:
                if v[0] is not True:
                    bad('solve:%s:sat:verdict' % used_conv,
                        'solver answered SATISFIABLE, solve() %s; %s' % (describe(so), ctx))
                elif lenient and spec.get('ans') == 'satnomodel':
                    pass        # the solver printed no values: nothing to demand
                else:
                    sym = witness_problems(v[1], expected_w)
                    if sym == 'witness-None' and expected_w == []:
                        bad('solve:sat:no-variables:witness-None',
                            'satisfiable formula without variables (or solver reporting no '
                            'value): solve() %s, documented (True, assignment); %s' %
                            (describe(so), ctx))
                    elif sym:
                        bad('solve:%s:sat:%s' % (used_conv, sym),
                            'solve() %s, the solver printed %r (expected assignment %r); %s' %
                            (describe(so), rec.get('lits') if rec else None, expected_w, ctx))
            else:
                if v[0] is not False:
                    bad('solve:%s:unsat:verdict' % used_conv,
                        'solver answered UNSATISFIABLE, solve() %s; %s' % (describe(so), ctx))
                elif v[1] is not None:
                    bad('solve:%s:unsat:witness-not-None' % used_conv,
                        'solve() %s, documented (False, None); %s' % (describe(so), ctx))

    # ---- is_satisfiable gives the same verdict ---------------------------------
    if proj(so, True) != proj(io_, False):
        bad('is_satisfiable:%s:differs-from-solve' % used_conv,
            'solve() %s but is_satisfiable() %s; %s' % (describe(so), describe(io_), ctx))
    return out


FAULT_KINDS = [['spawn', 2], ['spawn', 7], ['spawn', 24], ['comm', 32]]   # ENOENT E2BIG EMFILE EPIPE


def judge_fault(case, obs):
    """One injected failure of the process-spawning seam: a failing solver
    raises the documented RuntimeError (a failing *probe* may also make the
    bridge move on to another installed solver and answer correctly); never a
    wrong verdict, never another exception, never a leftover file."""
    out = []
    F = case['F']
    k, kind, eno = case['fault']

    def bad(key, what):
        what = re.sub(r'tmp[A-Za-z0-9_]{6,}', '<tmpfile>', what)
        out.append({'key': key, 'what': what.replace(obs['root'], '<root>'), 'case': case})
    sat, bm = truth(F)
    for tag, api in (('solve', 'solve'), ('issat', 'is_satisfiable')):
        ob = obs[tag]
        calls = obs['popen'][tag]
        if k >= len(calls):
            continue            # this call spawns fewer processes: nothing injected
        hit = calls[k]
        where = '%s:%s-%d' % (hit, kind, eno)
        ctx = '%s(cmd=%r) with the %s process #%d failing (%s, errno %d); processes: %r' % (
            api, case.get('cmd'), hit, k, kind, eno, calls)
        if ob['added']:
            bad('fault:%s:tempfiles:leftover' % where,
                '%s left %d file(s) behind; outcome: %s' % (ctx, len(ob['added']), describe(ob['out'])))
        if ob['removed'] or ob['changed'] or ob['cwd_moved']:
            bad('fault:%s:tempfiles:foreign-file-touched' % where, ctx)
        o = ob['out']
        if o[0] == 'exc':
            if 'RuntimeError' not in o[2]:
                bad('fault:%s:exception:%s' % (where, o[1]),
                    '%s: %s instead of the documented RuntimeError' % (ctx, describe(o)))
            continue
        if hit == 'run':
            bad('fault:%s:returned-verdict' % where,
                '%s: the solver run failed but the call %s' % (ctx, describe(o)))
            continue
        v = o[1]
        if tag == 'solve':
            ok = isinstance(v, tuple) and len(v) == 2 and v[0] is sat and \
                ((v[1] is None) if not sat else (
                    isinstance(v[1], list) and
                    all(any(l in set(v[1]) for l in c) for c in F[1])))
        else:
            ok = v is sat
        if not ok:
            bad('fault:%s:wrong-verdict' % where, '%s: %s for a%s formula' % (
                ctx, describe(o), ' satisfiable' if sat else 'n unsatisfiable'))
    return out


def run_fault_family(case, env, names, conv, R):
    """All single failures of the process-spawning seam for one call."""
    base = {k_: v for k_, v in case.items() if k_ != 'faultfamily'}
    clean = execute(dict(base, count_popen=True), env, names)
    npts = max(len(clean['popen']['solve']), len(clean['popen']['issat']))
    vs = []
    R.stats['fault_families'] += 1
    if clean['solve']['out'][0] != 'ret':
        # the call fails even without an injected fault: that is a finding of
        # the ordinary oracle, not of the fault enumeration
        return judge(base, expectation(base, names, conv), clean, names)
    for k in range(npts):
        for kind, eno in FAULT_KINDS:
            c = dict(base, fault=[k, kind, eno])
            obs = execute(c, env, names)
            if obs['popen']['solve'][:k + 1] != clean['popen']['solve'][:k + 1]:
                raise RuntimeError('fault run diverged before the fault point: %r' % (c,))
            got = judge_fault(c, obs)
            vs.extend(got)
            R.stats['fault_injections'] += 1
            R.stats['api_calls'] += 2
            R.stats['tempdir_comparisons'] += 2
            o = obs['solve']['out']
            R.outcomes['fault:%s:%s' % (clean['popen']['solve'][k], 'raised:' + o[1] if o[0] == 'exc'
                                        else 'answered')] += 1
            R.case(sample=c if k == 0 and kind == 'spawn' and eno == 2 else None, nontrivial=True)
    return vs


class _NullR:
    def __init__(self):
        import collections
        self.stats = collections.Counter()
        self.outcomes = collections.Counter()

    def case(self, **kw):
        pass


REPEAT = 12


def run_repeat(case, env, names, conv, R):
    """The same call many times in one process: every call must keep
    answering, and the number of open file descriptors must not grow with the
    number of calls (a single call may leave a probe process to be reaped by
    the next one, so the per-call difference is not judged)."""
    base = {k_: v for k_, v in case.items() if k_ != 'repeat'}
    exp = expectation(base, names, conv)
    vs = []
    f_start = None
    for i in range(REPEAT):
        obs = execute(base, env, names)
        if i == 2:
            f_start = obs['solve']['fds'][1]
        got = judge(base, exp, obs, names)
        if got:
            for v in got:
                v['what'] += ' [call #%d of %d in a row]' % (i + 1, REPEAT)
            vs.extend(got[:2])
            break
        R.stats['api_calls'] += 2
        R.stats['tempdir_comparisons'] += 2
    else:
        import gc
        gc.collect()
        f_end = _open_descriptors()
        if f_start is not None and f_end is not None and f_end - f_start >= (REPEAT - 3):
            vs.append({'key': 'resources:%s:descriptor-leak' % conv.get((base.get('cmd') or '').split()[0]
                                                                        if base.get('cmd') else None, 'default'),
                       'what': '%d calls of solve()/is_satisfiable(cmd=%r) in a row raised the number of open '
                               'file descriptors from %d to %d: a long-running process ends up unable to run '
                               'a reachable solver' % (2 * (REPEAT - 3), base.get('cmd'), f_start, f_end),
                       'case': dict(case)})
    R.stats['repeat_families'] += 1
    R.case(sample=case, nontrivial=True)
    return vs


class SeamScheduler:
    """Controlled scheduler at the process-spawning seam of the bridge.  Call A
    runs on the main thread; at its k-th seam point (just before a child
    process is created, or just after the output of one was collected) call B
    -- another thread of the same process in real life -- is scheduled and
    runs to completion; then A resumes.  point = None only records the seam
    points of A.  Nested seam points (those of B) are not scheduling points:
    one preemption of A, B never preempted."""

    def __init__(self, point, other):
        self.point = point
        self.other = other
        self.events = []
        self.other_out = None
        self._busy = False

    def _at(self, label):
        if self._busy:
            return
        idx = len(self.events)
        self.events.append(label)
        if self.point is not None and idx == self.point:
            self._busy = True
            try:
                self.other_out = call(self.other)
            finally:
                self._busy = False

    def __enter__(self):
        import subprocess
        self._real = subprocess.Popen
        me = self

        class Popen(self._real):
            def __init__(p_self, *a, **kw):
                args = kw.get('args', a[0] if a else None)
                probe = bool(args) and list(args)[-1:] == ['--help']
                p_self._c20_kind = 'probe' if probe else 'run'
                me._at('before-spawn:' + p_self._c20_kind)
                me._real.__init__(p_self, *a, **kw)

            def communicate(p_self, *a, **kw):
                r = me._real.communicate(p_self, *a, **kw)
                me._at('after-collect:' + p_self._c20_kind)
                return r
        subprocess.Popen = Popen
        return self

    def __exit__(self, *a):
        import subprocess
        subprocess.Popen = self._real


def run_overlap(case, env, names, conv, R):
    """Two calls of solve() in one process, overlapping: every placement of a
    complete call B inside call A at the seam points of A (one preemption).
    Oracle: both calls return what they return when run one after the other
    (which the ordinary cases judge), and the private directories are as
    before."""
    from cnfgen.utils.solver import sat_solve
    env.install(expand_inst('ALL', names))
    env.set_tmp('plain')
    os.environ['C20_SHAPE'] = ''
    os.environ['C20_STRICT'] = ''
    ov = case['overlap']
    XA = build_formula(case['F'])
    XB = build_formula(ov['F'])
    entry = ov.get('entry', 'solve')

    def fa():
        return XA.solve(cmd=case['cmd']) if entry == 'solve' else XA.is_satisfiable(cmd=case['cmd'])

    def fb():
        return XB.solve(cmd=ov['cmd']) if ov.get('entryB', 'solve') == 'solve' \
            else XB.is_satisfiable(cmd=ov['cmd'])

    def quiet(fn, sched=None):
        sys.stderr = io.StringIO()
        try:
            if sched is None:
                return call(fn)
            with sched:
                return call(fn)
        finally:
            sys.stderr = env._saved_stderr

    env.read_log()
    seqA = quiet(fa)
    seqB = quiet(fb)
    rec = SeamScheduler(None, fb)
    again = quiet(fa, rec)
    env.read_log()
    if again != seqA:
        raise RuntimeError('call A is not reproducible: %r / %r' % (seqA, again))
    vs = []
    R.stats['overlap_families'] += 1
    for k, label in enumerate(rec.events):
        before = env.snapshot()
        sch = SeamScheduler(k, fb)
        gotA = quiet(fa, sch)
        gotB = sch.other_out
        after = env.snapshot()
        env.read_log()
        if sch.events[:k + 1] != rec.events[:k + 1]:
            raise RuntimeError('overlapped run diverged before the scheduling point: %r' % (case,))
        R.stats['overlap_schedules'] += 1
        R.stats['api_calls'] += 2
        R.stats['tempdir_comparisons'] += 1
        R.outcomes['overlap:at:' + label] += 1
        R.case(sample=case if k == 0 else None, nontrivial=True)
        ca = conv.get(case['cmd'].split()[0], 'default') if case['cmd'] else 'default'
        cb = conv.get(ov['cmd'].split()[0], 'default') if ov['cmd'] else 'default'
        where = ('solve(cmd=%r) on %r, with a second call solve(cmd=%r) on %r of the same process '
                 'running to completion at the point "%s" (#%d) of the first'
                 % (case['cmd'], case['F'], ov['cmd'], ov['F'], label, k))
        if gotA != seqA:
            vs.append({'key': 'overlap:%s+%s:first-call:differs-from-sequential' % (ca, cb),
                       'what': '%s: the first call %s; alone it %s'
                               % (where, describe(gotA), describe(seqA)), 'case': dict(case)})
        if gotB != seqB:
            vs.append({'key': 'overlap:%s+%s:second-call:differs-from-sequential' % (ca, cb),
                       'what': '%s: the second call %s; alone it %s'
                               % (where, describe(gotB) if gotB else 'did not run', describe(seqB)),
                       'case': dict(case)})
        if after != before:
            diff = sorted(set(p_ for p_ in after if after.get(p_) != before.get(p_)) |
                          set(p_ for p_ in before if p_ not in after))
            env.restore(before, after)
            vs.append({'key': 'overlap:%s+%s:temporary-files' % (ca, cb),
                       'what': '%s: files left / changed: %r' % (where, diff[:4]), 'case': dict(case)})
        if vs:
            break
    return vs


def run_case(case, env, names, conv, R=None):
    if case.get('overlap'):
        return run_overlap(case, env, names, conv, R if R is not None else _NullR())
    if case.get('repeat'):
        return run_repeat(case, env, names, conv, R if R is not None else _NullR())
    if case.get('faultfamily'):
        return run_fault_family(case, env, names, conv, R if R is not None else _NullR())
    if case.get('fault') is not None:
        return judge_fault(case, execute(case, env, names))
    exp = expectation(case, names, conv)
    obs = execute(case, env, names)
    vs = judge(case, exp, obs, names)
    if R is not None:
        runs = len(obs['solve']['log']) + len(obs['issat']['log'])
        R.stats['standin_solver_runs'] += runs
        R.stats['api_calls'] += 2
        R.stats['tempdir_comparisons'] += 2
        so = obs['solve']['out']
        if so[0] == 'exc':
            R.outcomes['solve:raised:' + so[1]] += 1
        else:
            v = so[1]
            if isinstance(v, tuple) and len(v) == 2:
                R.outcomes['solve:(%r,%s)' % (v[0], 'None' if v[1] is None else 'assignment')] += 1
            else:
                R.outcomes['solve:other-value'] += 1
        io_ = obs['issat']['out']
        R.outcomes['is_satisfiable:' + ('raised:' + io_[1] if io_[0] == 'exc' else repr(io_[1])[:20])] += 1
        for r in obs['solve']['log']:
            R.outcomes['interface:' + r['conv']] += 1
            R.outcomes['ran-as:' + r['name']] += 1
        R.outcomes['group:' + case['grp']] += 1
        if exp['kind'] == 'exc':
            R.outcomes['expected-refusal:' + exp['sit']] += 1
        nontrivial = bool(obs['solve']['log']) or exp['kind'] == 'exc'
        R.case(sample=case if R.evals % 211 == 0 else None, nontrivial=nontrivial)
    return vs


def replay(case):
    setup_paths()
    names = supported()
    conv = conventions()
    with Env() as env:
        if case.get('grp') == 'documented-convention':
            return check_documented(names, conv, case)
        return run_case(case, env, names, conv)


def check_documented(names, conv, case=None):
    """The convention observed for a name must be the documented one."""
    out = []
    doc = documented_conventions()
    for nm in sorted(doc):
        if case is not None and case.get('name') != nm:
            continue
        if nm in names and conv.get(nm) is not None and conv[nm] != doc[nm]:
            out.append({'key': 'convention:%s:used=%s:documented=%s' % (nm, conv[nm], doc[nm]),
                        'what': 'solve(cmd=%r) talks to the solver with the %s convention; the '
                                'docstrings of cnfgen.utils.solver / CNF.solve say %r follows the %s '
                                'convention' % (nm, conv[nm], nm, doc[nm]),
                        'case': {'grp': 'documented-convention', 'name': nm}})
    return out


# =========================================================================
#  enumeration
# =========================================================================
def mk(grp, F, cmd=None, sameas=None, inst='ALL', shape='', verbose=0, entry='method'):
    c = {'grp': grp, 'F': F, 'cmd': cmd, 'sameas': sameas, 'inst': inst, 'shape': shape}
    if verbose:
        c['verbose'] = verbose
    if entry != 'method':
        c['entry'] = entry
    return c


def fam_of(conv, nm):
    return 'fo' if conv.get(nm) == 'filein_fileout' else 'so'


def representatives(names, conv):
    """One supported name per convention in use (first in supported order)."""
    reps = []
    seen = set()
    for nm in names:
        c = conv.get(nm)
        if c not in seen:
            seen.add(c)
            reps.append(nm)
    return reps


def all_cases(tier, seed):
    thorough = tier == 'thorough'
    names = supported()
    conv = conventions()
    reps = representatives(names, conv)
    cases = []
    sat_f = [[f[1], f[2]] for f in FORMULAS if truth([f[1], f[2]])[0]]
    unsat_f = [[f[1], f[2]] for f in FORMULAS if not truth([f[1], f[2]])[0]]
    F_SAT = FBYNAME['three-sat']
    F_UNSAT = FBYNAME['one-unsat']
    F_ZERO = FBYNAME['novars']
    trio = [F_SAT, F_UNSAT, F_ZERO]

    # A. every supported name x every reply shape x formulas -----------------
    for nm in names:
        fam = fam_of(conv, nm)
        for (s, applies, tag) in shapes(fam, tier):
            pairwise = tag == 'pair'
            fs = list(sat_f)
            if applies == 'any':
                fs += unsat_f
            if pairwise:      # bound-2 deviations: the formulas that exercise layout
                fs = [FBYNAME['three-sat'], FBYNAME['unused'], FBYNAME['mixed-unique'],
                      FBYNAME['novars'], FBYNAME['eleven']]
                if applies == 'any':
                    fs += [F_UNSAT, FBYNAME['novars-emptyclause']]
            for F in fs:
                cases.append(mk('shape', F, cmd=nm, shape=s))

    # B. every model the solver may report -----------------------------------
    for nm in (names if thorough else reps):
        fam = fam_of(conv, nm)
        for F in sat_f:
            cnt = tt.count(truth(F)[1])
            if cnt < 2:
                continue
            for idx in range(1, cnt):      # model 0 is in group A
                for extra in ({}, {'order': 'desc', 'perline': '1'}):
                    d = dict(extra)
                    d['model'] = str(idx)
                    cases.append(mk('model', F, cmd=nm, shape=spec_str(fam, d)))

    # B'. formulas whose text exceeds a pipe buffer (64 KiB), also with a solver
    # that answers at the first empty clause and leaves the rest unread
    blk = [[1, 2, 3], [-1, 2], [-2, 3], [1, -3]]
    for nm in reps:
        fam = fam_of(conv, nm)
        cases.append(mk('big', ['BIG', 3, [], blk, 5000], cmd=nm, shape=spec_str(fam, {})))
        cases.append(mk('big', ['BIG', 3, [[]], blk, 5000], cmd=nm, shape=spec_str(fam, {})))
        cases.append(mk('big', ['BIG', 3, [[1], []], blk, 5000], cmd=nm, shape=spec_str(fam, {'lazy': '1'})))
        cases.append(mk('big', ['BIG', 3, [], blk, 5000], cmd=nm, shape=spec_str(fam, {'lazy': '1'})))

    # C. cmd=None: which installed solver answers ------------------------------
    k = len(names)
    subsets = []
    for r in range(k + 1):
        if thorough or r <= 3 or r >= k - 1:
            subsets += list(itertools.combinations(range(k), r))
    for sub in subsets:
        inst = [[names[i], 'ok' if (i + len(sub)) % 2 == 0 else 'okb'] for i in sub]
        F = F_SAT if len(sub) % 2 == 0 else F_UNSAT
        cases.append(mk('select', F, cmd=None, inst=inst))
    for i in range(k):              # blank command lines behave like None
        for cmd in ('', '   ', '\t'):
            cases.append(mk('select-blank-cmd', F_SAT, cmd=cmd, inst=[[names[i], 'ok']]))
    for cmd in ('', '   '):
        cases.append(mk('select-blank-cmd', F_SAT, cmd=cmd, inst=[]))
    # the caller edited the list supported_satsolvers() gave it
    for nm in reps:
        for F_ in (F_SAT, F_UNSAT):
            c_ = mk('vandal', F_, cmd=nm, shape=spec_str(fam_of(conv, nm), {}))
            c_['vandal'] = True
            cases.append(c_)
            c_ = mk('vandal', F_, cmd=None, inst=[[nm, 'ok']])
            c_['vandal'] = True
            cases.append(c_)
            c_ = mk('vandal', F_, cmd='c20-mysolver', sameas=nm)
            c_['vandal'] = True
            cases.append(c_)
    # no command but a `sameas`: the solver found is still run its own way (the
    # stand-ins are strict here: each speaks only the convention of its name)
    for i in range(k):
        for j in range(k):
            if conv.get(names[i]) and conv.get(names[j]) and conv[names[i]] != conv[names[j]]:
                for cmd in (None, '', '  '):
                    c_ = mk('select-sameas', F_SAT if (i + j) % 2 else F_UNSAT, cmd=cmd, sameas=names[j],
                            inst=[[names[i], 'ok']])
                    c_['strict'] = True
                    cases.append(c_)
    kinds = ['nonexec', 'dir', 'dangling', 'badinterp', 'shadowed']
    for i in range(k):
        nxt = names[(i + 1) % k]
        for kind in kinds:
            # asked for by name
            for F in (F_SAT, F_UNSAT):
                cases.append(mk('entry-kind', F, cmd=names[i], inst=[[names[i], kind], [nxt, 'ok']]))
            # cmd=None must skip what cannot be run
            cases.append(mk('select-kind', F_SAT, cmd=None, inst=[[names[i], kind], [nxt, 'okb']]))
            cases.append(mk('select-kind', F_UNSAT, cmd=None, inst=[[names[i], kind]]))
    for i in range(k):              # sameas without a command line
        for F in (F_SAT, F_UNSAT):
            cases.append(mk('select-sameas', F, cmd=None, sameas=names[i],
                            inst=[[names[(i + 3) % k], 'ok'], [names[(i + 5) % k], 'okb']]))

    # C'. failures of the process-spawning seam (fault point x errno) ---------
    for nm in reps:
        for F in trio:
            for cmd, inst in ((nm, 'ALL'), (None, [[nm, 'ok']]), (None, 'ALL'),
                              (nm + ' --opt', [[nm, 'okb']])):
                c = mk('faultpoints', F, cmd=cmd, inst=inst)
                c['faultfamily'] = True
                cases.append(c)

    # C''. many calls in a row in one process -----------------------------------
    for nm in reps:
        for F in (F_SAT, F_UNSAT):
            c = mk('repeat', F, cmd=nm)
            c['repeat'] = True
            cases.append(c)
    c = mk('repeat', F_SAT, cmd=None, inst='ALL')
    c['repeat'] = True
    cases.append(c)

    # C'''. two calls of one process overlapping at the process-spawning seam ------
    for nmA in reps:
        for nmB in reps:
            for FA, FB in ((F_SAT, F_UNSAT), (F_UNSAT, F_SAT), (F_SAT, FBYNAME['mixed-unique']),
                           (FBYNAME['unused'], F_SAT), (F_ZERO, F_UNSAT)):
                c = mk('overlap', FA, cmd=nmA)
                c['overlap'] = {'F': FB, 'cmd': nmB}
                cases.append(c)
        c = mk('overlap', F_SAT, cmd=None)
        c['overlap'] = {'F': F_UNSAT, 'cmd': nmA}
        cases.append(c)
        c = mk('overlap', F_UNSAT, cmd=nmA)
        c['overlap'] = {'F': F_SAT, 'cmd': nmA, 'entry': 'issat', 'entryB': 'issat'}
        cases.append(c)

    # D. command lines -----------------------------------------------------------
    for nm in names:
        for cmd in (nm + ' --opt', nm + ' -a -b=3 --c', '  ' + nm + '  ', nm + '\t-x', nm + ' \n -y'):
            for F in trio:
                cases.append(mk('cmd-options', F, cmd=cmd))
        fam = fam_of(conv, nm)
        for s in ({'ans': 'unknown'} if fam == 'so' else {'ans': 'indet'},):
            cases.append(mk('cmd-options', F_SAT, cmd=nm + ' --opt', shape=spec_str(fam, s)))
        # missing solver
        for F in trio:
            cases.append(mk('missing', F, cmd=nm, inst=[]))
            cases.append(mk('missing', F, cmd=nm + ' --opt',
                            inst=[[x, 'ok'] for x in names if x != nm]))
        cases.append(mk('missing', F_SAT, cmd=nm, inst=[], entry='function'))
        # unsupported command, with and without sameas
        for F in trio:
            cases.append(mk('sameas', F, cmd=UNKNOWN, sameas=nm))
            cases.append(mk('sameas', F, cmd=UNKNOWN + ' --opt -z', sameas=nm))
            cases.append(mk('sameas', F, cmd='@PA@/' + UNKNOWN, sameas=nm))
            cases.append(mk('sameas', F, cmd='@PA@/' + nm + ' -q', sameas=nm))
            cases.append(mk('sameas-missing', F, cmd=UNKNOWN, sameas=nm,
                            inst=[[x, 'ok'] for x in names]))
        cases.append(mk('unsupported', F_SAT, cmd='@PA@/' + nm))
        for s, applies, tag in (shapes(fam, 'quick') if (thorough or nm in reps) else []):
            cases.append(mk('sameas-shape', FBYNAME['mixed-unique'], cmd=UNKNOWN, sameas=nm, shape=s))
            if applies == 'any':
                cases.append(mk('sameas-shape', FBYNAME['emptyclause'], cmd=UNKNOWN, sameas=nm, shape=s))
        # every pair (supported command, sameas)
        for other in names:
            cases.append(mk('sameas-pair', F_SAT if (len(nm) + len(other)) % 2 else F_UNSAT,
                            cmd=nm, sameas=other))
    for F in trio:
        for cmd in (UNKNOWN, UNKNOWN + ' --opt', 'no-such-solver-c20', '@PA@/' + UNKNOWN, '/bin/true',
                    'Minisat', 'minisat2', 'lingeling.sh'):
            cases.append(mk('unsupported', F, cmd=cmd))
            cases.append(mk('unsupported', F, cmd=cmd, entry='function'))
        for nm in reps:
            cases.append(mk('sameas-missing', F, cmd='no-such-solver-c20', sameas=nm))

    # E. bad sameas ------------------------------------------------------------------
    bads = ['nosuch', '', 'Minisat', 'minisat ', ' lingeling', 'minisat,glucose', 5, 'sat4j.jar', 'None']
    for b in bads:
        for cmd in [None, '', UNKNOWN, UNKNOWN + ' --opt', 'no-such-solver-c20'] + names:
            for F in (F_SAT, F_UNSAT):
                cases.append(mk('bad-sameas', F, cmd=cmd, sameas=b))
        cases.append(mk('bad-sameas', F_SAT, cmd=None, sameas=b, inst=[]))
        cases.append(mk('bad-sameas', F_SAT, cmd=names[0], sameas=b, entry='function'))

    # F. not a CNF ---------------------------------------------------------------------
    for kind in NONCNF:
        for entry in ('function', 'unbound'):
            for cmd in [None, UNKNOWN] + reps:
                for sameas in (None, reps[-1], 'nosuch'):
                    cases.append(mk('not-cnf', {'noncnf': kind}, cmd=cmd, sameas=sameas, entry=entry))
            cases.append(mk('not-cnf', {'noncnf': kind}, cmd=None, inst=[], entry=entry))

    # G. verbose levels and entry points --------------------------------------------------
    for nm in (names if thorough else reps):
        fam = fam_of(conv, nm)
        specs = [{}, {'perline': '1', 'order': 'desc'},
                 {'ans': 'unknown'} if fam == 'so' else {'ans': 'empty'}]
        for verbose in (1, 2, -1):
            for d in specs:
                for F in trio + [FBYNAME['emptyclause'], FBYNAME['unused']]:
                    cases.append(mk('verbose', F, cmd=nm, shape=spec_str(fam, d), verbose=verbose))
        for entry in ('function', 'unbound'):
            for d in specs:
                for F in [f for f in sat_f + unsat_f]:
                    cases.append(mk('entry-point', F, cmd=nm, shape=spec_str(fam, d), entry=entry))
            for F in trio:
                cases.append(mk('entry-point', F, cmd=None, inst=[[nm, 'okb']], entry=entry))

    # H. thorough: the full product of reply dimensions for one name per convention ------
    if thorough:
        for nm in reps:
            fam = fam_of(conv, nm)
            dev = SO_DEV if fam == 'so' else FO_DEV
            dims = {}
            for kk, vv in dev:
                dims.setdefault(kk, [None]).append(vv)
            keys = sorted(dims)
            for combo in itertools.product(*[dims[kk] for kk in keys]):
                d = {kk: vv for kk, vv in zip(keys, combo) if vv is not None}
                if len(d) <= 2:
                    continue            # already in group A
                cases.append(mk('shape-product', FBYNAME['mixed-unique'], cmd=nm, shape=spec_str(fam, d)))

    # seed: a few extra mid-size formulas, never replacing the core ------------------------
    for i in range(2):
        F = SEED_EXTRA[(seed + i) % len(SEED_EXTRA)]
        for nm in reps:
            fam = fam_of(conv, nm)
            for d in ({}, {'perline': '2', 'order': 'desc'}):
                c = mk('seed-extra', F, cmd=nm, shape=spec_str(fam, d))
                cases.append(c)
    cases = [c for c in cases if c is not None]
    # distinct by construction, but make sure (the enumeration above may meet
    # the same combination twice through different groups)
    seen = set()
    uniq = []
    for c in cases:
        key = repr(sorted((k2, repr(v2)) for k2, v2 in c.items() if k2 != 'grp'))
        if key in seen:
            continue
        seen.add(key)
        uniq.append(c)
    # every third case runs with a temporary directory whose path contains
    # blanks (legal; the bridge builds command lines that mention its files)
    for i, c in enumerate(uniq):
        if i % 3 == 1:
            c['tmpkind'] = 'blank'
    return uniq


def shards(tier, seed):
    setup_paths()
    cs = all_cases(tier, seed)
    k = 64 if tier == 'thorough' else 48
    out = [('s%03d' % i, 'run_cases', chunk) for i, chunk in enumerate(scope.stripe(cs, k))]
    out.append(('s999-documented', 'run_documented', []))
    return out


def run_cases(chunk, R):
    names = supported()
    conv = conventions()
    with Env() as env:
        for case in chunk:
            R.extend(run_case(case, env, names, conv, R))


def run_documented(args, R):
    names = supported()
    conv = conventions()
    R.stats['solver_names'] = len(names)
    doc = documented_conventions()
    for nm in sorted(doc):
        R.case(sample={'grp': 'documented-convention', 'name': nm}, nontrivial=conv.get(nm) is not None)
        R.outcomes['documented-convention:%s' % doc[nm]] += 1
    R.extend(check_documented(names, conv))


def coverage_extra(tier, stats, outcomes):
    return {'solver_conventions_observed': dict(_CONV)}
