"""C15  Graph constructions on the command line deliver the structure they name.

Every graph specification of a box (each construction and modifier of the
three graph types x numeric arguments inside and just outside the legal range,
too few / too many arguments, `save` in every format) is given to the real
`make_graph_from_spec`, and for the random ones EVERY sequence of answers of the
random generator is explored (engine.xp: state hashing on the sampler's own
frames for cnfgen's retry loops; deviation bound for networkx's regular-graph
generator).  Every completed execution must be a graph with the promised
structure or a clean refusal (ValueError -> command line error).
"""
import os
import itertools
import tempfile

from engine import xp
from engine.common import setup_paths

PROPERTY = 'C15'
LEVEL = 'model_checking'
EXHAUSTIVE = True
ENGINE = 'xp'
TECHNIQUE = ('stateless model checking of the graph samplers: DFS over all sequences of random '
             'draws (state hashing on interpreter frames / deviation bound) x exhaustive box of '
             'graph specifications, structure predicate on every execution')
LEVEL_TEXT = ('Each specification of the box is executed on the real command line graph builder '
              'under every possible answer of every random draw (complete for cnfgen\'s own samplers '
              'via state hashing up to the horizon; networkx\'s random_regular_graph and gnm under a '
              'deviation bound, reported as such); each outcome is checked against an independent '
              'structure predicate, and the saved file must read back as the very graph returned.')
LEVEL_NOTE = ('Trusted: engine/xp, the structure predicates in this file, networkx.is_isomorphic for '
              'grid/torus shape. Bounds: sides/orders <= 4, horizon on choice points; random() draws '
              'answer only 0.0 or 0.999999.')
RULE = ('cases = graph specifications of the box (3 graph types, every construction and modifier, '
        'argument tuples inside and just outside the documented range, save in every format); per '
        'case every sequence of random answers (within the stated reduction) is executed; '
        'evaluations = cases (one complete exploration each; executions are reported as traces_validated_against_impl); a case is non-trivial when the '
        'specification is accepted in at least one execution')
ASSUMPTIONS = [
    'small scope: at most 4 (5) vertices per side/order, numeric tokens from a fixed alphabet',
    'float draws are explored with the two answers 0.0 and 0.999999',
    'networkx samplers (gnd, gnm) and very long retry sequences are explored up to a deviation '
    'bound / horizon which is reported in the evidence (cap_hit, horizon)',
]
VACUITY = {'executions': 3000, 'outcome:graph': 2000, 'outcome:refused': 100,
           'cases_with_many_outcomes': 30}

TMP = None


def coverage_extra(tier, stats, outcomes):
    return {'exhaustive_note': "cnfgen's own samplers: every sequence of random answers up to the horizon (state hashing); networkx samplers and a few heavy 'regular' cases: every execution with at most max_dev answers off the default schedule(s); executions that reached the horizon are counted in stats.horizon",
            'deviation_bounded_cases': int(stats.get('cases_deviation_bounded', 0)),
            'executions_on_implementation': int(stats.get('executions', 0))}


def preload():
    setup_paths()
    import cnfgen  # noqa
    import cnfgen.clitools.graph_args  # noqa


# ----------------------------------------------------------- reference --
def ref_grid(dims, periodic):
    """(n, set of frozenset edges) of the grid/torus as an abstract graph on
    coordinate tuples."""
    nodes = list(itertools.product(*[range(d) for d in dims]))
    edges = set()
    for x in nodes:
        for i, d in enumerate(dims):
            if x[i] + 1 < d:
                y = x[:i] + (x[i] + 1,) + x[i + 1:]
                edges.add(frozenset((x, y)))
            elif periodic and d >= 3:
                y = x[:i] + (0,) + x[i + 1:]
                edges.add(frozenset((x, y)))
    return nodes, edges


def isomorphic(n, edges, nodes2, edges2):
    import networkx
    A = networkx.Graph()
    A.add_nodes_from(range(1, n + 1))
    A.add_edges_from(edges)
    B = networkx.Graph()
    B.add_nodes_from(nodes2)
    B.add_edges_from(tuple(e) for e in edges2)
    return networkx.is_isomorphic(A, B)


def ref_pyramid(h):
    ids = {}
    nxt = 1
    for layer in range(h + 1):
        for i in range(h + 1 - layer):
            ids[(layer, i)] = nxt
            nxt += 1
    edges = set()
    for layer in range(h):
        for i in range(h - layer):
            edges.add((ids[(layer, i)], ids[(layer + 1, i)]))
            edges.add((ids[(layer, i + 1)], ids[(layer + 1, i)]))
    return nxt - 1, edges


def ref_tree(h):
    ids = {}
    nxt = 1
    for layer in range(h + 1):
        for i in range(2 ** (h - layer)):
            ids[(layer, i)] = nxt
            nxt += 1
    edges = set()
    for layer in range(h):
        for i in range(2 ** (h - layer)):
            edges.add((ids[(layer, i)], ids[(layer + 1, i // 2)]))
    return nxt - 1, edges


def as_int(tok):
    try:
        return int(tok)
    except ValueError:
        return None


def as_float(tok):
    try:
        return float(tok)
    except ValueError:
        return None


def base_expectation(gt, cons, args):
    """What the documentation promises for a construction: ('refuse',) when the
    arguments are outside the documented range or the object does not exist,
    otherwise ('graph', checker) where checker(desc) -> None or error text."""
    ints = [as_int(a) for a in args]
    R = ('refuse',)

    def ok(f):
        return ('graph', f)

    if gt == 'simple':
        if cons == 'gnp':
            if len(args) not in (2, 3):
                return R
            N, p = ints[0], as_float(args[1])
            t = ints[2] if len(args) == 3 else 1
            if N is None or p is None or t is None or N <= 0 or t <= 0 or not 0 <= p <= 1:
                return R

            def chk(d):
                if d['n'] != N * t:
                    return 'order %d instead of %d' % (d['n'], N * t)
                E = set(map(tuple, d['edges']))
                allowed = {(u, v) for u in range(1, N * t + 1) for v in range(u + 1, N * t + 1)
                           if t == 1 or (u - 1) // N != (v - 1) // N}
                if not E <= allowed:
                    return 'edge inside a block: %r' % (sorted(E - allowed)[:3],)
                if p == 0 and E:
                    return 'p=0 but edges %r' % (sorted(E)[:3],)
                if p == 1 and E != allowed:
                    return 'p=1 but missing edges %r' % (sorted(allowed - E)[:3],)
            return ok(chk)
        if cons == 'gnm':
            if len(args) != 2 or None in ints:
                return R
            N, m = ints
            if N <= 0 or m < 0 or m > N * (N - 1) // 2:
                return R

            def chk(d):
                if d['n'] != N:
                    return 'order %d instead of %d' % (d['n'], N)
                if len(d['edges']) != m:
                    return '%d edges instead of %d' % (len(d['edges']), m)
            return ok(chk)
        if cons == 'gnd':
            if len(args) != 2 or None in ints:
                return R
            N, dg = ints
            if N <= 0 or dg <= 0 or dg >= N or (N * dg) % 2:
                return R

            def chk(d):
                if d['n'] != N:
                    return 'order %d instead of %d' % (d['n'], N)
                deg = [0] * (N + 1)
                for u, v in d['edges']:
                    deg[u] += 1
                    deg[v] += 1
                if any(x != dg for x in deg[1:]):
                    return 'degrees %r, not %d-regular' % (deg[1:], dg)
            return ok(chk)
        if cons in ('grid', 'torus'):
            if not args or None in ints or any(x <= 0 for x in ints):
                return R if args else ('either',)
            periodic = cons == 'torus'
            if periodic and any(x <= 2 for x in ints):
                degenerate = True
            else:
                degenerate = False

            def chk(d):
                nodes, edges = ref_grid(ints, periodic)
                if d['n'] != len(nodes):
                    return 'order %d instead of %d' % (d['n'], len(nodes))
                if len(d['edges']) != len(edges):
                    return '%d edges instead of %d' % (len(d['edges']), len(edges))
                if not isomorphic(d['n'], d['edges'], nodes, edges):
                    return 'not isomorphic to the %s of dimensions %r' % (cons, ints)
            return ('graph-or-refuse', chk) if degenerate else ok(chk)
        if cons == 'complete':
            if len(args) not in (1, 2) or None in ints or any(x <= 0 for x in ints):
                return R
            N = ints[0]
            B = ints[1] if len(args) == 2 else None

            def chk(d):
                tot = N if B is None else N * B
                if d['n'] != tot:
                    return 'order %d instead of %d' % (d['n'], tot)
                E = set(map(tuple, d['edges']))
                if B is None:
                    exp = {(u, v) for u in range(1, N + 1) for v in range(u + 1, N + 1)}
                    if E != exp:
                        return 'not the complete graph'
                else:
                    # complement must be B disjoint cliques of N vertices
                    comp = {(u, v) for u in range(1, tot + 1) for v in range(u + 1, tot + 1)} - E
                    from engine import scope
                    comps = scope.components(tot, comp)
                    if sorted(len(c) for c in comps) != [N] * B:
                        return 'not complete %d-partite with blocks of %d' % (B, N)
                    if len(comp) != B * N * (N - 1) // 2:
                        return 'blocks are not independent sets'
            return ok(chk)
        if cons == 'empty':
            if len(args) != 1 or ints[0] is None or ints[0] <= 0:
                return R

            def chk(d):
                if d['n'] != ints[0] or d['edges']:
                    return 'not the empty graph of order %d' % ints[0]
            return ok(chk)
    if gt == 'bipartite':
        if cons in ('glrp', 'glrm', 'glrd', 'regular'):
            if len(args) != 3:
                return R
            L, Rr = ints[0], ints[1]
            if L is None or Rr is None or L <= 0 or Rr <= 0:
                return R
            if cons == 'glrp':
                p = as_float(args[2])
                if p is None or not 0 <= p <= 1:
                    return R

                def chk(d):
                    if (d['L'], d['R']) != (L, Rr):
                        return 'sides (%d,%d) instead of (%d,%d)' % (d['L'], d['R'], L, Rr)
                    if p == 0 and d['edges']:
                        return 'p=0 but the graph has edges'
                    if p == 1 and len(d['edges']) != L * Rr:
                        return 'p=1 but the graph is not complete'
                return ok(chk)
            x = ints[2]
            if x is None or x < 0:
                return R
            if cons == 'glrm':
                if x > L * Rr:
                    return R

                def chk(d):
                    if (d['L'], d['R']) != (L, Rr):
                        return 'sides (%d,%d) instead of (%d,%d)' % (d['L'], d['R'], L, Rr)
                    if len(d['edges']) != x:
                        return '%d edges instead of %d' % (len(d['edges']), x)
                return ok(chk)
            if x > Rr:
                return R
            if cons == 'regular' and (x * L) % Rr:
                return R

            def chk(d):
                if (d['L'], d['R']) != (L, Rr):
                    return 'sides (%d,%d) instead of (%d,%d)' % (d['L'], d['R'], L, Rr)
                ld = [0] * (L + 1)
                rd = [0] * (Rr + 1)
                for u, v in d['edges']:
                    ld[u] += 1
                    rd[v] += 1
                if any(y != x for y in ld[1:]):
                    return 'left degrees %r, not %d-left-regular' % (ld[1:], x)
                if cons == 'regular' and any(y != x * L // Rr for y in rd[1:]):
                    return 'right degrees %r, not %d-regular on the right' % (rd[1:], x * L // Rr)
            return ok(chk)
        if cons == 'shift':
            if len(args) < 2 or None in ints:
                return R
            L, Rr, pat = ints[0], ints[1], ints[2:]
            if L <= 0 or Rr <= 0 or len(set(pat)) != len(pat) or any(v < 0 or v > Rr for v in pat):
                return R

            def chk(d):
                exp = {(u, 1 + (u - 1 + v) % Rr) for u in range(1, L + 1) for v in pat}
                if (d['L'], d['R']) != (L, Rr) or set(map(tuple, d['edges'])) != exp:
                    return 'not the shift graph'
            return ok(chk)
        if cons in ('complete', 'empty'):
            if len(args) != 2 or None in ints or ints[0] <= 0 or ints[1] <= 0:
                return R
            L, Rr = ints

            def chk(d):
                exp = L * Rr if cons == 'complete' else 0
                if (d['L'], d['R']) != (L, Rr) or len(d['edges']) != exp:
                    return 'not the %s bipartite graph' % cons
            return ok(chk)
    if gt in ('dag', 'digraph'):
        if len(args) != 1 or ints[0] is None or ints[0] < 0:
            return R
        h = ints[0]
        if cons == 'path':
            n, E = h + 1, {(i, i + 1) for i in range(1, h + 1)}
        elif cons == 'tree':
            n, E = ref_tree(h)
        elif cons == 'pyramid':
            n, E = ref_pyramid(h)
        else:
            return None

        def chk(d):
            if d['n'] != n:
                return '%d vertices instead of %d' % (d['n'], n)
            if set(map(tuple, d['edges'])) != E:
                return 'edges %r instead of %r' % (sorted(map(tuple, d['edges']))[:6], sorted(E)[:6])
            if not d['is_dag']:
                return 'not reported acyclic'
        return ok(chk)
    return None


# ------------------------------------------------------------- harness --
def describe(G):
    """Plain description of the delivered graph.  'views' lists disagreements
    between the edge listing and the other views of the object (neighbour
    lists, degrees, membership, edge count): the graph handed to the formula
    generators must be ONE graph, whichever view they use."""
    views = []
    if G.is_bipartite():
        E = sorted(list(map(tuple, G.edges())))
        L, R = G.left_order(), G.right_order()
        for u in range(1, L + 1):
            if list(G.right_neighbors(u)) != sorted(v for (a, v) in E if a == u):
                views.append('right_neighbors(%d)=%r' % (u, list(G.right_neighbors(u))))
            if G.right_degree(u) != sum(1 for (a, v) in E if a == u):
                views.append('right_degree(%d)' % u)
        for v in range(1, R + 1):
            if list(G.left_neighbors(v)) != sorted(a for (a, b) in E if b == v):
                views.append('left_neighbors(%d)=%r' % (v, list(G.left_neighbors(v))))
        if G.number_of_edges() != len(E) or any(not G.has_edge(u, v) for (u, v) in E):
            views.append('number_of_edges/has_edge')
        Eset = set(E)
        for u in range(1, L + 1):
            for v in range(1, R + 1):
                if bool(G.has_edge(u, v)) != ((u, v) in Eset):
                    views.append('has_edge(%d,%d)=%r' % (u, v, G.has_edge(u, v)))
        return {'type': 'bipartite', 'L': L, 'R': R, 'edges': E, 'views': views[:3]}
    if G.is_directed():
        E = sorted(list(map(tuple, G.edges())))
        n = G.number_of_vertices()
        for u in range(1, n + 1):
            if list(G.successors(u)) != sorted(v for (a, v) in E if a == u):
                views.append('successors(%d)' % u)
            if list(G.predecessors(u)) != sorted(a for (a, v) in E if v == u):
                views.append('predecessors(%d)' % u)
        if G.number_of_edges() != len(E):
            views.append('number_of_edges')
        Eset = set(E)
        for u in range(1, n + 1):
            for v in range(1, n + 1):
                if bool(G.has_edge(u, v)) != ((u, v) in Eset):
                    views.append('has_edge(%d,%d)=%r' % (u, v, G.has_edge(u, v)))
        return {'type': 'directed', 'n': n, 'is_dag': G.is_dag(), 'edges': E, 'views': views[:3]}
    E = sorted(list(map(tuple, G.edges())))
    n = G.number_of_vertices()
    for u in range(1, n + 1):
        nb = sorted([v for (a, v) in E if a == u] + [a for (a, v) in E if v == u])
        if list(G.neighbors(u)) != nb:
            views.append('neighbors(%d)=%r instead of %r' % (u, list(G.neighbors(u)), nb))
        if G.degree(u) != len(nb):
            views.append('degree(%d)=%d instead of %d' % (u, G.degree(u), len(nb)))
    if G.number_of_edges() != len(E) or any(not (G.has_edge(u, v) and G.has_edge(v, u)) for (u, v) in E):
        views.append('number_of_edges/has_edge')
    # membership in both orientations for EVERY pair (non-edges too), through
    # has_edge and through the edge view
    Eset = set(E)
    EV = G.edges()
    for u in range(1, n + 1):
        for v in range(1, n + 1):
            want = (min(u, v), max(u, v)) in Eset and u != v
            if bool(G.has_edge(u, v)) != want:
                views.append('has_edge(%d,%d)=%r' % (u, v, G.has_edge(u, v)))
            if ((u, v) in EV) != want:
                views.append('(%d,%d) in edges() is %r' % (u, v, (u, v) in EV))
    return {'type': 'simple', 'n': n, 'edges': E, 'views': views[:3]}


def tmpdir():
    global TMP
    if TMP is None or TMP[0] != os.getpid():
        TMP = (os.getpid(), tempfile.mkdtemp(prefix='c15_'))
        import atexit
        import shutil
        atexit.register(shutil.rmtree, TMP[1], True)
    return TMP[1]


def make_body(case):
    from cnfgen.clitools.graph_args import make_graph_from_spec
    from cnfgen.graphs import readGraph
    gt = case['gt']
    spec = list(case['spec'])
    save = case.get('save')
    path = None
    if save:
        # the name of the target may end like ANOTHER format ('save dimacs g.gml'):
        # the format given explicitly decides
        path = os.path.join(tmpdir(), 'g_%d.%s' % (os.getpid(), case.get('save_ext', save)))
        if case.get('save_first'):
            # the directive written before the other options: what is saved
            # (and returned) still is the graph with every option applied
            i = 1
            while i < len(spec) and as_float(spec[i]) is not None:
                i += 1
            spec = spec[:i] + ['save', save, path] + spec[i:]
        else:
            spec = spec + ['save', save, path]

    def body():
        if path and not os.path.exists(path):
            # the target of 'save' exists already and has content (a leftover
            # of an earlier run; from the second execution on, the file the
            # previous execution wrote): it must be replaced, not extended
            with open(path, 'w') as f:
                f.write('c an older file\n3\n1 : 2 0\n2 : 1 0\n3 : 0\n')
        G = make_graph_from_spec(gt, list(spec))
        d = describe(G)
        d['name_is_str'] = isinstance(getattr(G, 'name', None), str)
        if path:
            try:
                H = readGraph(path, gt, save)
                d['saved'] = describe(H)
            except Exception as e:      # noqa: reported through the comparison
                d['saved'] = {'unreadable': '%s: %s' % (type(e).__name__, str(e)[:80])}
        return d
    return body


def split_spec(case):
    """(construction, args, [(option, args)...])"""
    spec = case['spec']
    cons = spec[0]
    i = 1
    args = []
    while i < len(spec) and as_float(spec[i]) is not None:
        args.append(spec[i])
        i += 1
    opts = []
    while i < len(spec):
        name = spec[i]
        i += 1
        a = []
        while i < len(spec) and as_float(spec[i]) is not None:
            a.append(spec[i])
            i += 1
        opts.append((name, a))
    return cons, args, opts


def contains_clique(n, E, k):
    if k <= 1:
        return k <= n
    adj = {(u, v) for u, v in E} | {(v, u) for u, v in E}
    return any(all((a, b) in adj for a, b in itertools.combinations(S, 2))
               for S in itertools.combinations(range(1, n + 1), k))


def contains_biclique(L, R, E, a, b):
    E = set(E)
    if a == 0 or b == 0:
        return a <= L and b <= R
    return any(all((u, v) in E for u in A for v in B)
               for A in itertools.combinations(range(1, L + 1), a)
               for B in itertools.combinations(range(1, R + 1), b))


def judge(case, x):
    gt = case['gt']
    cons, args, opts = split_spec(case)
    out = []
    tag = '%s:%s' % (gt, cons) + ''.join('+' + o for o, _ in opts)

    def bad(sym, what):
        c = dict(case)
        c['choices'] = list(x['choices'])
        out.append({'key': '%s:%s' % (tag, sym), 'what': what, 'case': c})

    exp = base_expectation(gt, cons, args)
    if exp is None:
        if not case.get('unmeetable'):
            raise RuntimeError('no expectation for %r' % (case,))
        exp = ('refuse',)
    # options: legal iff well formed and satisfiable on the base graph
    opt_refuse = False
    for name, a in opts:
        ai = [as_int(t) for t in a]
        if name in ('plantclique', 'addedges', 'splitedges'):
            if len(a) != 1 or ai[0] is None or ai[0] < 0:
                opt_refuse = True
        elif name == 'plantbiclique':
            if len(a) != 2 or None in ai or min(ai) < 0:
                opt_refuse = True
        else:
            opt_refuse = True
    e = x['exception']
    if e is not None:
        if not isinstance(e, (ValueError, FileNotFoundError)):
            bad('exception:' + type(e).__name__, 'unexpected %s: %s' % (type(e).__name__, e))
            return out, 'crash'
        # a refusal: legitimate if the base is refused, an option is malformed,
        # or an option cannot be met on the base graph (decided below from a
        # deterministic base only)
        if exp[0] in ('refuse', 'either', 'graph-or-refuse') or opt_refuse:
            return out, 'refused'
        if case.get('unmeetable'):
            return out, 'refused'
        bad('spurious-refusal', 'refused a request that can be met: %s' % e)
        return out, 'refused'
    d = x['result']
    if exp[0] == 'refuse' or opt_refuse or case.get('unmeetable'):
        bad('missing-refusal', 'accepted %r and returned a graph with %d edges' %
            (case['spec'], len(d['edges'])))
        return out, 'graph'
    if not d.get('name_is_str'):
        bad('name', 'graph has no name')
    if d.get('views'):
        bad('views-disagree', 'the views of the delivered graph disagree with its edge list: %s'
            % '; '.join(d['views']))
    # structure of the base construction (options only add edges/vertices)
    base = case.get('base')      # description of the deterministic base graph
    if not opts:
        if exp[0] != 'either':
            err = exp[1](d)
            if err:
                bad('structure', err)
    else:
        E = set(map(tuple, d['edges']))
        if base is not None:
            bE = set(map(tuple, base['edges']))
            cur_n = base.get('n')
            added_total = 0
            split_total = 0
            for name, a in opts:
                k = [as_int(t) for t in a]
                if name == 'addedges':
                    added_total += k[0]
                if name == 'splitedges':
                    split_total += k[0]
            if gt == 'simple':
                if d['n'] != cur_n + split_total:
                    bad('structure', 'order %d instead of %d' % (d['n'], cur_n + split_total))
                plant = [as_int(a[0]) for name, a in opts if name == 'plantclique']
                if not plant:
                    want = len(bE) + added_total + split_total
                    if len(E) != want:
                        bad('structure', '%d edges instead of %d' % (len(E), want))
                else:
                    lo = len(bE) + added_total + split_total
                    if len(E) < lo:
                        bad('structure', 'only %d edges, at least %d expected' % (len(E), lo))
                if not split_total:
                    if not bE <= E:
                        bad('structure', 'an edge of the base graph disappeared')
                    for kk in plant:
                        if not contains_clique(d['n'], E, kk):
                            bad('structure', 'no clique of size %d' % kk)
                else:
                    # every new vertex has degree 2 and splits a former edge
                    only_split = all(name == 'splitedges' for name, _ in opts)
                    if only_split:
                        for w in range(cur_n + 1, d['n'] + 1):
                            nb = [u if v == w else v for (u, v) in E if w in (u, v)]
                            if len(nb) != 2 or tuple(sorted(nb)) not in bE or tuple(sorted(nb)) in E:
                                bad('structure', 'vertex %d does not split an edge (neighbours %r)' % (w, nb))
                                break
                        kept = {e2 for e2 in E if max(e2) <= cur_n}
                        if not kept <= bE or len(bE - kept) != split_total:
                            bad('structure', 'split removed/added wrong edges')
            else:
                if (d['L'], d['R']) != (base['L'], base['R']):
                    bad('structure', 'sides changed')
                if not bE <= E:
                    bad('structure', 'an edge of the base graph disappeared')
                plant = [[as_int(t) for t in a] for name, a in opts if name == 'plantbiclique']
                if not plant:
                    if len(E) != len(bE) + added_total:
                        bad('structure', '%d edges instead of %d' % (len(E), len(bE) + added_total))
                for (ka, kb) in plant:
                    if not contains_biclique(d['L'], d['R'], E, ka, kb):
                        bad('structure', 'no biclique of size (%d,%d)' % (ka, kb))
    if 'saved' in d:
        s = d['saved']
        same = all(s.get(k_) == d.get(k_) for k_ in ('n', 'L', 'R', 'edges'))
        if not same:
            bad('save:%s' % case['save'], 'the saved file reads back as %r, the graph returned is %r' %
                (s, {k_: d.get(k_) for k_ in ('n', 'L', 'R', 'edges')}))
    return out, 'graph'


def run_real_seed(case, R):
    """One run under the REAL generator seeded as `--seed` does (a recorded
    input of a defect that was repaired: it is reported again if it returns)."""
    import random
    body = make_body(case)
    st = random.getstate()
    random.seed(case['real_seed'])
    x = {'choices': [], 'exception': None, 'result': None}
    try:
        try:
            x['result'] = body()
        except BaseException as e:          # judged below
            x['exception'] = e
    finally:
        random.setstate(st)
    vs, cls = judge(case, x)
    R.outcomes['outcome:' + cls] += 1
    R.stats['executions'] += 1
    R.stats['cases'] += 1
    R.stats['real_seed_runs'] += 1
    R.extend(vs)
    R.case(sample={'gt': case['gt'], 'spec': case['spec'], 'real_seed': case['real_seed']},
           nontrivial=x['exception'] is None)


def run_case(case, R):
    if case.get('real_seed') is not None:
        return run_real_seed(case, R)
    body = make_body(case)
    outcomes = set()
    nviol = [0]
    accepted = [0]

    def on_result(x):
        vs, cls = judge(case, x)
        R.outcomes['outcome:' + cls] += 1
        if x['exception'] is None:
            accepted[0] += 1
            outcomes.add(repr(x['result']['edges']))
        else:
            outcomes.add('EXC:' + type(x['exception']).__name__)
        if vs and nviol[0] < 3:
            again = xp.replay(body, x['choices'])
            vs2, _ = judge(case, again)
            if [v['key'] for v in vs2] != [v['key'] for v in vs]:
                raise xp.Divergence('violation did not reproduce on replay: %r' % (case,))
            nviol[0] += 1
            R.extend(vs)
    mode = case.get('mode', 'hash')
    import time
    t0 = time.process_time()
    st = xp.explore(body, on_result, hashing=(mode == 'hash'),
                    horizon=case.get('horizon', 150),
                    max_dev=case.get('max_dev'),
                    default=case.get('default', 'zero'),
                    default_seed=case.get('default_seed', 0),
                    max_execs=case.get('max_execs', 60000))
    for key in ('executions', 'states', 'transitions', 'cut', 'horizon', 'cap_hit',
                'unique_keys', 'completed'):
        R.stats[key] += st[key]
    if case.get('max_dev') is not None:
        R.stats['cases_deviation_bounded'] += 1
    R.stats['cases'] += 1
    R.stats['cpu_ms:%s:%s' % (case['gt'], '+'.join(t for t in case['spec'] if not t[:1].isdigit() and t[:1] not in '-.'))] += \
        int(1000 * (time.process_time() - t0))
    if len(outcomes) > 2:
        R.stats['cases_with_many_outcomes'] += 1
    sample = {'gt': case['gt'], 'spec': case['spec'], 'executions': st['executions'],
              'states': st['states'], 'distinct_outcomes': len(outcomes)}
    R.case(sample=sample, nontrivial=accepted[0] > 0)


def run_cases(chunk, R):
    global TMP
    try:
        for case in chunk:
            run_case(case, R)
    finally:
        # pool workers are terminated without running atexit handlers
        if TMP is not None and TMP[0] == os.getpid():
            import shutil
            shutil.rmtree(TMP[1], ignore_errors=True)
            TMP = None


def replay(case):
    if case.get('real_seed') is not None:
        class _R:
            def __init__(self):
                import collections
                self.outcomes = collections.Counter()
                self.stats = collections.Counter()
                self.vs = []

            def extend(self, v):
                self.vs.extend(v)

            def case(self, **kw):
                pass
        r = _R()
        run_real_seed({k: v for k, v in case.items() if k != 'choices'}, r)
        return r.vs
    body = make_body(case)
    x = xp.replay(body, case['choices'])
    vs, _ = judge(case, x)
    return vs


# ----------------------------------------------------------------- cases --
def det_base(gt, spec):
    """Description of a deterministic base construction (computed by running
    the real builder once; its own structure is checked as a separate case)."""
    from cnfgen.clitools.graph_args import make_graph_from_spec
    return describe(make_graph_from_spec(gt, list(spec)))


def cases(tier, seed):
    thorough = tier == 'thorough'
    cs = []
    S = str

    def add(gt, spec, **kw):
        c = {'gt': gt, 'spec': [S(t) for t in spec]}
        c.update(kw)
        cs.append(c)

    ints = [-1, 0, 1, 2, 3, 4] + ([5] if thorough else [])
    small = [1, 2, 3] + ([4] if thorough else [])
    ps = ['0', '0.5', '1', '1.5', '-0.5']
    # ---- simple -----------------------------------------------------------
    for N in ints[:5]:
        for p in ps:
            add('simple', ['gnp', N, p], mode='plain')
    for N in (1, 2):
        for t in (0, 1, 2, 3):
            for p in ('0', '0.5', '1'):
                if N * t <= 4 or (thorough and N * t <= 6):
                    add('simple', ['gnp', N, p, t], mode='plain')
    for p in ('nan', 'NaN', '-nan', 'inf', '-inf', '1e400', '1e-400', '+0.5', '.5e0'):
        # everything float() accepts is a number for the parser
        add('simple', ['gnp', 2, p], mode='plain')
        add('bipartite', ['glrp', 2, 2, p], mode='plain')
    add('simple', ['gnp', 3], mode='plain')
    add('simple', ['gnp'], mode='plain')
    add('simple', ['gnp', 3, '0.5', 2, 1], mode='plain')
    for N in ints:
        for m in range(-1, 8):
            if N <= 4 or thorough:
                if thorough and N <= 4:
                    add('simple', ['gnm', N, m], mode='hash', horizon=120, max_execs=40000)
                else:   # networkx sampler: deviation bound around a mixed default schedule
                    add('simple', ['gnm', N, m], mode='plain', max_dev=2 if not thorough else 3,
                        max_execs=20000, horizon=300, default='mix', default_seed=seed)
    add('simple', ['gnm', 3])
    add('simple', ['gnm', 3, 1, 1])
    add('simple', ['gnm', '2.5', 1])
    for N in ints + [5, 6]:
        for dg in range(-1, 7):
            if dg <= N + 1:
                add('simple', ['gnd', N, dg], mode='plain', max_dev=2 if not thorough else 3,
                    max_execs=6000 if not thorough else 30000, horizon=400, default='mix',
                    default_seed=seed)
    add('simple', ['gnd', 4])
    add('simple', ['gnd', 4, 2, 1])
    for dims in itertools.chain.from_iterable(itertools.product(range(0, 4), repeat=k) for k in (1, 2, 3)):
        tot = 1
        for d in dims:
            tot *= max(d, 1)
        if tot <= (12 if thorough else 9):
            add('simple', ['grid'] + list(dims))
            add('simple', ['torus'] + list(dims))
    add('simple', ['grid', 3, 4])
    add('simple', ['torus', 3, 4])
    add('simple', ['grid', -1, 2])
    # sizes that are numbers but not integers: refused, never rounded
    for spec_ in (['grid', '2.5', 3], ['torus', 3, '4.5'], ['grid', 3, 3, '3.999'], ['grid', '1e1', 2],
                  ['grid', 'inf', 3], ['grid', '1e400'], ['torus', 'nan', 3], ['complete', '2.5'],
                  ['empty', '3.5'], ['gnm', 4, '2.5'], ['gnd', '4.5', 2], ['gnd', 4, '1.5'],
                  ['complete', 2, '2.5']):
        add('simple', spec_, mode='plain')
    for spec_ in (['path', '2.5'], ['tree', '1.5'], ['pyramid', '2.5'], ['pyramid', 'inf']):
        add('dag', spec_)
    for spec_ in (['complete', '2.5', 2], ['empty', 2, '2.5'], ['glrm', 2, 2, '1.5'], ['glrd', 2, 3, '1.5'],
                  ['regular', 2, 2, '1.5'], ['shift', 3, 3, '0.5']):
        add('bipartite', spec_, mode='plain')
    add('simple', ['grid'])
    add('simple', ['torus'])
    for N in ints:
        add('simple', ['complete', N])
        add('simple', ['empty', N])
        for B in (0, 1, 2, 3):
            if N * B <= 6:
                add('simple', ['complete', N, B])
    add('simple', ['complete'])
    add('simple', ['empty'])
    add('simple', ['empty', 2, 2])
    add('simple', ['complete', 2, 2, 2])
    add('simple', ['nosuchconstruction', 3], unmeetable=True)
    add('simple', ['glrp', 2, 2, '0.5'], unmeetable=True)
    add('simple', ['complete', 3, 'complete', 3], unmeetable=True)
    add('simple', ['complete', 3, 'plantbiclique', 1, 1], unmeetable=True)
    add('simple', ['complete', 3, 'save'], unmeetable=True)
    add('simple', ['complete', 3, 'addedges', 0, 'addedges', 0], unmeetable=True)
    # modifiers on deterministic bases
    bases = [['empty', 1], ['empty', 3], ['empty', 4], ['complete', 3], ['grid', 2, 2],
             ['grid', 1, 3], ['complete', 2, 2]] + ([['grid', 2, 3], ['empty', 5]] if thorough else [])
    for b in bases:
        bd = det_base('simple', [S(t) for t in b])
        n, m = bd['n'], len(bd['edges'])
        missing = n * (n - 1) // 2 - m
        for k in range(-1, n + 2):
            add('simple', b + ['plantclique', k], base=bd, unmeetable=(k > n), mode='plain')
        for k in range(-1, missing + 2):
            # the sampler retries 10*k times (2 draws each) before its dense
            # fallback: the horizon must exceed 20*k+k
            if k > (2 if not thorough else 3) and k <= missing:
                continue
            add('simple', b + ['addedges', k], base=bd, unmeetable=(k > missing), mode='hash',
                horizon=30 * max(k, 1) + 20, max_execs=60000)
        for k in range(-1, m + 2):
            add('simple', b + ['splitedges', k], base=bd, unmeetable=(k > m), mode='plain')
        add('simple', b + ['plantclique'], base=bd, unmeetable=True)
        add('simple', b + ['addedges', 1, 1], base=bd, unmeetable=True)
        add('simple', b + ['splitedges', '0.5'], base=bd, unmeetable=True)
    # bases with more edges than vertices: a request |V| < k <= |E| is legal
    # (seeded change C15-s22 compared k with the number of vertices)
    for b, ks in ((['complete', 4], range(3, 8)), (['complete', 5], (5, 6, 10, 11)),
                  (['torus', 3, 3], (9, 10, 18, 19)), (['complete', 2, 3], (6, 7, 12, 13))):
        bd = det_base('simple', [S(t) for t in b])
        m = len(bd['edges'])
        for k in ks:
            add('simple', b + ['splitedges', k], base=bd, unmeetable=(k > m), mode='plain',
                max_dev=2 if not thorough else 3, max_execs=3000 if not thorough else 30000)
    bd = det_base('simple', ['grid', '2', '2'])
    add('simple', ['grid', 2, 2, 'plantclique', 3, 'addedges', 1], base=bd, mode='plain',
        max_dev=3, max_execs=5000)
    add('simple', ['grid', 2, 2, 'addedges', 1, 'splitedges', 2], base=bd, mode='plain',
        max_dev=3, max_execs=5000)
    add('simple', ['grid', 2, 2, 'plantclique', 3, 'splitedges', 1], base=bd, mode='plain',
        max_dev=3, max_execs=5000)
    # ---- bipartite ----------------------------------------------------------
    for L in (-1, 0, 1, 2, 3):
        for Rr in (0, 1, 2, 3):
            for p in ('0', '0.5', '1', '2'):
                if L * Rr <= (9 if thorough else 6):
                    add('bipartite', ['glrp', L, Rr, p], mode='plain')
    sides = [(L, Rr) for L in (0, 1, 2, 3) for Rr in (0, 1, 2, 3)]
    if thorough:
        sides += [(2, 4), (4, 2), (3, 4), (4, 3)]
    def falling(a, b):
        r = 1
        for i in range(b):
            r *= (a - i)
        return r
    for (L, Rr) in sides:
        for m in range(-1, L * Rr + 2):
            dense = 0 <= m <= L * Rr and m > L * Rr // 3
            if dense and falling(L * Rr, m) > (4000 if not thorough else 70000):
                # ordered samples of the dense strategy cannot be merged
                add('bipartite', ['glrm', L, Rr, m], mode='plain', max_dev=3 if not thorough else 4,
                    max_execs=100000)
            else:
                add('bipartite', ['glrm', L, Rr, m], mode='hash', horizon=60 if not thorough else 100,
                    max_execs=60000)
        for dg in range(-1, Rr + 2):
            add('bipartite', ['glrd', L, Rr, dg], mode='plain' if L * max(dg, 0) <= 6 else 'hash')
            if L * max(dg, 0) > 4 and not thorough:
                # 3*d*d retries x 2 draws per position: beyond 4 positions the
                # state space is explored with a deviation bound in this tier
                add('bipartite', ['regular', L, Rr, dg], mode='plain', max_dev=1, max_execs=100000,
                    horizon=400)
                add('bipartite', ['regular', L, Rr, dg], mode='plain', max_dev=1, max_execs=100000,
                    horizon=400, default='mix', default_seed=seed)
            else:
                add('bipartite', ['regular', L, Rr, dg], mode='hash',
                    horizon=90 if not thorough else 200, max_execs=60000)
    # more than a million candidate pairs, sides of different size, a third of
    # the pairs requested (the dense strategy at a realistic size); one scripted
    # generator, same oracle
    big_glrm = [[1001, 1000, 333700], [1200, 900, 1000]] + ([[1000, 1001, 400000]] if thorough else [])
    for (L, Rr, m_) in big_glrm:
        add('bipartite', ['glrm', L, Rr, m_], mode='plain', max_dev=0, default='mix', default_seed=seed,
            horizon=5000000, max_execs=1)
    # dense requests of medium size: more than half of the possible degree
    # (samplers switch strategy or restart hundreds of times there)
    for (N_, d_) in ((32, 17), (33, 18), (48, 25), (34, 31)):
        add('simple', ['gnd', N_, d_], mode='plain', max_dev=0, default='mix', default_seed=seed,
            horizon=5000000, max_execs=1)
    for (L, Rr, d_) in ((18, 18, 17), (16, 16, 15), (30, 15, 14), (12, 24, 22)):
        for ds in (seed, seed + 1):
            add('bipartite', ['regular', L, Rr, d_], mode='plain', max_dev=0, default='mix', default_seed=ds,
                horizon=5000000, max_execs=1)
    # recorded inputs of a repaired defect (hundreds of restarts: RecursionError
    # before the fix), under the real generator
    for (L, Rr, d_, sd_) in ((20, 20, 19, 2), (22, 22, 21, 3)):
        add('bipartite', ['regular', L, Rr, d_], real_seed=sd_)
    add('bipartite', ['glrm', 2, 2])
    add('bipartite', ['glrd', 2, 2, 1, 1])
    add('bipartite', ['regular', 2])
    for (L, Rr) in [(1, 1), (2, 3), (3, 2), (3, 3), (0, 2), (2, 0)]:
        for pat in [[], [0], [1], [0, 1], [1, 0], [0, Rr], [Rr + 1], [-1], [1, 1], [0, 1, 2],
                    [1, 2, 1], [2, 0, 1, 2], [0, 2, 1], [2, 1, 0], [1, 0, 1, 0]]:
            add('bipartite', ['shift', L, Rr] + pat)
    add('bipartite', ['shift', 3])
    for (L, Rr) in sides:
        add('bipartite', ['complete', L, Rr])
        add('bipartite', ['empty', L, Rr])
    add('bipartite', ['complete', 2])
    add('bipartite', ['empty', 2, 2, 2])
    add('bipartite', ['gnp', 3, '0.5'], unmeetable=True)
    bbases = [['empty', 2, 2], ['empty', 2, 3], ['complete', 2, 2], ['shift', 3, 3, 0],
              ['shift', 2, 3, 0, 1]] + ([['empty', 3, 3], ['shift', 3, 4, 0, 2]] if thorough else [])
    for b in bbases:
        bd = det_base('bipartite', [S(t) for t in b])
        L, Rr, m = bd['L'], bd['R'], len(bd['edges'])
        missing = L * Rr - m
        for ka in range(-1, L + 2):
            for kb in range(0, Rr + 2):
                add('bipartite', b + ['plantbiclique', ka, kb], base=bd,
                    unmeetable=(ka > L or kb > Rr), mode='plain')
        for k in range(-1, missing + 2):
            if k > (2 if not thorough else 3) and k <= missing:
                continue
            add('bipartite', b + ['addedges', k], base=bd, unmeetable=(k > missing), mode='hash',
                horizon=30 * max(k, 1) + 20, max_execs=60000)
        add('bipartite', b + ['plantbiclique', 1], base=bd, unmeetable=True)
        add('bipartite', b + ['plantclique', 1], base=bd, unmeetable=True)
        add('bipartite', b + ['splitedges', 1], base=bd, unmeetable=True)
    # ---- dag / digraph --------------------------------------------------------
    for gt in ('dag', 'digraph'):
        for cons in ('path', 'tree', 'pyramid'):
            for h in (-1, 0, 1, 2, 3, 4):
                add(gt, [cons, h])
            add(gt, [cons])
            add(gt, [cons, 1, 1])
            add(gt, [cons, '1.5'])
        add(gt, ['complete', 3], unmeetable=True)
        add(gt, ['path', 2, 'addedges', 1], unmeetable=True)
    # ---- save: the stored file is the very graph returned ---------------------
    for fmt in ('kthlist', 'gml', 'dimacs', 'dot'):
        add('simple', ['gnp', 3, '0.5'], save=fmt, mode='plain')
        add('simple', ['grid', 2, 2, 'addedges', 1], save=fmt, mode='plain',
            base=det_base('simple', ['grid', '2', '2']), max_dev=2, max_execs=400)
        add('simple', ['empty', 3, 'plantclique', 2], save=fmt, mode='plain',
            base=det_base('simple', ['empty', '3']))
        add('simple', ['complete', 3, 'splitedges', 1], save=fmt, mode='plain',
            base=det_base('simple', ['complete', '3']))
        add('dag', ['pyramid', 2], save=fmt)
        add('dag', ['tree', 2], save=fmt)
        add('digraph', ['path', 3], save=fmt)
        # the one-vertex DAGs and other graphs whose last vertex is isolated
        add('dag', ['pyramid', 0], save=fmt)
        add('dag', ['tree', 0], save=fmt)
        add('dag', ['path', 0], save=fmt)
        add('simple', ['empty', 3], save=fmt)
        add('simple', ['empty', 1], save=fmt)
        if fmt != 'dot' or thorough:
            add('simple', ['gnm', 4, 3], save=fmt, mode='plain', max_dev=2, max_execs=300)
            add('simple', ['gnd', 4, 2], save=fmt, mode='plain', max_dev=1, max_execs=300)
    for fmt in ('kthlist', 'gml'):
        add('simple', ['grid', 2, 2, 'addedges', 1], save=fmt, mode='plain', save_first=True,
            base=det_base('simple', ['grid', '2', '2']), max_dev=2, max_execs=400)
        add('simple', ['empty', 3, 'plantclique', 2], save=fmt, mode='plain', save_first=True,
            base=det_base('simple', ['empty', '3']))
        add('simple', ['complete', 3, 'splitedges', 1], save=fmt, mode='plain', save_first=True,
            base=det_base('simple', ['complete', '3']))
        add('simple', ['empty', 4, 'plantclique', 2, 'addedges', 1], save=fmt, mode='plain', save_first=True,
            base=det_base('simple', ['empty', '4']), max_dev=2, max_execs=400)
        add('bipartite', ['empty', 2, 3, 'plantbiclique', 1, 2], save=fmt, mode='plain', save_first=True,
            base=det_base('bipartite', ['empty', '2', '3']))
        add('bipartite', ['empty', 2, 2, 'addedges', 2], save=fmt, mode='plain', save_first=True,
            base=det_base('bipartite', ['empty', '2', '2']), max_dev=2, max_execs=400)
        # an option that cannot be met stays refused wherever it is written
        add('simple', ['complete', 3, 'addedges', 1], save=fmt, save_first=True, unmeetable=True)
    sfm = ('kthlist', 'gml', 'dimacs', 'dot')
    bfm = ('kthlist', 'gml', 'matrix', 'dot')
    for i, fmt in enumerate(sfm):
        for ext in (sfm[(i + 1) % 4], sfm[(i + 2) % 4], 'txt', 'cnf'):
            add('simple', ['complete', 3], save=fmt, save_ext=ext)
            add('dag', ['pyramid', 1], save=fmt, save_ext=ext)
    for i, fmt in enumerate(bfm):
        for ext in (bfm[(i + 1) % 4], bfm[(i + 3) % 4], 'graph'):
            add('bipartite', ['shift', 3, 3, 0, 1], save=fmt, save_ext=ext)
    for fmt in ('kthlist', 'gml', 'matrix', 'dot'):
        add('bipartite', ['glrp', 2, 2, '0.5'], save=fmt, mode='plain')
        add('bipartite', ['glrd', 2, 3, 1], save=fmt, mode='plain')
        add('bipartite', ['complete', 2, 2], save=fmt)
        add('bipartite', ['empty', 2, 3, 'plantbiclique', 1, 2], save=fmt, mode='plain',
            base=det_base('bipartite', ['empty', '2', '3']))
        add('bipartite', ['shift', 3, 3, 0, 1], save=fmt)
        if fmt != 'dot' or thorough:
            add('bipartite', ['glrm', 2, 2, 2], save=fmt, mode='plain', max_dev=2, max_execs=300)
            add('bipartite', ['regular', 2, 2, 1], save=fmt, mode='plain', max_dev=2, max_execs=300)
    return cs


def shards(tier, seed):
    cs = cases(tier, seed)

    def weight(c):
        w = 1
        if c.get('mode') == 'hash':
            w = 50
        if c['spec'][0] in ('regular', 'gnm', 'gnd'):
            w = 200
        if c.get('save') == 'dot':
            w *= 5
        return w
    cs.sort(key=lambda c: -weight(c))
    k = 96 if tier == 'thorough' else 64
    chunks = [cs[i::k] for i in range(k)]
    return [('s%03d' % i, 'run_cases', ch) for i, ch in enumerate(chunks) if ch]
