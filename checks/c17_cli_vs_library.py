"""C17  A command line builds the same formula as the library call it stands for.

For every registered formula sub-command (cnfgen and pbgen), every subset of
its options, a box of parameter values and a box of graph arguments
(deterministic constructions, files in every supported format, stdin, random
constructions captured with ``save``), every ``-T`` chain of length <= 2 over
all registered transformations, kthlist2pebbling and cnfshuffle, the tool is
run in-process and the formula it builds is compared with the formula the
hand-written table ``ref/c17_cli_table.py`` says the command line stands for:
class, number of variables, label sequence, clause / constraint list in order.
(The header 'description' is compared too, graph names masked, but a difference
is only counted in the statistics: the property speaks of variables, names and
clauses.)  Options that only affect rendering are checked on the emitted text.
"""
import gc
import io
import os
import re
import sys
import json
import shutil
import zlib
import random
import tempfile
import itertools
from collections import OrderedDict

from engine.common import setup_paths

PROPERTY = 'C17'
LEVEL = 'exploration'
EXHAUSTIVE = True
RULE = ('every registered formula sub-command x every subset of its options (both placements, '
        'every spelling) x a box of parameter values x graph arguments (constructions, files '
        'in every format, stdin, random constructions captured with save); every -T chain of '
        'length <= 2 over all registered transformations; pbgen for every helper; '
        'kthlist2pebbling vs peb vs library on every file x transformation; rendering switches '
        '(quiet/verbose/varnames/output format/-o) on the emitted text; a case is one command '
        'line, distinct by construction; non-trivial when the formula has variables and clauses')
ASSUMPTIONS = [
    'bounded scope: parameter boxes and graph arguments of ref/c17_cli_table.py (graphs <= 12 '
    'vertices, parameters <= 6), chains of length <= 2, one or two seeds per random command',
    'trusted reference: the hand-written table argv -> library call (from the --help texts)',
    'random objects not named on the command line are matched existentially against all objects '
    'of the documented kind (brute force); randkcnf/randkxor/pitfall/shuffle by re-seeding the '
    'global generator and making the documented library calls in the same order',
    'tools are driven in-process through cli(argv, mode=...) with captured stdin/stdout',
]
VACUITY = {
    'result:both_ok': 4000, 'result:both_refuse': 3, 'oracle:exists': 200, 'oracle:mirror': 100,
    'oracle:direct-call': 1500, 'graph:saved': 300, 'graph:file': 200, 'graph:stdin': 30,
    'graph:direct': 300, 'tool:cnfgen': 2500, 'tool:pbgen': 500, 'tool:kthlist2pebbling': 400,
    'tool:cnfshuffle': 30, 'tool:graph-argument': 150, 'chain:len1': 150, 'chain:len2': 578,
    'render:text_compared': 1500, 'subcommands_covered': 33, 'transformations_covered': 17,
}
ENGINE = 'cli+table'
TECHNIQUE = ('bounded exhaustive differential exploration of the command-line front ends against '
             'a hand-written argv -> library-call table')
LEVEL_TEXT = ('Every command line of the stated scope is executed by the real tools (in-process) and '
              'the resulting formula object / emitted text is compared, element by element and in '
              'order, with the formula built by the documented library call on the graph named by '
              'the graph argument (re-read from the file written by `save` for random '
              'constructions). Exhaustive inside the scope; nothing is sampled.')
LEVEL_NOTE = ('Trusted: ref/c17_cli_table.py (written from the help texts) and the library '
              'generators themselves (their meaning is the subject of C01-C05). Not covered: '
              'parameter values and graphs beyond the boxes, chains longer than 2, the pager / '
              'tty paths of the tools.')


def preload():
    setup_paths()
    import cnfgen  # noqa
    import cnfgen.clitools.cnfgen  # noqa
    import cnfgen.clitools.pbgen  # noqa
    import cnfgen.clitools.kthlist2pebbling  # noqa
    import cnfgen.clitools.cnfshuffle  # noqa


# ------------------------------------------------------------------ driver --
def _lib():
    import cnfgen
    import cnfgen.graphs
    return cnfgen


_CWD = [None]


def cli_call(tool, argv, mode, stdin_text=None, cwd=None):
    """Run one tool in-process.  Returns (status, value, stdout_text):
    status in ok | clierror | exit | exception."""
    import cnfgen.clitools.msg as msg
    from cnfgen.clitools.cmdline import CLIError
    if tool == 'cnfgen':
        from cnfgen.clitools.cnfgen import cli
    elif tool == 'pbgen':
        from cnfgen.clitools.pbgen import cli
    elif tool == 'kthlist2pebbling':
        from cnfgen.clitools.kthlist2pebbling import cli
    elif tool == 'cnfshuffle':
        from cnfgen.clitools.cnfshuffle import cli
    else:
        raise KeyError(tool)
    if hasattr(msg, '_prefix'):
        msg._prefix = ''
    old = (sys.stdin, sys.stdout, sys.stderr)
    out = io.StringIO()
    sys.stdin = io.StringIO(stdin_text or '')
    sys.stdout = out
    sys.stderr = io.StringIO()
    cwd = cwd or _CWD[0]          # the scratch directory of the running shard
    cwd0 = os.getcwd() if cwd else None
    try:
        try:
            if cwd:
                os.chdir(cwd)         # file arguments given by relative names
            res = cli([str(a) for a in argv], mode=mode)
            status = 'ok'
        except CLIError as e:
            res, status = str(e), 'clierror'
        except SystemExit as e:
            res, status = repr(e.code), 'exit'
        except Exception as e:        # noqa
            res, status = e, 'exception'
    finally:
        sys.stdin, sys.stdout, sys.stderr = old
        if cwd0 is not None:
            os.chdir(cwd0)
        if hasattr(msg, '_prefix'):
            msg._prefix = ''
    gc.collect()                      # closes files opened by argparse.FileType
    return status, res, out.getvalue()


_OBJ = re.compile(r'<cnfgen\.graphs\.\w+ object at 0x[0-9a-fA-F]+>')
_SENT = re.compile('\x02G\\d\x02')


def signature(F):
    return {'cls': type(F).__name__,
            'n': F.number_of_variables(),
            'names': list(F.all_variable_labels()),
            'items': [list(x) for x in F],
            'descr': F.header.get('description')}


def description_matches(cli_descr, lib_descr):
    """Equal up to the names of the graphs (sentinels on the library side) and
    up to the address inside a default object repr."""
    if cli_descr is None or lib_descr is None:
        return cli_descr == lib_descr
    a = _OBJ.sub('<obj>', str(cli_descr))
    b = _OBJ.sub('<obj>', str(lib_descr))
    parts = _SENT.split(b)
    rx = '(.+?)'.join(re.escape(p) for p in parts)
    return re.fullmatch(rx, a, flags=re.S) is not None


def formula_diff(got, exp, names=True):
    """First difference between two signatures (None when equal)."""
    if got['cls'] != exp['cls']:
        return 'class', 'tool builds a %s, library call builds a %s' % (got['cls'], exp['cls'])
    if got['n'] != exp['n']:
        return 'formula', 'number of variables %d, library %d' % (got['n'], exp['n'])
    if names and got['names'] != exp['names']:
        i = next((i for i, (a, b) in enumerate(zip(got['names'], exp['names'])) if a != b),
                 min(len(got['names']), len(exp['names'])))
        return 'formula', 'variable names differ at index %d: %r vs library %r' % (
            i + 1, got['names'][i:i + 2], exp['names'][i:i + 2])
    if not names and (len(got['names']) != got['n'] or len(set(got['names'])) != got['n']):
        return 'formula', 'names are not %d distinct labels' % got['n']
    if got['items'] != exp['items']:
        if len(got['items']) != len(exp['items']):
            return 'formula', '%d clauses/constraints, library %d' % (len(got['items']),
                                                                      len(exp['items']))
        i = next(i for i, (a, b) in enumerate(zip(got['items'], exp['items'])) if a != b)
        return 'formula', 'clause/constraint %d is %r, library %r' % (i + 1, got['items'][i],
                                                                       exp['items'][i])
    return None


class Tmp:
    """Private directory of a shard / replay."""

    def __init__(self):
        self.path = tempfile.mkdtemp(prefix='c17_%d_' % os.getpid())
        _CWD[0] = self.path
        self.k = 0

    def tag(self):
        self.k += 1
        return 'k%d' % self.k

    def write(self, path, text):
        with open(path, 'w', encoding='utf-8') as f:
            f.write(text)

    def close(self):
        shutil.rmtree(self.path, ignore_errors=True)


def hseed(case):
    return zlib.crc32(json.dumps(case, sort_keys=True, default=repr).encode()) & 0x7fffffff


def scrub(text, tmp):
    return str(text).replace(tmp.path, '<tmp>')


# ------------------------------------------------------- formula/chain cases
def opt_class(f):
    if 'base' in f:
        return 'base'
    o = ','.join(f['o']) if f['o'] else '-'
    v = f['v'] or '-'
    if f['cmd'] == 'tseitin' and f['v'] == 'charge':
        v = 'charge=' + str(f['p'][0])            # the charge pattern is a keyword
    return '%s:%s' % (v, o)


def key_of(case, symptom):
    f = case['f']
    if 'base' in f:
        parts = [case['tool'], '-T', '+'.join(t[0] for t in case['T'])]
    else:
        parts = [case['tool'], f['cmd'], opt_class(f)]
        if case.get('T'):
            parts += ['-T', '+'.join(t[0] for t in case['T'])]
    parts.append(symptom)
    return ':'.join(parts)


def build_argv(case, tmp, T):
    """tokens, stdin text, graph loaders for the formula part and each -T."""
    f = case['f']
    tag = tmp.tag()
    stdin = None
    files = []
    graphs = []          # (descriptor, tag) for the formula part
    gt = T.GT()
    if 'base' in f:
        ftoks = list(T.CHAIN_BASES[f['base']][1])
    else:
        sub = T.FORMULAS[f['cmd']]
        for i, gd in enumerate(f['g']):
            gtag = '%s_g%d' % (tag, i)
            toks, sin, fl = T.graph_tokens(gd, tmp.path, gtag)
            gt.append(toks)
            files += fl
            graphs.append((gd, gtag))
            if sin is not None:
                stdin = sin
        if f['cmd'] == 'dimacs':
            text = T.DIMACS_CNF[f['p'][0]]
            if f['v'] == 'file':
                path = os.path.join(tmp.path, 'in_%s.cnf' % tag)
                files.append((path, text))
                gt.extra['dimacs_path'] = path
            else:
                stdin = text
        ftoks = sub.argv(f, gt)
    ttoks = []
    tgraphs = []
    for j, (tname, tp) in enumerate(case.get('T') or []):
        tr = T.TRANSFORMS[tname]
        g2 = T.GT()
        lst = []
        for i, gd in enumerate(tr.graphs(tp)):
            gtag = '%s_t%d_%d' % (tag, j, i)
            toks, sin, fl = T.graph_tokens(gd, tmp.path, gtag)
            g2.append(toks)
            files += fl
            lst.append((gd, gtag))
            if sin is not None:
                stdin = sin
        tgraphs.append(lst)
        ttoks += ['-T'] + tr.tokens(tp, g2)
    glob = []
    if case.get('seed') is not None:
        glob += [case.get('seedopt', '--seed'), str(case['seed'])]
    glob += list(case.get('glob', []))
    argv = [case['tool']] + glob + ftoks + ttoks
    for path, text in files:
        tmp.write(path, text)
    return argv, stdin, graphs, tgraphs


def lib_graphs(lst, tmp, T, L, first_index=0):
    out = []
    for i, (gd, gtag) in enumerate(lst):
        g = T.graph_lib(gd, tmp.path, gtag, L)
        kind = gd['lib'][0]
        if kind in ('file', 'stdin'):
            # harness self-check: the hand-written file means what it should
            want = T.content_graph(gd['lib'][1])
            got = T.graph_facts(g)
            if tuple(got) != tuple(want):
                raise RuntimeError('harness: file %r read as %r, meant %r' % (gd, got, want))
        g.name = T.SENTINEL % (first_index + i)
        out.append(g)
    return out


def lib_stream(case, graphs, tgraphs, tmp, T, L, fc):
    """Lazy sequence of thunks: the candidate formulas the command line may
    stand for (a single one unless a random object is matched existentially)."""
    f = case['f']
    chain = case.get('T') or []
    seed = case.get('seed') if case.get('seed') is not None else case.get('hseed')
    if seed is not None:
        random.seed(seed)
    if 'base' in f:
        first = T.CHAIN_BASES[f['base']][2](L, fc)
    else:
        sub = T.FORMULAS[f['cmd']]
        G = lib_graphs(graphs, tmp, T, L)
        first = sub.lib(f, G, fc, L)
    if isinstance(first, T.Exists):
        stream = iter(first.thunks)
        kinds = [first.kind]
    else:
        stream = iter([lambda: first])
        kinds = []
    random_later = [any(T.TRANSFORMS[n].random and n == 'shuffle' for n, _ in chain[j + 1:])
                    for j in range(len(chain))]

    def expand(stream, j):
        tname, tp = chain[j]
        tr = T.TRANSFORMS[tname]
        TG = lib_graphs(tgraphs[j], tmp, T, L, first_index=4)
        for th in stream:
            F = th()
            r = tr.lib(F, tp, TG, L, mirror=random_later[j])
            if isinstance(r, T.Exists):
                kinds.append(r.kind)
                for t2 in r.thunks:
                    yield t2
            else:
                yield (lambda r=r: r)

    for j in range(len(chain)):
        stream = expand(stream, j)
    return stream, kinds


def diagnose_chain(case, got, graphs, tgraphs, tmp, T, L, fc):
    """A chain of two transformations that does not give the left-to-right
    composition: is it the right-to-left one, or only one of the two steps?
    (collapses a systematic defect of the chain handling into one key)"""
    chain = case.get('T') or []
    if len(chain) != 2:
        return None
    variants = [('applied-right-to-left', [chain[1], chain[0]], [tgraphs[1], tgraphs[0]],
                 'the result equals the transformations applied right to left'),
                ('only-first-applied', [chain[0]], [tgraphs[0]],
                 'the result equals applying only the first transformation'),
                ('only-last-applied', [chain[1]], [tgraphs[1]],
                 'the result equals applying only the last transformation')]
    for sym, ch, tg, text in variants:
        alt = dict(case, T=ch)
        try:
            stream, _ = lib_stream(alt, graphs, tg, tmp, T, L, fc)
            for k, th in enumerate(stream):
                if k >= 200:
                    break
                if formula_diff(got, signature(th())) is None:
                    return sym, text
        except Exception:          # noqa: the alternative reading is not even defined
            continue
    return None


def uses_mirror(case, T):
    f = case['f']
    if 'cmd' in f and getattr(T.FORMULAS[f['cmd']], 'seeded', False):
        return True
    return any(n == 'shuffle' for n, _ in (case.get('T') or []))


def check_formula_case(case, tmp, T, R=None):
    """One command line in mode='formula' against the table."""
    L = _lib()
    out = []

    def bad(sym, what):
        out.append({'key': key_of(case, sym), 'what': scrub(what, tmp), 'case': case})

    fc = L.CNF if case['tool'] == 'cnfgen' else __import__('cnfgen.formula.opb', fromlist=['OPB']).OPB
    argv, stdin, graphs, tgraphs = build_argv(case, tmp, T)
    random.seed(hseed(case))
    status, res, _ = cli_call(case['tool'], argv, 'formula', stdin, cwd=tmp.path)
    if R is not None:
        R.stats['cli_calls'] += 1
    if case.get('seed') is not None and status == 'ok' and hseed(case) % 3 == 0:
        # a command line with --seed stands for ONE formula: the state the
        # generator was in before the call (here: another one) must not matter,
        # else there is no "the library call it stands for"
        first = signature(res)
        random.seed(hseed(case) ^ 0x5bd1e995)
        random.random()
        st2, res2, _ = cli_call(case['tool'], argv, 'formula', stdin, cwd=tmp.path)
        if R is not None:
            R.stats['cli_calls'] += 1
            R.stats['seeded_command_lines_run_twice'] += 1
        if st2 != 'ok' or formula_diff(first, signature(res2)) is not None:
            bad('seeded-command-line-depends-on-earlier-random-state',
                'argv=%r gives two different formulas under two states of the generator before the '
                'call: %s' % (argv[1:], formula_diff(first, signature(res2)) if st2 == 'ok' else st2))
            return out, 'violation'
        status, res = st2, res2
    # ---- library side
    lib_refuses = None
    cands = None
    try:
        stream, kinds = lib_stream(case, graphs, tgraphs, tmp, T, L, fc)
        cands = stream
    except ValueError as e:
        lib_refuses = e
        kinds = []
    except FileNotFoundError as e:
        # `save` did not produce the file: the command line failed before
        if status == 'ok':
            bad('save-file-missing', 'tool succeeded but the file named after `save` does not exist: %s' % e)
            return out, 'violation'
        cands = None
        kinds = []
        # a random construction with a modifier may be impossible for the drawn
        # graph (no missing edge left to add ...): documented refusal of the
        # graph argument itself, there is no graph to hand to the library
        mods = ('addedges', 'splitedges', 'plantclique', 'plantbiclique')
        alld = [gd for gd, _ in graphs] + [gd for lst in tgraphs for gd, _ in lst]
        if status == 'clierror' and any(m in gd['tok'] for gd in alld for m in mods) and \
           any(w in str(res) for w in ('does not have', 'larger than graph', 'does not fit')):
            return out, 'graph_argument_refused'
    if status == 'exception':
        bad('exception:' + type(res).__name__, 'argv=%r raised %r' % (argv[1:], res))
        return out, 'violation'
    if status == 'exit':
        bad('exit', 'argv=%r exited with %s' % (argv[1:], res))
        return out, 'violation'

    exp = None
    matched = None
    first_sig = None
    nc = 0
    if cands is not None:
        got = signature(res) if status == 'ok' else None
        n_refused = 0
        try:
            for th in cands:
                nc += 1
                try:
                    Fl = th()
                except ValueError as e:
                    n_refused += 1
                    lib_refuses = e
                    continue
                sig = signature(Fl)
                sig['nonames'] = bool(getattr(Fl, '_c17_no_names', False))
                if first_sig is None:
                    first_sig = sig
                if got is None:
                    break
                if formula_diff(got, sig, names=not sig['nonames']) is None:
                    if matched is None:
                        matched = sig
                    if description_matches(got['descr'], sig['descr']):
                        matched = sig
                        break
                if nc >= 6000:
                    raise RuntimeError('harness: too many candidates')
        except ValueError as e:           # raised while expanding the stream
            lib_refuses = e
        if first_sig is not None:
            lib_refuses = None
        if R is not None:
            R.stats['library_candidates_built'] += nc
    if lib_refuses is not None and first_sig is None:
        if status == 'clierror':
            return out, 'both_refuse'
        bad('tool-builds-library-refuses',
            'argv=%r builds a formula but the library call raises ValueError(%s)' % (argv[1:], lib_refuses))
        return out, 'violation'
    if status == 'clierror':
        bad('tool-refuses-library-builds',
            'argv=%r is refused (%s) but the library call builds a formula' % (
                argv[1:], str(res).splitlines()[0] if str(res) else ''))
        return out, 'violation'
    # both built something
    if matched is None:
        d = formula_diff(got, first_sig, names=not first_sig['nonames'])
        diag = diagnose_chain(case, got, graphs, tgraphs, tmp, T, L, fc)
        if diag is not None:
            out.append({'key': '%s:-T-chain:%s' % (case['tool'], diag[0]),
                        'what': scrub('argv=%r: %s (%s)' % (argv[1:], diag[1], d[1]), tmp), 'case': case})
            return out, 'violation'
        if nc > 1:
            bad(d[0], 'argv=%r: none of the %d candidate library formulas (%s) equals the tool\'s '
                'formula; against the first candidate: %s' % (argv[1:], nc, '; '.join(kinds), d[1]))
        else:
            bad(d[0], 'argv=%r: %s' % (argv[1:], d[1]))
        return out, 'violation'
    if not matched['nonames'] and not description_matches(got['descr'], matched['descr']):
        # C17 speaks of variables, names and clauses: a header description that
        # differs from the library's is counted, not reported (provenance in
        # the header is C19's business)
        if R is not None:
            R.stats['header_description_differs_from_library'] += 1
    if R is not None:
        R.nt = got['n'] > 0 and len(got['items']) > 0
        if kinds:
            R.outcomes['oracle:exists'] += 1
        elif uses_mirror(case, T):
            R.outcomes['oracle:mirror'] += 1
        else:
            R.outcomes['oracle:direct-call'] += 1
    return out, 'both_ok'


# -------------------------------------------------------- kthlist2pebbling --
def check_k2p_case(case, tmp, T, R=None):
    """kthlist2pebbling == library == `cnfgen peb` on the same file."""
    L = _lib()
    out = []
    text = T.K2P_FILES[case['file']]
    tname, tp = case['T'] if case['T'] else (None, None)
    tag = tmp.tag()
    path = os.path.join(tmp.path, 'dag_%s.kthlist' % tag)
    tmp.write(path, text)

    def key(sym):
        if sym.startswith('quiet:'):
            return 'kthlist2pebbling:' + sym          # independent of the transformation
        return 'kthlist2pebbling:%s:%s' % ('T=' + tname if tname else 'no-T', sym)

    def bad(sym, what):
        out.append({'key': key(sym), 'what': scrub(what, tmp), 'case': case})

    ttoks = []
    tg = []
    if tname:
        tr = T.TRANSFORMS[tname]
        g2 = T.GT()
        files = []
        for i, gd in enumerate(tr.graphs(tp)):
            gtag = '%s_t_%d' % (tag, i)
            toks, sin, fl = T.graph_tokens(gd, tmp.path, gtag)
            if sin is not None:
                raise RuntimeError('harness: stdin graph inside kthlist2pebbling case')
            g2.append(toks)
            files += fl
            tg.append((gd, gtag))
        for p_, t_ in files:
            tmp.write(p_, t_)
        ttoks = tr.tokens(tp, g2)
    via = case['via']
    stdin = None
    if via == 'stdin':
        itoks = []
        stdin = text
    elif via == 'dash':
        itoks = ['-i', '-']
        stdin = text
    elif via == 'long':
        itoks = ['--input', path]
    else:
        itoks = ['-i', path]
    qtoks = [case['q']] if case.get('q') else []
    otoks = []
    opath = None
    if case.get('o'):
        opath = os.path.join(tmp.path, 'out_%s.cnf' % tag)
        otoks = [case['o'], opath]
    argv = ['kthlist2pebbling'] + qtoks + itoks + otoks + ttoks
    hs = hseed(case)

    # library
    def lib_formulas():
        random.seed(hs)
        D = L.graphs.readGraph(io.StringIO(text), 'dag', 'kthlist')
        F = L.PebblingFormula(D)
        if not tname:
            return [F]
        TG = lib_graphs(tg, tmp, T, L, first_index=4)
        r = T.TRANSFORMS[tname].lib(F, tp, TG, L, mirror=False)
        if isinstance(r, T.Exists):
            return r.thunks
        return [r]

    random.seed(hs)
    status, res, _ = cli_call('kthlist2pebbling', argv, 'formula', stdin)
    if R is not None:
        R.stats['cli_calls'] += 1
    if status != 'ok':
        bad('exception:' + (type(res).__name__ if status == 'exception' else status),
            'argv=%r -> %s %r' % (argv[1:], status, res))
        return out, 'violation'
    got = signature(res)
    cands = lib_formulas()          # the file was written by `save` during the call
    match = None
    first = None
    for c in cands:
        F = c() if callable(c) else c
        sig = signature(F)
        sig['F'] = F
        if first is None:
            first = sig
        if formula_diff(got, sig) is None:
            match = sig
            break
    if match is None:
        d = formula_diff(got, first)
        bad(d[0], 'argv=%r: %s' % (argv[1:], d[1]))
        return out, 'violation'
    if got['descr'] != match['descr'] and R is not None:
        R.stats['header_description_differs_from_library'] += 1
    # the same through `cnfgen peb`
    if case.get('vs_peb'):
        argv2 = ['cnfgen', 'peb', 'kthlist', path] + (['-T'] + ttoks if ttoks else [])
        random.seed(hs)
        st2, res2, _ = cli_call('cnfgen', argv2, 'formula', None)
        if R is not None:
            R.stats['cli_calls'] += 1
        if st2 != 'ok':
            bad('peb-differs', 'argv=%r builds a formula, %r -> %s %r' % (argv[1:], argv2[1:], st2, res2))
        else:
            s2 = signature(res2)
            d = formula_diff(got, s2)
            if d is not None:
                bad('peb-differs', 'argv=%r vs %r: %s' % (argv[1:], argv2[1:], d[1]))
    # emitted text
    if case.get('text'):
        Fm = match['F']
        random.seed(hs)
        st3, res3, so = cli_call('kthlist2pebbling', argv, case['text'], stdin)
        if R is not None:
            R.stats['cli_calls'] += 1
        if st3 != 'ok':
            bad('exception:' + st3, 'argv=%r mode=%s -> %s %r' % (argv[1:], case['text'], st3, res3))
            return out, 'violation'
        if case['text'] == 'string':
            emitted = res3
            quiet = True
        else:
            if opath:
                with open(opath) as fh:
                    emitted = fh.read()
                if so:
                    bad('output:stdout-not-empty', 'argv=%r wrote %d characters to stdout besides -o' % (argv[1:], len(so)))
            else:
                emitted = so
            quiet = bool(case.get('q'))
        if True:
            buf = io.StringIO()
            Fm.to_file(buf, fileformat='dimacs', export_header=not quiet)
            if emitted != buf.getvalue():
                body = io.StringIO()
                Fm.to_file(body, fileformat='dimacs', export_header=False)
                stripped = ''.join(l for l in emitted.splitlines(True) if not l.startswith('c'))
                if quiet and stripped == body.getvalue():
                    bad('quiet:header-printed', 'argv=%r (mode=%s): the output still carries %d comment '
                        'lines' % (argv[1:], case['text'],
                                   sum(1 for l in emitted.splitlines() if l.startswith('c'))))
                else:
                    bad('output:text', 'argv=%r (mode=%s): emitted text differs from the library rendering: '
                        '%r... vs %r...' % (argv[1:], case['text'], emitted[:80], buf.getvalue()[:80]))
            elif R is not None:
                R.outcomes['render:text_compared'] += 1
    if R is not None:
        R.nt = got['n'] > 0 and len(got['items']) > 0
    return out, 'violation' if out else 'both_ok'


# ------------------------------------------------------------- cnfshuffle --
def check_shuffle_case(case, tmp, T, R=None):
    L = _lib()
    out = []
    text = T.DIMACS_CNF[case['file']]
    tag = tmp.tag()
    path = os.path.join(tmp.path, 'shuf_%s.cnf' % tag)
    tmp.write(path, text)
    flags = case['flags']
    long = {'p': '--no-polarity-flips', 'v': '--no-variables-permutation', 'c': '--no-clauses-permutation'}
    ftoks = [('-' + x) if x.islower() else long[x.lower()] for x in flags]
    s = {x.lower() for x in flags}
    stdin = None
    if case['via'] == 'stdin':
        itoks = []
        stdin = text
    else:
        itoks = ['-i', path]
    qtoks = [case['q']] if case.get('q') else []
    argv = ['cnfshuffle', '--seed', str(case['seed'])] + qtoks + ftoks + itoks

    def bad(sym, what):
        out.append({'key': 'cnfshuffle:%s' % sym, 'what': scrub(what, tmp), 'case': case})

    random.seed(str(case['seed']))
    Fl = L.Shuffle(L.CNF.from_file(io.StringIO(text) if case['via'] == 'stdin' else path),
                   polarity_flips='fixed' if 'p' in s else 'shuffle',
                   variables_permutation='fixed' if 'v' in s else 'shuffle',
                   clauses_permutation='fixed' if 'c' in s else 'shuffle')
    exp = signature(Fl)
    random.seed(hseed(case))
    st, res, _ = cli_call('cnfshuffle', argv, 'formula', stdin)
    if R is not None:
        R.stats['cli_calls'] += 1
    if st != 'ok':
        bad('exception:' + (type(res).__name__ if st == 'exception' else st), 'argv=%r -> %s %r' % (argv[1:], st, res))
        return out, 'violation'
    got = signature(res)
    d = formula_diff(got, exp)
    if d is not None:
        bad(d[0], 'argv=%r: %s' % (argv[1:], d[1]))
        return out, 'violation'
    random.seed(hseed(case))
    st, res, so = cli_call('cnfshuffle', argv, 'output', stdin)
    if R is not None:
        R.stats['cli_calls'] += 1
    if st != 'ok':
        bad('exception:' + st, 'argv=%r mode=output -> %s %r' % (argv[1:], st, res))
        return out, 'violation'
    quiet = bool(case.get('q'))
    buf = io.StringIO()
    Fl.to_file(buf, fileformat='dimacs', export_header=not quiet)
    if so != buf.getvalue():
        body = io.StringIO()
        Fl.to_file(body, fileformat='dimacs', export_header=False)
        stripped = ''.join(l for l in so.splitlines(True) if not l.startswith('c'))
        if quiet and stripped == body.getvalue():
            bad('quiet:header-printed', 'argv=%r: the output still carries %d comment lines' % (
                argv[1:], sum(1 for l in so.splitlines() if l.startswith('c'))))
        else:
            bad('output:text', 'argv=%r: emitted text differs from the library rendering: %r... vs %r...' % (
                argv[1:], so[:80], buf.getvalue()[:80]))
    elif R is not None:
        R.outcomes['render:text_compared'] += 1
    if R is not None:
        R.nt = got['n'] > 0 and len(got['items']) > 0
    return out, 'violation' if out else 'both_ok'


# ------------------------------------------------------------- rendering --
RENDER_BASES = [
    # tokens, library call, needs seed
    (['php', '3', '2', '--functional'],
     lambda L, fc: L.PigeonholePrinciple(3, 2, functional=True, formula_class=fc)),
    (['op', '3', '--total'],
     lambda L, fc: L.OrderingPrinciple(3, total=True, formula_class=fc)),
    (['tseitin', 'first', 'complete', '4', '-T', 'xor', '2'],
     lambda L, fc: L.XorSubstitution(L.TseitinFormula(L.Graph.complete_graph(4), [1, 0, 0, 0],
                                                      formula_class=fc), 2)),
    (['and', '0', '0'], None),
    (['randkcnf', '3', '5', '6'],
     lambda L, fc: L.RandomKCNF(3, 5, 6, formula_class=fc)),
]
PB_RENDER_BASES = [
    (['php', '3', '2', '--onto'],
     lambda L, fc: L.PigeonholePrinciple(3, 2, onto=True, formula_class=fc)),
    (['subsetcard', 'complete', '2', '3', '-e'],
     lambda L, fc: L.SubsetCardinalityFormula(L.graphs.CompleteBipartiteGraph(2, 3), equalities=True,
                                              formula_class=fc)),
    (['parity', '4'],
     lambda L, fc: L.CountingPrinciple(4, 2, formula_class=fc)),
]


def expected_format(tool, of, outext):
    """The output format the documentation promises."""
    for i, t in enumerate(of):
        if t in ('-of', '--output-format'):
            return of[i + 1]
        if t in ('-l', '--latex'):
            return 'latex'
    if tool == 'pbgen':
        return 'opb'                    # "(default: opb)"
    if outext == 'tex':
        return 'latex'
    if outext == 'opb':
        return 'opb'
    return 'dimacs'                     # "(default: dimacs)"


def check_render_case(case, tmp, T, R=None):
    L = _lib()
    out = []
    tool = case['tool']
    bases = RENDER_BASES if tool == 'cnfgen' else PB_RENDER_BASES
    btoks, blib = bases[case['base']]
    fc = L.CNF if tool == 'cnfgen' else __import__('cnfgen.formula.opb', fromlist=['OPB']).OPB
    tag = tmp.tag()
    glob = []
    if case.get('q'):
        glob.append(case['q'])
    if case.get('varnames'):
        glob.append('--varnames')
    glob += list(case['of'])
    opath = None
    if case.get('out'):
        opath = os.path.join(tmp.path, 'out_%s.%s' % (tag, case['out']))
        glob += [case.get('oopt', '-o'), opath]
    elif case.get('odash'):
        glob += ['-o', '-']
    if case.get('seed') is not None:
        glob += ['--seed', str(case['seed'])]
    argv = [tool] + glob + list(btoks)
    fmt = expected_format(tool, case['of'], case.get('out'))
    quiet = case.get('q') in ('-q', '--quiet')
    mode = case['mode']

    def bad(sym, what):
        cls = '%s:render:%s:%s' % (tool, fmt, sym)
        out.append({'key': cls, 'what': scrub(what, tmp), 'case': case})

    random.seed(hseed(case))
    st, Fc, _ = cli_call(tool, argv, 'formula', None)
    if R is not None:
        R.stats['cli_calls'] += 1
    if st != 'ok':
        bad('exception:' + (type(Fc).__name__ if st == 'exception' else st), 'argv=%r -> %s %r' % (argv[1:], st, Fc))
        return out, 'violation'
    got = signature(Fc)
    if blib is not None:
        if case.get('seed') is not None:
            random.seed(case['seed'])
        Fref = blib(L, fc)
        d = formula_diff(got, signature(Fref))
        if d is not None:
            bad('formula-changed', 'argv=%r: rendering options changed the formula: %s' % (argv[1:], d[1]))
            return out, 'violation'
    else:
        Fref = Fc
    if 'random seed' in Fc.header and case.get('seed') is None:
        bad('header', 'argv=%r: header has a random seed entry without --seed' % (argv[1:],))
    if case.get('seed') is not None and Fc.header.get('random seed') != case['seed']:
        bad('header', 'argv=%r: header random seed is %r' % (argv[1:], Fc.header.get('random seed')))
    Fref.header = OrderedDict(Fc.header)
    random.seed(hseed(case))
    st, res, so = cli_call(tool, argv, mode, None)
    if R is not None:
        R.stats['cli_calls'] += 1
    if st != 'ok':
        bad('exception:' + (type(res).__name__ if st == 'exception' else st),
            'argv=%r mode=%s -> %s %r' % (argv[1:], mode, st, res))
        return out, 'violation'
    if mode == 'string':
        emitted = res
        expected = getattr(Fref, {'dimacs': 'to_dimacs', 'opb': 'to_opb', 'latex': 'to_latex'}[fmt])()
        if emitted != expected:
            bad('string', 'argv=%r mode=string: text differs from the library\'s to_%s(): %r... vs %r...' % (
                argv[1:], fmt, emitted[:80], expected[:80]))
        elif R is not None:
            R.outcomes['render:text_compared'] += 1
    else:
        if opath:
            with open(opath, encoding='utf-8') as fh:
                emitted = fh.read()
            if so:
                bad('stdout-not-empty', 'argv=%r wrote %d characters to stdout besides -o' % (argv[1:], len(so)))
        else:
            emitted = so
        if fmt == 'latex':
            mark = '\x03EXTRA\x03'
            buf = io.StringIO()
            Fref.to_file(buf, fileformat='latex', export_header=not quiet, extra_text=mark)
            pre, post = buf.getvalue().split(mark)
            ok = emitted.startswith(pre) and emitted.endswith(post) and len(emitted) >= len(pre) + len(post)
            hdr = 'Formula header' in emitted
        else:
            buf = io.StringIO()
            Fref.to_file(buf, fileformat=fmt, export_header=not quiet,
                         export_varnames=bool(case.get('varnames')))
            ok = emitted == buf.getvalue()
            if fmt == 'dimacs':
                hdr = any(l.startswith('c ') and not l.startswith('c varname') for l in emitted.splitlines())
            else:
                hdr = any(l.startswith('* ') and not l.startswith('* varname') and not l.startswith('* #variable')
                          for l in emitted.splitlines())
        if quiet and hdr:
            bad('quiet:header-printed', 'argv=%r: quiet output still carries header lines' % (argv[1:],))
        elif not quiet and not hdr:
            bad('verbose:no-header', 'argv=%r: verbose output carries no header lines' % (argv[1:],))
        elif not ok:
            bad('text', 'argv=%r: emitted %s text differs from the library rendering of the same formula '
                'with export_header=%s export_varnames=%s: %r...' % (
                    argv[1:], fmt, not quiet, bool(case.get('varnames')), emitted[:100]))
        elif R is not None:
            R.outcomes['render:text_compared'] += 1
    if R is not None:
        R.nt = got['n'] > 0 and len(got['items']) > 0
    return out, 'violation' if out else 'both_ok'


# ------------------------------------------------------- graph arguments --
def check_gsave_case(case, tmp, T, R=None):
    """The graph a graph argument builds is the graph `save` stores (and, for
    the deterministic constructions, the graph of the library constructor).
    Observed at make_graph_from_spec, the function behind the argparse actions:
    gives defects of the graph-argument machinery one narrow key instead of
    one per sub-command."""
    L = _lib()
    from cnfgen.clitools.graph_args import make_graph_from_spec
    out = []
    gd = case['g']
    tag = tmp.tag()
    toks, stdin, files = T.graph_tokens(gd, tmp.path, tag)
    for p_, t_ in files:
        tmp.write(p_, t_)
    mods = [x for x in gd['tok'] if x in ('plantclique', 'addedges', 'splitedges', 'plantbiclique')]
    what = '+'.join([gd['tok'][0]] + mods) if gd['tok'] else gd['lib'][0]

    def bad(sym, text):
        out.append({'key': 'graph-arg:%s:%s:%s' % (gd['t'], what, sym), 'what': scrub(text, tmp), 'case': case})

    random.seed(hseed(case))
    old = sys.stdin
    sys.stdin = io.StringIO(stdin or '')
    cwd0 = os.getcwd()
    try:
        try:
            os.chdir(tmp.path)     # file arguments given by relative names
            G = make_graph_from_spec(gd['t'], [str(x) for x in toks])
        except ValueError:         # documented refusal (e.g. no missing edge left to add)
            return out, 'both_refuse'
        except Exception as e:     # noqa
            bad('exception:' + type(e).__name__, 'graph argument %r raised %r' % (toks, e))
            return out, 'violation'
    finally:
        sys.stdin = old
        os.chdir(cwd0)
    H = T.graph_lib(gd, tmp.path, tag, L)
    a, b = T.graph_facts(G), T.graph_facts(H)
    if R is not None:
        R.outcomes['graph:' + gd['lib'][0]] += 1
        R.nt = len(a[2]) > 0
    if a != b:
        sym = {'saved': 'saved-graph-differs-from-used', 'direct': 'differs-from-library-constructor',
               'file': 'differs-from-readGraph', 'stdin': 'differs-from-readGraph'}[gd['lib'][0]]
        bad(sym, 'graph argument %r gives %r, the library side %r' % (toks, a, b))
        return out, 'violation'
    return out, 'both_ok'


def gsave_cases(tier, seed):
    import ref.c17_cli_table as T
    cs = []
    seen = set()
    boxes = (T.SIMPLE_CORE + T.SIMPLE_MORE + T.SIMPLE_EVEN + T.SMALL_SIMPLE + T.DAG_CORE + T.DAG_MORE +
             T.BIP_CORE + T.BIP_MORE + T.BIP_LEFT3)
    # every random construction / modifier x every format x both ways of naming the format
    base = {'simple': [['gnp', 5, 0.5], ['gnm', 5, 4], ['gnd', 4, 2], ['gnp', 2, 0.5, 2],
                       ['complete', 3, 'plantclique', 2], ['empty', 4, 'addedges', 3],
                       ['grid', 2, 2, 'splitedges', 2], ['gnp', 6, 0.3, 'plantclique', 3, 'addedges', 1,
                                                         'splitedges', 1]],
            'dag': [['path', 2], ['tree', 1], ['pyramid', 2]],
            'bipartite': [['glrp', 3, 2, 0.5], ['glrm', 2, 3, 3], ['glrd', 3, 3, 2], ['regular', 2, 4, 2],
                          ['shift', 2, 3, 1], ['empty', 2, 2, 'plantbiclique', 1, 2],
                          ['glrm', 3, 3, 2, 'addedges', 2, 'plantbiclique', 1, 1]]}
    fmts = {'simple': ['kthlist', 'gml', 'dot', 'dimacs'], 'dag': ['kthlist', 'gml', 'dot', 'dimacs'],
            'bipartite': ['kthlist', 'gml', 'dot', 'matrix']}
    more = []
    for t in ('simple', 'dag', 'bipartite'):
        for tok in base[t]:
            for fmt in fmts[t]:
                for explicit in (False, True):
                    more.append({'t': t, 'tok': [str(x) for x in tok], 'lib': ['saved', fmt, explicit]})
    for gd in boxes + more:
        k = json.dumps(gd, sort_keys=True)
        if k not in seen:
            seen.add(k)
            cs.append({'kind': 'gsave', 'g': gd})
    return cs


# ----------------------------------------------------------- introspection --
def registered():
    from cnfgen.clitools.cmdline import get_formula_helpers, get_transformation_helpers
    return ({h.name: h for h in get_formula_helpers()},
            {h.name: h for h in get_transformation_helpers()})


def option_strings(helper):
    from cnfgen.clitools.cmdline import CLIParser
    p = CLIParser(prog='x')
    helper.setup_command_line(p)
    res = set()
    for a in p._actions:
        for s in a.option_strings:
            if s not in ('-h', '--help'):
                res.add(s)
    return res


def introspect(args, R):
    """The table must describe exactly the registered sub-commands and their
    option strings; anything else means the table is out of date -> no verdict."""
    import ref.c17_cli_table as T
    fh, th = registered()
    problems = []
    for name in sorted(set(fh) | set(T.FORMULAS)):
        if name not in T.FORMULAS:
            problems.append('formula sub-command %r is registered but has no table entry' % name)
        elif name not in fh:
            problems.append('table entry %r is not a registered formula sub-command' % name)
        else:
            have = option_strings(fh[name])
            want = {s for o in T.FORMULAS[name].opts for s in o.spellings}
            # option strings that introduce a graph argument are positional in the table
            want |= {'-e'} if name == 'iso' else set()
            want |= {'-G', '-H'} if name == 'subgraph' else set()
            if have != want:
                problems.append('options of %r: registered %r, table %r' % (name, sorted(have), sorted(want)))
    for name in sorted(set(th) | set(T.TRANSFORMS)):
        if name not in T.TRANSFORMS:
            problems.append('transformation %r is registered but has no table entry' % name)
        elif name not in th:
            problems.append('table entry %r is not a registered transformation' % name)
    R.case(sample={'registered_formulas': sorted(fh), 'registered_transformations': sorted(th)},
           nontrivial=True)
    R.outcomes['subcommands_covered'] += len(set(fh) & set(T.FORMULAS))
    R.outcomes['transformations_covered'] += len(set(th) & set(T.TRANSFORMS))
    if problems:
        raise RuntimeError('ref/c17_cli_table.py is out of date:\n  ' + '\n  '.join(problems))


# ------------------------------------------------------------ enumeration --
def formula_cases(tier, seed):
    import ref.c17_cli_table as T
    cs = []
    for name in sorted(T.FORMULAS):
        sub = T.FORMULAS[name]
        n_pb = {}
        for f in sub.cases(tier):
            seeds = [None]
            if sub.random:
                seeds = [7] if not getattr(sub, 'seeded', False) else [7, 2311, 0]
                if tier == 'thorough':
                    seeds = seeds + [46512]
            for i, s in enumerate(seeds):
                c = {'kind': 'formula', 'tool': 'cnfgen', 'f': f}
                if s is not None:
                    c['seed'] = s
                    if i == 1:
                        c['seedopt'] = '-S'
                cs.append(c)
            if sub.pb:
                # pbgen: every option subset / placement / spelling; in the quick tier
                # two parameter choices per (variant, options) class
                k = (f['v'], tuple(f['o']), f['place'], json.dumps(f.get('sp', {})), bool(f.get('sweep')))
                n_pb[k] = n_pb.get(k, 0) + 1
                if tier == 'thorough' or n_pb[k] <= 2 or \
                   (f.get('sweep') and n_pb[k] % 3 == 0):
                    c = {'kind': 'formula', 'tool': 'pbgen', 'f': f}
                    if sub.random:
                        c['seed'] = 7
                    cs.append(c)
    return cs


def chain_cases(tier, seed):
    import ref.c17_cli_table as T
    cs = []
    names = sorted(T.TRANSFORMS)
    nb = len(T.CHAIN_BASES)
    # length 1: every transformation x its whole parameter box x every base
    # (explicit compression maps have 3 left vertices: base 2 = count 3 2 has 3 variables)
    for name in names:
        tr = T.TRANSFORMS[name]
        for p in tr.box:
            for b in range(nb):
                if tr.graphs(p) and b != 2:
                    continue
                c = {'kind': 'formula', 'tool': 'cnfgen', 'f': {'base': b}, 'T': [[name, p]]}
                if tr.random:
                    c['seed'] = 7
                cs.append(c)
    # length 2: all ordered pairs (x base formula x parameter choice of each step)
    combos = [(0, 1, 1), (1, 2, 1)]
    if tier == 'thorough':
        combos += [(2, 1, 1), (2, 1, 2), (0, 2, 2), (1, 1, 2)]
    pp = {1: T.PAIR_PARAMS, 2: T.PAIR_PARAMS_2}
    for a in names:
        for b in names:
            for bi, ka, kb in combos:
                c = {'kind': 'formula', 'tool': 'cnfgen', 'f': {'base': bi},
                     'T': [[a, pp[ka][a]], [b, pp[kb][b]]]}
                if T.TRANSFORMS[a].random or T.TRANSFORMS[b].random:
                    c['seed'] = 7 + bi
                cs.append(c)
    # a formula sub-command with a graph argument followed by a chain
    gd = T.DAG_CORE[2]
    for a in ('xor', 'lift', 'shuffle'):
        f = {'cmd': 'peb', 'v': 'D', 'p': [], 'g': [gd], 'o': [], 'place': 'pre', 'ov': {}}
        cs.append({'kind': 'formula', 'tool': 'cnfgen', 'f': f, 'T': [[a, T.PAIR_PARAMS[a]], ['or', [2]]],
                   'seed': 7})
    # a formula given by NUMBERS (its arguments are called N, d, P ... inside the
    # tools) followed by a compression given by a GRAPH, and the other way round:
    # the two parsers must not see each other's arguments
    for (cmd, v, p_, nvars) in (('tseitin', 'Nd', [4, 3], 6), ('subsetcard', 'Nd', [3, 2], 6),
                                ('subsetcard', 'Nd', [2, 1], 2), ('op', 'N', [3], 6), ('op', 'Nd', [4, 3], 12),
                                ('parity', 'N', [3], 3), ('parity', 'N', [4], 6)):
        f = {'cmd': cmd, 'v': v, 'p': list(p_), 'g': [], 'o': [], 'place': 'pre', 'ov': {}}
        for tname in ('xorcomp', 'majcomp'):
            for gd in (T._cons('bipartite', ['complete', nvars, 2], 'direct', 'CompleteBipartiteGraph', nvars, 2),
                       T._cons('bipartite', ['shift', nvars, nvars + 1, 0, 1], 'direct', 'bipartite_shift',
                               nvars, nvars + 1, [0, 1])):
                cs.append({'kind': 'formula', 'tool': 'cnfgen', 'f': dict(f), 'T': [[tname, ['B', gd]]], 'seed': 7})
    # randomness at parse time (random graph argument, stored by 'save') AND at
    # build time (shuffle, mirrored by re-seeding): the seed must be applied
    # again before the formula is built, whatever its value (0 included)
    rnd_graphs = [g for g in T.SIMPLE_CORE + T.SIMPLE_MORE
                  if g['lib'][0] == 'saved' and g['tok'][0] in ('gnp', 'gnm', 'gnd')][:4]
    for gi, g in enumerate(rnd_graphs):
        for sd in (0, 7, 2311):
            f = {'cmd': 'kcolor', 'v': 'G', 'p': [2 + gi % 2], 'g': [g], 'o': [], 'place': 'pre', 'ov': {}}
            c = {'kind': 'formula', 'tool': 'cnfgen', 'f': f,
                 'T': [['shuffle', T.PAIR_PARAMS['shuffle']]] + ([['or', [2]]] if gi % 2 else []),
                 'seed': sd}
            if sd == 2311:
                c['seedopt'] = '-S'
            cs.append(c)
    # a few extra mid-size chains rotated by VERIF_SEED (never the core)
    extra = [['maj', [3]], ['xor', [3]], ['lift', [3]], ['exact', [3, 2]], ['eq', [3]], ['one', [3]]]
    for i in range(2):
        a = extra[(seed + i) % len(extra)]
        b = extra[(seed + i + 3) % len(extra)]
        cs.append({'kind': 'formula', 'tool': 'cnfgen', 'f': {'base': 2}, 'T': [a, b], 'extra': True})
    return cs


def k2p_cases(tier, seed):
    import ref.c17_cli_table as T
    cs = []
    files = sorted(T.K2P_FILES)
    names = sorted(T.TRANSFORMS)
    for fi, fid in enumerate(files):
        # no transformation: every way of giving the input, quiet or not, every mode
        for via in (('file', 'long', 'stdin', 'dash') if (tier == 'thorough' or fid in ('K3', 'K4')) else ('file',)):
            for q in (None, '-q', '--quiet'):
                for text, o in (('output', None), ('output', '-o'), ('output', '--output'), ('string', None)):
                    cs.append({'kind': 'k2p', 'file': fid, 'via': via, 'T': None, 'q': q, 'o': o,
                               'text': text, 'vs_peb': via == 'file' and q is None and o is None})
        for name in names:
            tr = T.TRANSFORMS[name]
            for pi, p in enumerate(tr.box):
                if tr.graphs(p):
                    continue                 # explicit maps need exactly 3 variables: K2/K3 below
                if name in ('xorcomp', 'majcomp') and fid in ('K4',):
                    continue                 # 6 variables: too many candidate maps
                via = ('file', 'stdin')[(fi + pi) % 2]
                q = (None, '-q')[(pi + fi) % 2]
                cs.append({'kind': 'k2p', 'file': fid, 'via': via, 'T': [name, p], 'q': q, 'o': None,
                           'text': 'output' if pi % 3 != 2 else 'string', 'vs_peb': True})
    for name in ('xorcomp', 'majcomp'):
        for p in T.TRANSFORMS[name].box:
            if p[0] == 'B' and p[1]['lib'][0] != 'stdin':
                for fid in ('K2', 'K3'):
                    cs.append({'kind': 'k2p', 'file': fid, 'via': 'file', 'T': [name, p], 'q': None, 'o': None,
                               'text': 'output', 'vs_peb': True})
    return cs


def shuffle_cases(tier, seed):
    cs = []
    subsets = [list(s) for r in range(4) for s in itertools.combinations('pvc', r)] + [['P', 'V', 'C']]
    for fid in ('F1', 'F3'):
        for fl in subsets:
            for q in (None, '-q', '--quiet'):
                cs.append({'kind': 'shuffle', 'file': fid, 'flags': fl, 'q': q, 'seed': 5,
                           'via': 'file' if len(fl) % 2 == 0 else 'stdin'})
    return cs


def render_cases(tier, seed):
    cs = []
    qs = [None, '-q', '--quiet', '-v', '--verbose']
    ofs = [[], ['-of', 'dimacs'], ['-of', 'latex'], ['-of', 'opb'], ['--output-format', 'opb'],
           ['-l'], ['--latex']]
    outs = [(None, None), ('cnf', '-o'), ('tex', '-o'), ('opb', '-o'), ('txt', '--output')]
    nb = len(RENDER_BASES)
    for b in range(nb):
        for q in qs:
            for vn in (False, True):
                for of in ofs:
                    for ext, oopt in outs:
                        if tier != 'thorough' and b >= 1 and (ext in ('txt',) or q in ('--quiet', '--verbose')):
                            continue
                        c = {'kind': 'render', 'tool': 'cnfgen', 'base': b, 'q': q, 'varnames': vn,
                             'of': of, 'out': ext, 'oopt': oopt, 'mode': 'output'}
                        if b == 4:
                            c['seed'] = 2311
                        cs.append(c)
        for of in ofs:
            for q in (None, '-q'):
                c = {'kind': 'render', 'tool': 'cnfgen', 'base': b, 'q': q, 'varnames': False, 'of': of,
                     'out': None, 'mode': 'string'}
                if b == 4:
                    c['seed'] = 2311
                cs.append(c)
        cs.append({'kind': 'render', 'tool': 'cnfgen', 'base': b, 'q': None, 'varnames': False, 'of': [],
                   'out': None, 'odash': True, 'mode': 'output', 'seed': 12 if b != 4 else 2311})
    pofs = [[], ['-of', 'opb'], ['-of', 'latex'], ['--output-format', 'latex'], ['-l'], ['--latex']]
    for b in range(len(PB_RENDER_BASES)):
        for q in (qs if (tier == 'thorough' or b == 0) else [None, '-q', '-v']):
            for vn in (False, True):
                for of in pofs:
                    for ext, oopt in ((None, None), ('opb', '-o'), ('txt', '--output')):
                        cs.append({'kind': 'render', 'tool': 'pbgen', 'base': b, 'q': q, 'varnames': vn,
                                   'of': of, 'out': ext, 'oopt': oopt, 'mode': 'output'})
        for of in pofs:
            cs.append({'kind': 'render', 'tool': 'pbgen', 'base': b, 'q': '-q', 'varnames': False, 'of': of,
                       'out': None, 'mode': 'string'})
    return cs


def all_cases(tier, seed):
    return (formula_cases(tier, seed) + chain_cases(tier, seed) + k2p_cases(tier, seed) +
            shuffle_cases(tier, seed) + render_cases(tier, seed) + gsave_cases(tier, seed))


def cost(c):
    """rough relative cost, for balancing the shards"""
    if c['kind'] == 'formula':
        f = c['f']
        w = 1.0
        if f.get('cmd') in ('tseitin', 'op', 'subsetcard', 'stone', 'php') and f.get('v') in ('Nd', 'MND', 'sD'):
            w = 2.5
        if f.get('cmd') == 'tseitin' and f.get('p') and str(f['p'][0]).startswith('random'):
            w = 2.0
        return w
    if c['kind'] == 'render':
        return 2.0
    if c['kind'] == 'k2p':
        return 3.0
    if c['kind'] == 'gsave':
        return 0.1
    return 2.0


def shards(tier, seed):
    cs = all_cases(tier, seed)
    k = 63 if tier == 'thorough' else 47
    # deterministic greedy balancing by estimated cost (largest first)
    order = sorted(range(len(cs)), key=lambda i: (-cost(cs[i]), i))
    bins = [[] for _ in range(k)]
    load = [0.0] * k
    for i in order:
        j = min(range(k), key=lambda j: (load[j], j))
        bins[j].append(i)
        load[j] += cost(cs[i])
    res = [('introspect', 'introspect', None)]
    for j, b in enumerate(bins):
        res.append(('s%03d' % j, 'run_cases', [cs[i] for i in sorted(b)]))
    return res


CHECKERS = {'formula': check_formula_case, 'k2p': check_k2p_case, 'shuffle': check_shuffle_case,
            'render': check_render_case, 'gsave': check_gsave_case}


def run_cases(chunk, R):
    import ref.c17_cli_table as T
    tmp = Tmp()
    try:
        for case in chunk:
            R.nt = False
            vs, outcome = CHECKERS[case['kind']](case, tmp, T, R)
            R.case(sample=case if R.evals % 211 == 0 else None, nontrivial=R.nt)
            R.outcomes['result:' + outcome] += 1
            tool = {'k2p': 'kthlist2pebbling', 'shuffle': 'cnfshuffle',
                    'gsave': 'graph-argument'}.get(case['kind'], case.get('tool'))
            R.outcomes['tool:' + tool] += 1
            if case['kind'] == 'formula':
                f = case['f']
                for gd in f.get('g', []):
                    R.outcomes['graph:' + gd['lib'][0]] += 1
                if case.get('T'):
                    R.outcomes['chain:len%d' % len(case['T'])] += 1
                    for tn, tp in case['T']:
                        for gd in T.TRANSFORMS[tn].graphs(tp):
                            R.outcomes['graph:' + gd['lib'][0]] += 1
                if 'cmd' in f:
                    R.stats['cmd:' + f['cmd']] += 1
            R.extend(vs)
    finally:
        tmp.close()


def replay(case):
    import ref.c17_cli_table as T
    setup_paths()
    tmp = Tmp()
    try:
        vs, _ = CHECKERS[case['kind']](case, tmp, T, None)
    finally:
        tmp.close()
    return vs
