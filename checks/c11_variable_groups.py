"""C11  Variable groups map indices to identifiers bijectively, with names
aligned.

Part A (exhaustive input shapes).  Every kind of variable group x every shape
of a small box (block ranges, (n,k) of the four word groups, every bipartite /
simple / directed graph up to a size, (n,m) of the three mappings) is created
by the real `new_*` method on a fresh CNF / OPB and after three prefixes that
leave a non-round number of variables.  A reference written from the
documentation (ref/c11_groups_ref.py) says which indices are legal, in which
order, what every index pattern (ints, wildcards, values one step outside the
domain) denotes and how a variable is called.

Part B (explicit-state exploration of histories).  A state is a real formula
object; transitions are real method calls (group creations, clause insertions
with a fresh variable, explicit raises of the variable count, no-op raises).
Every history up to a depth is replayed on a fresh formula; states are merged
on the complete variable-manager state (number of variables, list of groups
with their identifier ranges); in every distinct state the names reported by
`all_variable_labels()`, the `c varname` / `* varname` lines and the LaTeX
rendering are compared with the names a plain list recorded at creation time.
"""
import io
import itertools

from engine import scope
from engine.common import setup_paths
from ref import c11_groups_ref as ref
from ref.c11_groups_ref import ANY, WORD_KINDS, BIP_KINDS

PROPERTY = 'C11'
LEVEL = 'model_checking'
EXHAUSTIVE = True
ENGINE = 'scope+bfs'
RULE = ('Part A: one case per (group kind, shape, creation context, formula class, label mode, '
        'edge insertion order); shapes are ALL block ranges / (n,k) / labelled graphs / (n,m) of the '
        'stated boxes; inside a case every index, every identifier with both signs and every index '
        'pattern over {None} u {legal interval extended by one on each side} is evaluated; a case '
        'is non-trivial when the group has at least one variable.  Part B: every history over the '
        'operation alphabet up to the stated depth is executed on a fresh formula; states are '
        'distinct by the key (number of variables, [(group class, first id, size)]); a state is '
        'owned by its shortest history in a fixed normal form, so every state is checked exactly '
        'once over all shards.')
ASSUMPTIONS = [
    'Part A bounds quick|thorough: block ranges {0..3}^(1..3) | +{0..3}^4 and {0..4}^(1..3); word groups '
    'n<=4,k<=3 | n<=5,k<=4; bipartite graphs <=3x3 | +3x4,4x3; simple graphs <=5 | <=6 vertices; '
    'digraphs with loops <=3 vertices (+ loop-free 4 vertices thorough) x sortby pred/succ; '
    'mappings n,m<=4; binary mappings n<=3, m<=9 plus n=1, m in {2^e-1,2^e,2^e+1 : e<=10 | e<=14}',
    'Part B bounds: all histories of <= 4 (quick) | <= 5 (thorough) operations over an alphabet of 17 '
    'operations, formula classes CNF and OPB',
    'index coordinates are ints or None; non-integer coordinates are out of scope',
    'the reference (ref/c11_groups_ref.py) is the documented enumeration order and label convention; '
    'for the word groups (combinations, ...) wildcard patterns may be refused with ValueError '
    '(the class documents no wildcard support) but may not return a wrong enumeration',
    'single-variable groups are observed through F._groups (new_variable returns only the identifier)',
    'name alignment violations in histories where a single variable follows an anonymous variable are '
    'filed under one narrow key; every other history is compared strictly',
]


def VACUITY(tier):
    return {'accepted_indices': 5000, 'rejected_indices': 5000, 'wildcard_patterns': 5000,
            'rejected_ids': 5000, 'roundtrips': 5000, 'empty_groups': 50, 'nonempty_groups': 500,
            'states': 20000 if tier == 'quick' else 200000,
            'transitions': 100000, 'states_with_anonymous_gap': 1000,
            'kind:block': 10, 'kind:digraph_edges': 10, 'kind:binary_mapping': 10}


TECHNIQUE = ('bounded exhaustive exploration: all group shapes of a small scope x all index patterns '
             '(input space) and explicit-state search over all operation histories up to a depth on '
             'the real formula objects (state space of the variable manager), compared with a '
             'reference model that records the name of every identifier at creation time')
LEVEL_TEXT = ('Explicit-state model checking of the variable manager: every history of <= 4 (5) operations '
              'from an alphabet of group creations, clause insertions and raises of the variable count is '
              'executed on the real CNF and OPB classes, states are merged on the complete manager state, '
              'and in every distinct state the reported names (all_variable_labels, varname comments, LaTeX) '
              'are compared with the reference model.  In addition every group shape of a small scope is '
              'checked on every index, identifier and index pattern.  Nothing is sampled.')
LEVEL_NOTE = ('Trusted: ref/c11_groups_ref.py (documented enumeration order, label convention, history '
              'model).  Not covered: shapes and histories beyond the bounds, non-integer index coordinates, '
              'graph objects modified after the group was created (documented as unsupported).')


def preload():
    setup_paths()
    import cnfgen  # noqa
    import cnfgen.formula.cnf  # noqa
    import cnfgen.formula.opb  # noqa
    import cnfgen.utils.latexoutput  # noqa


# ------------------------------------------------------------- creation --
def formula_class(name):
    from cnfgen.formula.cnf import CNF
    from cnfgen.formula.opb import OPB
    return {'CNF': CNF, 'OPB': OPB}[name]


def _ordered(edges, rev):
    es = [tuple(e) for e in edges]
    return es[::-1] if rev else es


def create(F, kind, shape, label, rev=False, reuse=False):
    """Call the public constructor of the group.  label=None -> the default
    label of the method.  Returns the group (the identifier for 'variable')."""
    from cnfgen.graphs import Graph, DirectedGraph, BipartiteGraph
    kw = {} if label is None else {'label': label}
    if kind == 'variable':
        return F.new_variable(**kw)
    if kind == 'block':
        return F.new_block(*shape, **kw)
    if kind == 'combinations':
        return F.new_combinations(shape[0], shape[1], **kw)
    if kind == 'combinations_with_replacement':
        return F.new_combinations_with_replacement(shape[0], shape[1], **kw)
    if kind == 'permutations':
        return F.new_permutations(shape[0], shape[1], **kw)
    if kind == 'words':
        return F.new_words(shape[0], shape[1], **kw)
    if kind in BIP_KINDS and reuse == 'user':
        # a bipartite graph of the user's own class (BaseBipartiteGraph is the
        # documented argument type) whose neighbour lists are in DEcreasing order
        from cnfgen.graphs import BaseBipartiteGraph
        adj_ = {u: sorted({v for (a_, v) in shape[2] if a_ == u}, reverse=True) for u in range(1, shape[0] + 1)}

        class UserBipartite(BaseBipartiteGraph):
            def __init__(self):
                BaseBipartiteGraph.__init__(self, shape[0], shape[1], 'a graph class of the user')

            def right_neighbors(self, u):
                return list(adj_[u])

            def left_neighbors(self, v):
                return [u for u in sorted(adj_) if v in adj_[u]]

            def has_edge(self, u, v):
                return v in adj_.get(u, [])

            def number_of_edges(self):
                return sum(len(x) for x in adj_.values())
        B = UserBipartite()
        if kind == 'bipartite_edges':
            return F.new_bipartite_edges(B, **kw)
        return F.new_sparse_mapping(B, **kw)
    if kind in BIP_KINDS:
        B = BipartiteGraph(shape[0], shape[1])
        for u, v in _ordered(shape[2], rev):
            B.add_edge(u, v)
        if kind == 'bipartite_edges':
            return F.new_bipartite_edges(B, **kw)
        return F.new_sparse_mapping(B, **kw)
    if kind == 'mapping':
        return F.new_mapping(shape[0], shape[1], **kw)
    if kind == 'graph_edges' and reuse:
        # a graph object with a past: it served a group of ANOTHER formula
        # while it had other edges (as many), then was rewired in place
        n_ = shape[0]
        want = {(min(u, v), max(u, v)) for (u, v) in shape[1]}
        rot = {tuple(sorted((u % n_ + 1, v % n_ + 1))) for (u, v) in want}
        G = Graph(n_)
        for (u, v) in sorted(rot):
            G.add_edge(u, v)
        type(F)().new_graph_edges(G)
        for (u, v) in sorted(rot - want):
            G.remove_edge(u, v)
        for (u, v) in sorted(want - rot):
            G.add_edge(u, v)
        return F.new_graph_edges(G, **kw)
    if kind == 'graph_edges':
        G = Graph(shape[0])
        for u, v in _ordered(shape[1], rev):
            if rev:
                G.add_edge(v, u)
            else:
                G.add_edge(u, v)
        return F.new_graph_edges(G, **kw)
    if kind == 'digraph_edges':
        D = DirectedGraph(shape[0])
        for u, v in _ordered(shape[1], rev):
            D.add_edge(u, v)
        return F.new_digraph_edges(D, sortby=shape[2], **kw)
    if kind == 'binary_mapping':
        return F.new_binary_mapping(shape[0], shape[1], **kw)
    raise KeyError(kind)


def last_group(F):
    gs = getattr(F, '_groups', None)
    if not gs:
        return None
    return gs[-1]


# prefixes that leave a non-round number of variables; each is a list of
# (how, model update) pairs executed on the formula and on the model
def apply_context(F, M, ctx):
    if ctx == 'fresh':
        return
    if ctx == 'anon3':
        F.update_variable_number(3)
        M.raise_to(3)
        return
    if ctx == 'anon300':
        # identifiers beyond 256 (CPython's cache of small integers) and with three digits
        F.update_variable_number(300)
        M.raise_to(300)
        return
    if ctx == 'group+anon':
        F.new_combinations(3, 2, label='pre<{}>')
        M.add_group('combinations', [3, 2], 'pre<{}>')
        F.add_clause([-5])
        M.raise_to(5)
        return
    if ctx == 'var+block':
        F.new_variable(label='A')
        M.add_group('variable', None, 'A')
        F.new_block(1, 2, label='pb[{};{}]')
        M.add_group('block', [1, 2], 'pb[{};{}]')
        return
    raise KeyError(ctx)


CONTEXTS = ('fresh', 'anon3', 'group+anon', 'var+block', 'anon300')


# --------------------------------------------------------------- oracles --
def _consume(x):
    if isinstance(x, bool) or not isinstance(x, int):
        return [y for y in x]
    return x


def _tuples(seq):
    return [tuple(t) for t in seq]


class Viol:
    """collects at most one violation per key and case"""

    def __init__(self, case):
        self.case = case
        self.out = []
        self.keys = set()

    def bad(self, key, what):
        if key in self.keys:
            return
        self.keys.add(key)
        self.out.append({'key': key, 'what': what, 'case': self.case})


def name_checks(F, M, V, cls, stats=None, latex=True, fam='history'):
    """Name alignment of the whole formula against the model M."""
    n_ref = M.numvar
    try:
        n = F.number_of_variables()
    except Exception as e:
        V.bad('%s:number_of_variables:exception:%s' % (fam, type(e).__name__), repr(e))
        return
    if n != n_ref:
        V.bad('%s:numvar' % fam, 'formula declares %d variables, the operations created %d' % (n, n_ref))
        return
    try:
        got = list(F.all_variable_labels())
    except Exception as e:
        V.bad('all_variable_labels:exception:%s' % type(e).__name__, repr(e))
        return
    refnames = M.reference_names('x{}')
    if len(got) != n:
        V.bad('all_variable_labels:count', 'all_variable_labels yields %d names for %d variables: %r'
              % (len(got), n, got[:12]))
        return
    aligned = True
    pos = ref.compare_names(got, refnames)
    if pos is not None:
        aligned = False
        shifted = M.singleton_after_anonymous()
        key = 'all_variable_labels:singleton-after-anonymous:misaligned' if shifted \
            else 'all_variable_labels:misaligned'
        V.bad(key, 'variable %d is reported as %r, the name of variable %d is %r; reported=%r reference=%r'
              % (pos, got[pos - 1], pos, refnames[pos - 1], got[:14],
                 ['<unlabelled>' if r is ANY else r for r in refnames[:14]]))
    # a variable created without a label must still have a usable name
    nonstr = [i for i, g in enumerate(got, start=1)
              if not (isinstance(g, str) and (g or (i <= len(refnames) and refnames[i - 1] == '')))]
    if nonstr:
        if aligned and all(refnames[i - 1] is ANY for i in nonstr):
            V.bad('new_variable:no-label:name-not-a-string',
                  'variable %d created by new_variable() without label is reported with the name %r'
                  % (nonstr[0], got[nonstr[0] - 1]))
        elif aligned:
            V.bad('all_variable_labels:name-not-a-string', 'variable %d has name %r' %
                  (nonstr[0], got[nonstr[0] - 1]))
    if stats is not None:
        stats['names_compared'] += n
    if not aligned:
        return
    # the default label format is a parameter (any format string with one field)
    for dfmt in ('y_{}', 'x_{{{}}}', 'v{0}', 'n{:03d}', '{}'):
        try:
            got2 = list(F.all_variable_labels(default_label_format=dfmt))
        except Exception as e:
            V.bad('all_variable_labels:default_label_format:exception:%s' % type(e).__name__, repr(e))
            got2 = None
        if got2 is not None:
            ref2 = M.reference_names(dfmt)
            if len(got2) != n or ref.compare_names(got2, ref2) is not None:
                V.bad('all_variable_labels:default_label_format',
                      'with default_label_format=%r: %r, reference %r' % (dfmt, got2[:12], ref2[:12]))
    # varname lines of the files
    want = [(i, str(g)) for i, g in enumerate(got, start=1)]
    fmts = [('opb', '* varname x')] if cls == 'OPB' else [('dimacs', 'c varname '), ('opb', '* varname x')]
    for fmt, prefix in fmts:
        try:
            buf = io.StringIO()
            F.to_file(buf, fileformat=fmt, export_varnames=True)
            text = buf.getvalue()
        except Exception as e:
            V.bad('to_file:%s:varnames:exception:%s' % (fmt, type(e).__name__), repr(e))
            continue
        lines = []
        for line in text.split('\n'):
            if line.startswith(prefix):
                num, _, name = line[len(prefix):].partition(' ')
                lines.append((int(num) if num.isdigit() else num, name))
        if lines != want:
            V.bad('to_file:%s:varnames' % fmt, 'varname lines %r, names of the formula %r' % (lines[:10], want[:10]))
        if stats is not None:
            stats['varname_lines'] += len(lines)
    if latex and cls == 'CNF' and n > 0 and not nonstr:
        # one clause mentioning every variable positively: its row shows all names
        try:
            got3 = list(F.all_variable_labels(default_label_format='x_{}'))
            F.add_clause(list(range(1, n + 1)))
            from cnfgen.utils.latexoutput import to_latex_string
            tex = to_latex_string(F)
            a = tex.rindex('\\left(')
            b = tex.rindex('\\right)')
            cells = [c.strip() for c in tex[a + len('\\left('):b].split(' \\lor ')]
            if cells != ['{' + nm + '}' for nm in got3]:
                V.bad('latex:names', 'row of the clause (1..n) shows %r, names %r' % (cells[:10], got3[:10]))
            if stats is not None:
                stats['latex_rows'] += 1
        except Exception as e:
            V.bad('latex:names:exception:%s' % type(e).__name__, repr(e))


FREE_ORDER = [False]     # a graph class of the user lists neighbours in its own order


def group_checks(g, kind, shape, first, label, V, stats=None, patterns=True):
    """All index <-> identifier obligations of one group object.
    `first` is the identifier the group must start at; `label` the label
    format it was created with (None: default label, only consistency)."""
    idxs_ref = ref.ref_indices(kind, shape)
    N = len(idxs_ref)
    ids = list(range(first, first + N))
    K = kind

    # 1. contiguous range of new identifiers
    try:
        got_ids = list(g)
        glen = len(g)
    except Exception as e:
        V.bad('%s:ids:exception:%s' % (K, type(e).__name__), repr(e))
        return None
    if kind == 'binary_mapping' and shape[0] >= 1 and shape[1] >= 1 and got_ids[:1] == ids[:1] \
            and glen == len(got_ids) != N and glen % shape[0] == 0:
        V.bad('binary_mapping:bitlength', 'new_binary_mapping(%d, %d) uses %d bits per element; the smallest k '
              'with m <= 2^k is %d' % (shape[0], shape[1], glen // shape[0], ref.bits_for(shape[1])))
        return None
    if got_ids != ids or glen != N:
        V.bad('%s:ids' % K, 'group owns identifiers %r (len %r), expected the %d identifiers from %d'
              % (got_ids[:12], glen, N, first))
        return None

    # 2. enumeration of the legal indices, in identifier order
    try:
        idxs = _tuples(g.indices())
    except Exception as e:
        V.bad('%s:indices:exception:%s' % (K, type(e).__name__), repr(e))
        return None
    if sorted(idxs) != sorted(idxs_ref):
        V.bad('%s:indices-set' % K, 'indices() enumerates %r, the legal indices are %r'
              % (idxs[:12], idxs_ref[:12]))
        return None
    try:
        in_order = []
        for i in idxs:
            v = g(*i)
            if isinstance(v, bool) or not isinstance(v, int):
                v = ('not an int', repr(v)[:40])
            in_order.append(v)
    except Exception as e:
        V.bad('%s:index-to-id:exception:%s' % (K, type(e).__name__), 'g(*%r): %r' % (i, e))
        return None
    if in_order != ids:
        V.bad('%s:enumeration-order' % K, '[g(*i) for i in g.indices()] = %r, identifiers %r; indices %r'
              % (in_order[:12], ids[:12], idxs[:12]))
        return None
    if idxs != idxs_ref and not FREE_ORDER[0]:
        # same set, identifiers ascending, but not the documented order
        V.bad('%s:documented-order' % K, 'indices() = %r, documented order %r' % (idxs[:12], idxs_ref[:12]))
    idxset = set(idxs)

    # 3. identifier -> index, both signs
    for vid, i in zip(ids, idxs):
        for lit in (vid, -vid):
            try:
                back = g.to_index(lit)
                back = tuple(back)
            except Exception as e:
                V.bad('%s:to_index:exception:%s' % (K, type(e).__name__), 'to_index(%d): %r' % (lit, e))
                continue
            if back != i:
                V.bad('%s:roundtrip' % K, 'to_index(%d) = %r but g%r = %d' % (lit, back, i, vid))
            if stats is not None:
                stats['roundtrips'] += 1
        try:
            if vid not in g or -vid not in g:
                V.bad('%s:contains' % K, '%d in group is False' % vid)
        except Exception as e:
            V.bad('%s:contains:exception:%s' % (K, type(e).__name__), repr(e))
    if kind == 'graph_edges':
        for (u, v), vid in zip(idxs, ids):
            try:
                if g(v, u) != vid:
                    V.bad('%s:orientation' % K, 'g(%d,%d) = %r, g(%d,%d) = %d' % (v, u, g(v, u), u, v, vid))
            except Exception as e:
                V.bad('%s:orientation:exception:%s' % (K, type(e).__name__), 'g(%d,%d): %r' % (v, u, e))

    # 4. identifiers outside the group are refused
    for lit in sorted({first - 1, first + N, 0, -(first - 1), -(first + N), first + N + 7}):
        try:
            r = g.to_index(lit)
            V.bad('%s:accepts-foreign-id' % K, 'to_index(%d) = %r for a group owning %d..%d'
                  % (lit, r, first, first + N - 1))
        except ValueError:
            if stats is not None:
                stats['rejected_ids'] += 1
        except Exception as e:
            V.bad('%s:reject-id:exception:%s' % (K, type(e).__name__), 'to_index(%d): %r' % (lit, e))
        try:
            if lit in g:
                V.bad('%s:contains' % K, '%d in group is True' % lit)
        except Exception as e:
            V.bad('%s:contains:exception:%s' % (K, type(e).__name__), repr(e))

    # 5. labels
    names = None
    try:
        names = [g.label(*i) for i in idxs]
        if kind in WORD_KINDS and shape[1] == 0:
            # k=0: the empty pattern is both "everything" and the only index
            names = [(lambda y: y[0] if len(y) == 1 else y)(list(x)) if not isinstance(x, str) else x
                     for x in names]
        if kind == 'variable':
            all_names = list(names)
        else:
            all_names = list(g.label())
    except Exception as e:
        V.bad('%s:label:exception:%s' % (K, type(e).__name__), repr(e))
        names = None
    if names is not None:
        if all_names != names:
            V.bad('%s:label-enumeration' % K, 'label() = %r, [label(*i)] = %r' % (all_names[:10], names[:10]))
        if label is not None:
            want = [ref.ref_label(kind, label, i) for i in idxs]
            if names != want:
                V.bad('%s:label' % K, 'label(*i) = %r, label format %r on the indices gives %r'
                      % (names[:10], label, want[:10]))

    # 6. to_dict
    if kind != 'variable':
        try:
            d = g.to_dict()
            if {tuple(k): v for k, v in d.items()} != dict(zip(idxs, ids)):
                V.bad('%s:to_dict' % K, 'to_dict() = %r' % (sorted(d.items())[:10],))
        except Exception as e:
            V.bad('%s:to_dict:exception:%s' % (K, type(e).__name__), repr(e))

    # 7. every pattern: wildcards, legal indices, indices one step outside
    if patterns:
        pos = dict(zip(idxs, ids))
        for p in ref.patterns(kind, shape):
            pattern_check(g, kind, shape, idxs, idxset, pos, label, p, V, stats)
        arity = len(ref.coord_domains(kind, shape))
        for q in ((1,) * (arity + 1), (None,) * (arity + 1), (1,) * (arity - 1), (None,) * (arity - 1)):
            if len(q) > 0 and len(q) != arity:
                pattern_check(g, kind, shape, idxs, idxset, pos, label, q, V, stats, sym='arity')
    return idxs


def pattern_check(g, kind, shape, idxs, idxset, pos, label, p, V, stats, sym='index'):
    K = kind
    exp = ref.expect(kind, shape, idxs, idxset, p)
    tag = exp[0]
    calls = [('call', lambda: g(*p)), ('indices', lambda: g.indices(*p))]
    if kind != 'variable':
        calls.append(('label', lambda: g.label(*p)))
    if kind == 'variable' and len(p) > 0:
        calls = [('indices', lambda: g.indices(*p))]     # __call__ and label take no index
    for what, fn in calls:
        try:
            res = fn()
            if what == 'indices' or not isinstance(res, (int, str)) or isinstance(res, bool):
                res = [x for x in res]
            err = None
        except ValueError:
            err = 'ValueError'
        except Exception as e:
            V.bad('%s:pattern:%s:exception:%s' % (K, what, type(e).__name__),
                  '%s with pattern %r: %r (expected %s)' % (what, p, e, tag))
            continue
        if tag == 'err':
            if err is None:
                V.bad('%s:accepts-illegal-%s' % (K, sym), '%s%r returned %r; legal indices %r'
                      % (what, p, res if not isinstance(res, list) else res[:6], idxs[:8]))
            elif stats is not None:
                stats['rejected_indices'] += 1
            continue
        if err is not None:
            if tag == 'many_or_err':
                if stats is not None:
                    stats['wildcard_refused_by_word_group'] += 1
                continue
            V.bad('%s:rejects-legal-%s' % (K, 'index' if tag == 'one' else 'pattern'),
                  '%s%r raised ValueError; expected %r' % (what, p, exp[1] if tag == 'one' else exp[1][:6]))
            continue
        # compare the answer
        if tag == 'one':
            want = {'call': pos[exp[1]], 'indices': [exp[1]],
                    'label': None if label is None else ref.ref_label(kind, label, exp[1])}[what]
            if what == 'indices':
                res = _tuples(res)
            if want is not None and res != want:
                V.bad('%s:index:%s' % (K, what), '%s%r = %r, expected %r' % (what, p, res, want))
            if stats is not None:
                stats['accepted_indices'] += 1
        else:
            sel = exp[1]
            want = {'call': [pos[i] for i in sel], 'indices': list(sel),
                    'label': None if label is None else [ref.ref_label(kind, label, i) for i in sel]}[what]
            if what == 'indices':
                res = _tuples(res)
            if tag == 'all0' and not isinstance(res, list):
                res = [res]          # k=0: the empty pattern is also the only index
            if want is not None and res != want:
                V.bad('%s:pattern:%s' % (K, what), '%s%r = %r, the filtered enumeration is %r'
                      % (what, p, res if not isinstance(res, list) else res[:10], want[:10]))
            if stats is not None:
                stats['wildcard_patterns'] += 1


# --------------------------------------------------------------- part A --
def check_A(case, stats=None):
    kind, shape, ctx, cls = case['kind'], case['shape'], case['ctx'], case['cls']
    custom = case.get('lab', 'custom') == 'custom'
    rev = bool(case.get('rev', 0))
    V = Viol(dict(case))
    F = formula_class(cls)()
    M = ref.Model()
    apply_context(F, M, ctx)
    old = F.number_of_variables()
    if old != M.numvar:
        V.bad('context:numvar', 'context %s leaves %d variables, expected %d' % (ctx, old, M.numvar))
        return V.out, False
    label = ref.custom_label(kind, shape, 'q') if custom else None
    if kind == 'variable':
        label = shape                # 'X' or None
    try:
        FREE_ORDER[0] = bool(case.get('user'))
        g = create(F, kind, shape, label, rev, reuse=('user' if case.get('user') else bool(case.get('reuse'))))
    except ValueError as e:
        if kind == 'binary_mapping' and (shape[0] < 1 or shape[1] < 1):
            if stats is not None:
                stats['documented_refusals'] += 1      # "n, m must be > 0"
            return V.out, False
        V.bad('%s:create:exception:ValueError' % kind, '%s%r: %r' % (kind, shape, e))
        return V.out, False
    except Exception as e:
        V.bad('%s:create:exception:%s' % (kind, type(e).__name__), 'new_%s%r raised %r' % (kind, tuple(shape or ()), e))
        return V.out, False
    mlabel = label
    if kind != 'variable' and not custom:
        mlabel = None
    if kind == 'variable':
        idxs_ref, first = M.add_group(kind, shape, label)
        if g != first:
            V.bad('variable:ids', 'new_variable returned %r with %d variables before' % (g, old))
            return V.out, True
        g = last_group(F)
        if g is None:
            if stats is not None:
                stats['singleton_group_unreachable'] += 1
        else:
            group_checks(g, kind, shape, first, label, V, stats)
    else:
        idxs_ref = ref.ref_indices(kind, shape)
        first = old + 1
        if custom:
            M.add_group(kind, shape, label)
            group_checks(g, kind, shape, first, label, V, stats)
        else:
            idxs = group_checks(g, kind, shape, first, None, V, stats)
            # default label: the model takes the names from the group itself
            try:
                names = list(g.label()) if idxs is not None else None
            except Exception:
                names = None
            if names is None or len(names) != len(idxs_ref):
                return V.out, len(idxs_ref) > 0
            for nm in names:
                M.names.append(nm)
            M.numvar += len(names)
    if stats is not None:
        stats['empty_groups' if len(idxs_ref) == 0 else 'nonempty_groups'] += 1
    if V.out or case.get('user'):
        # (with a graph class of the user the identifiers follow ITS neighbour
        # order: the name model of the later steps, written for sorted lists,
        # does not apply; the group obligations above do)
        return V.out, len(idxs_ref) > 0
    name_checks(F, M, V, cls, stats, latex=False, fam=kind)
    # something after the group: an anonymous variable and another block
    try:
        F.add_clause([F.number_of_variables() + 1])
        M.raise_to(M.numvar + 1)
        F.new_block(2, label='post[{}]')
        M.add_group('block', [2], 'post[{}]')
    except Exception as e:
        V.bad('%s:suffix:exception:%s' % (kind, type(e).__name__), repr(e))
        return V.out, len(idxs_ref) > 0
    name_checks(F, M, V, cls, stats, latex=True, fam=kind)
    if g is not None and not V.out:
        # the group still answers the same after later operations
        V2 = Viol(dict(case))
        group_checks(g, kind, shape, first, label if (custom or kind == 'variable') else None, V2, None,
                     patterns=False)
        for v in V2.out:
            V.bad(v['key'] + ':after-later-operations', v['what'])
    if g is not None and not V.out:
        # what the group (and the graph it stands on) hands out belongs to the
        # caller: every returned list is edited, then the group is asked again
        n_edited = vandalize_group(g)
        if stats is not None:
            stats['returned_lists_edited_by_the_caller'] += n_edited
        if n_edited:
            V3 = Viol(dict(case))
            group_checks(g, kind, shape, first, label if (custom or kind == 'variable') else None, V3, None,
                         patterns=False)
            for v in V3.out:
                V.bad(v['key'] + ':after-the-caller-edited-returned-lists', v['what'])
    return V.out, len(idxs_ref) > 0


def vandalize_group(g):
    got = []

    def take(f, *a):
        try:
            got.append(f(*a))
        except Exception:
            pass
    for name in ('domain', 'range'):
        f = getattr(g, name, None)
        if callable(f):
            take(f)
            for u in range(0, 5):
                take(f, u)
    G = getattr(g, 'G', None)
    if G is not None:
        for name in ('right_neighbors', 'left_neighbors', 'neighbors', 'successors', 'predecessors'):
            f = getattr(G, name, None)
            if callable(f):
                for u in range(1, 6):
                    take(f, u)
    # the table to_dict() hands out belongs to the caller too
    f = getattr(g, 'to_dict', None)
    if callable(f):
        take(f)
    n = 0
    for x in got:
        if isinstance(x, list):
            x.append(-7)
            x.reverse()
            n += 1
        elif isinstance(x, dict):
            for k_ in list(x)[::2]:
                x[k_] = -x[k_]
            for k_ in list(x)[1::3]:
                del x[k_]
            x[(99, 99)] = 1
            n += 1
    return n


def cases_A(tier, seed):
    thorough = tier == 'thorough'
    shapes = []          # (kind, shape, graphlike)
    for label in ('X', None, '', ' ', '0'):
        shapes.append(('variable', label, False))
    rmax, dmax = 3, 3
    for d in range(1, dmax + 1):
        for rs in itertools.product(range(rmax + 1), repeat=d):
            shapes.append(('block', list(rs), False))
    if thorough:
        for rs in itertools.product(range(4), repeat=4):
            shapes.append(('block', list(rs), False))
        for d in range(1, 4):
            for rs in itertools.product(range(5), repeat=d):
                if 4 in rs:
                    shapes.append(('block', list(rs), False))
    nmax, kmax = (5, 4) if thorough else (4, 3)
    for kind in WORD_KINDS:
        for n in range(nmax + 1):
            for k in range(kmax + 1):
                shapes.append((kind, [n, k], False))
    sizes = [(L, Rr) for L in range(4) for Rr in range(4)]
    if thorough:
        sizes += [(3, 4), (4, 3)]
    for (L, Rr) in sizes:
        for es in scope.bipartite_graphs(L, Rr):
            for kind in BIP_KINDS:
                shapes.append((kind, [L, Rr, [list(e) for e in es]], True))
    for n in range(5):
        for m in range(5):
            shapes.append(('mapping', [n, m], False))
    for n in range((6 if thorough else 5) + 1):
        for es in scope.simple_graphs(n):
            shapes.append(('graph_edges', [n, [list(e) for e in es]], True))
    for n in range(4):
        for es in scope.digraphs(n, loops=True):
            for sortby in ('pred', 'succ'):
                shapes.append(('digraph_edges', [n, [list(e) for e in es], sortby], True))
    if thorough:
        for es in scope.digraphs(4, loops=False):
            for sortby in ('pred', 'succ'):
                shapes.append(('digraph_edges', [4, [list(e) for e in es], sortby], True))
    for n in range(4):
        for m in range(10):
            shapes.append(('binary_mapping', [n, m], False))
    # (the group keeps a table of 2^k sign patterns: m stays small)
    emax = 14 if thorough else 10
    for e in range(4, emax + 1):
        for m in (2 ** e - 1, 2 ** e, 2 ** e + 1):
            shapes.append(('binary_mapping', [1, m], False))
    # graphs with two-digit vertices and neighbourhoods such as {6, 8}, {9, 11}
    # (sets of small integers iterate in increasing order only below 8)
    cyc12 = [[i, i % 12 + 1] for i in range(1, 13)]
    cyc12 = [sorted(e) for e in cyc12]
    path13 = [[i, i + 1] for i in range(1, 13)]
    grid34 = [[4 * r + c + 1, 4 * r + c + 2] for r in range(3) for c in range(3)] + \
             [[4 * r + c + 1, 4 * r + c + 5] for r in range(2) for c in range(4)]
    jump = [[1, 9], [1, 16], [7, 8], [6, 7], [7, 16], [8, 10], [9, 11], [9, 10], [3, 12], [12, 13], [12, 11]]
    for nm_, n_, es_ in (('cyc', 12, cyc12), ('path', 13, path13), ('grid', 12, grid34), ('jump', 16, jump)):
        shapes.append(('graph_edges', [n_, es_], True))
        for sortby in ('pred', 'succ'):
            shapes.append(('digraph_edges', [n_, es_ + [[b_, a_] for (a_, b_) in es_[::3]], sortby], True))
    bip_ = [[1, 9], [1, 16], [2, 8], [2, 6], [2, 16], [3, 10], [3, 8], [3, 1], [3, 12], [3, 11]]
    for kind in BIP_KINDS:
        shapes.append((kind, [3, 16, bip_], True))
    # a few mid-size shapes rotated by the seed (never the core)
    extra = [('block', [5, 4]), ('block', [2, 7, 3]), ('block', [6]), ('block', [4, 1, 5]),
             ('words', [6, 2]), ('permutations', [6, 3]), ('combinations', [7, 3]),
             ('mapping', [5, 6]), ('binary_mapping', [5, 17])]
    for i in range(3):
        k, s = extra[(seed + i) % len(extra)]
        shapes.append((k, s, False))

    cases = []
    for kind, shape, graphlike in shapes:
        heavy = (kind == 'graph_edges' and shape[0] >= 6) or (kind == 'digraph_edges' and shape[0] >= 4) \
            or (kind in BIP_KINDS and shape[0] + shape[1] >= 7)
        for cls in ('CNF', 'OPB'):
            for ci, ctx in enumerate(CONTEXTS):
                if heavy and not (cls == 'CNF' and ctx in ('fresh', 'group+anon', 'anon300')) \
                        and not (cls == 'OPB' and ctx == 'anon3'):
                    continue
                labs = ('custom', 'default') if (ctx == 'fresh' and kind != 'variable') else ('custom',)
                for lab in labs:
                    c = {'part': 'A', 'kind': kind, 'shape': shape, 'ctx': ctx, 'cls': cls, 'lab': lab}
                    if graphlike:
                        c['rev'] = ci % 2
                    cases.append(c)
                    if kind in BIP_KINDS and ctx in ('fresh', 'anon3') and lab == 'custom' and shape[2]:
                        c2 = dict(c)
                        c2['user'] = True
                        cases.append(c2)
                    if kind == 'graph_edges' and ctx == 'fresh' and lab == 'custom' and shape[1]:
                        c2 = dict(c)
                        c2['reuse'] = True
                        cases.append(c2)
    return cases


def run_A(chunk, R):
    for case in chunk:
        vs, nontrivial = check_A(case, R.stats)
        R.case(sample=case if R.evals % 499 == 0 else None, nontrivial=nontrivial)
        R.outcomes['kind:' + case['kind']] += 1
        R.outcomes['context:' + case['ctx']] += 1
        R.stats['executions'] += 1
        R.extend(vs)


# --------------------------------------------------------------- part H --
# Groups far too large to enumerate (only the arithmetic groups can be created
# lazily: blocks, mappings with few elements and a huge range, binary mappings
# with a huge domain).  Every identifier within 3 of a boundary is converted
# to its index and back: the ends of the group, powers of two and multiples of
# 2^53 (where floating point stops being exact), in both signs.
HUGE_SHAPES = [('block', [2 ** 62]), ('block', [2 ** 40, 2 ** 22]), ('block', [3, 2 ** 55, 5]),
               ('block', [2 ** 20, 2 ** 20, 2 ** 20]),
               ('mapping', [2 ** 10, 2 ** 50]), ('mapping', [3, 2 ** 60]), ('mapping', [4097, 2 ** 44 + 1]),
               ('binary_mapping', [2 ** 60, 5]), ('binary_mapping', [2 ** 58, 37]),
               ('binary_mapping', [2 ** 61 + 1, 2]), ('binary_mapping', [3 ** 37, 3]),
               ('binary_mapping', [2 ** 53 + 1, 2 ** 9 + 1])]


def huge_index(kind, shape, o):
    """the index of the o-th (from 0) variable of the group, by arithmetic"""
    if kind == 'block':
        idx = []
        for r in reversed(shape):
            idx.append(o % r + 1)
            o //= r
        return tuple(reversed(idx))
    if kind == 'mapping':
        return (o // shape[1] + 1, o % shape[1] + 1)
    k = ref.bits_for(shape[1])
    return (o // k + 1, k - 1 - o % k)


def huge_size(kind, shape):
    if kind == 'block':
        n = 1
        for r in shape:
            n *= r
        return n
    if kind == 'mapping':
        return shape[0] * shape[1]
    return shape[0] * ref.bits_for(shape[1])


def huge_offsets(N, first):
    pts = {0, N - 1}
    for e in range(50, 64):
        pts.add(2 ** e)
        pts.add(2 ** e - first)
    for m in (3, 5, 7, 129):
        pts.add(m * 2 ** 53)
        pts.add(m * 2 ** 53 - first)
    pts.add(N // 2)
    pts.add(N // 3)
    out = set()
    for p_ in pts:
        for d in range(-3, 4):
            if 0 <= p_ + d < N:
                out.add(p_ + d)
    return sorted(out)


def cases_H(tier, seed):
    return [{'part': 'H', 'kind': k, 'shape': sh, 'cls': cls, 'pre': pre}
            for (k, sh) in HUGE_SHAPES for cls in ('CNF', 'OPB') for pre in (0, 7, 2 ** 53 - 2)]


def check_H(case, stats=None):
    kind, shape, cls, pre = case['kind'], case['shape'], case['cls'], case['pre']
    V = Viol(dict(case))
    F = formula_class(cls)()
    if pre:
        F.update_variable_number(pre)
    try:
        g = create(F, kind, shape, None)
    except Exception as e:
        V.bad('%s:huge:create:exception:%s' % (kind, type(e).__name__), repr(e))
        return V.out
    N = huge_size(kind, shape)
    first = pre + 1
    if F.number_of_variables() != pre + N:
        V.bad('%s:huge:count' % kind, 'the formula declares %d variables, expected %d + %d'
              % (F.number_of_variables(), pre, N))
        return V.out
    for o in huge_offsets(N, first):
        vid = first + o
        idx = huge_index(kind, shape, o)
        try:
            v = g(*idx)
        except Exception as e:
            V.bad('%s:huge:index-to-id:exception:%s' % (kind, type(e).__name__), 'g%r: %r' % (idx, e))
            continue
        if v != vid:
            V.bad('%s:huge:index-to-id' % kind, 'g%r = %r, expected %d' % (idx, v, vid))
        for lit in (vid, -vid):
            try:
                back = tuple(g.to_index(lit))
            except Exception as e:
                V.bad('%s:huge:to_index:exception:%s' % (kind, type(e).__name__), 'to_index(%d): %r' % (lit, e))
                continue
            if back != idx:
                V.bad('%s:huge:roundtrip' % kind, 'to_index(%d) = %r but the variable has index %r' % (lit, back, idx))
            if stats is not None:
                stats['roundtrips'] += 1
        try:
            if vid not in g:
                V.bad('%s:huge:contains' % kind, '%d in group is False' % vid)
        except Exception as e:
            V.bad('%s:huge:contains:exception:%s' % (kind, type(e).__name__), repr(e))
    for lit in (first - 1, first + N, -(first + N), 0):
        try:
            r = g.to_index(lit)
            V.bad('%s:huge:accepts-foreign-id' % kind, 'to_index(%d) = %r for a group owning %d..%d'
                  % (lit, r, first, first + N - 1))
        except ValueError:
            if stats is not None:
                stats['rejected_ids'] += 1
        except Exception as e:
            V.bad('%s:huge:reject-id:exception:%s' % (kind, type(e).__name__), 'to_index(%d): %r' % (lit, e))
    return V.out


def run_H(chunk, R):
    for case in chunk:
        vs = check_H(case, R.stats)
        R.case(sample=case if R.evals % 7 == 0 else None, nontrivial=True)
        R.outcomes['kind:' + case['kind']] += 1
        R.outcomes['context:huge'] += 1
        R.stats['executions'] += 1
        R.extend(vs)


# --------------------------------------------------------------- part B --
PATH3 = [3, [[1, 2], [2, 3]]]
SPARSE = [2, 3, [[1, 2], [2, 1], [2, 3]]]
DIG = [3, [[1, 2], [3, 1], [2, 2], [3, 2]], 'succ']


def alphabet(tier):
    ops = [
        ('var_nolabel', ('group', 'variable', None)),
        ('var_label', ('group', 'variable', 'L')),
        ('block2', ('group', 'block', [2])),
        ('block12', ('group', 'block', [1, 2])),
        ('block0', ('group', 'block', [0])),
        ('comb32', ('group', 'combinations', [3, 2])),
        ('map22', ('group', 'mapping', [2, 2])),
        ('sparse', ('group', 'sparse_mapping', SPARSE)),
        ('bin23', ('group', 'binary_mapping', [2, 3])),
        ('gpath3', ('group', 'graph_edges', PATH3)),
        ('clause_next', ('anon', 'clause', 1)),       # add_clause([numvar+1])
        ('raise1', ('anon', 'raise', 1)),             # update_variable_number(numvar+1)
        ('clause_skip', ('anon', 'clause', 2)),       # add_clause([-(numvar+2)])
        ('raise_same', ('anon', 'raise', 0)),         # update_variable_number(numvar): no-op
        ('geq_generator', ('anon', 'geq_generator', 1)),   # cardinality_geq(generator of [numvar+1]), 1)
        ('eq_range', ('anon', 'eq_range', 2)),        # cardinality_eq(range(numvar+1, numvar+3), 1)
    ]
    ops += [
        ('dig_succ', ('group', 'digraph_edges', DIG)),
        ('words22', ('group', 'words', [2, 2])),
        ('map02', ('group', 'mapping', [0, 2])),      # an empty group that is not a block
    ]
    return ops


def depth_of(tier):
    return 5 if tier == 'thorough' else 4


def model_of(hist, opsd):
    """The reference model after a history, and the shortest history in
    normal form reaching the same state (gap of a anonymous variables ->
    a//2 x clause_skip then a%2 x raise1; every group -> its operation)."""
    M = ref.Model()
    canon = []
    gap = 0
    ordinal = 0
    labels = []
    for op in hist:
        spec = opsd[op]
        if spec[0] == 'anon':
            M.raise_to(M.numvar + spec[2])
            gap += spec[2]
            labels.append(None)
            continue
        canon += ['clause_skip'] * (gap // 2) + ['raise1'] * (gap % 2)
        gap = 0
        canon.append(op)
        kind, shape = spec[1], spec[2]
        if kind == 'variable':
            label = None if shape is None else 'V%d' % ordinal
        else:
            label = ref.custom_label(kind, shape, 'g%d' % ordinal)
        labels.append(label)
        M.add_group(kind, shape, label)
        ordinal += 1
    canon += ['clause_skip'] * (gap // 2) + ['raise1'] * (gap % 2)
    return M, canon, labels


def execute(cls, hist, opsd, labels):
    """Replay a history on a fresh formula.  Returns (F, groups, error)."""
    F = formula_class(cls)()
    groups = []
    for step, op in enumerate(hist):
        spec = opsd[op]
        try:
            if spec[0] == 'anon':
                n = F.number_of_variables()
                if spec[1] == 'clause':
                    lit = n + spec[2]
                    F.add_clause([lit if spec[2] == 1 else -lit])
                elif spec[1] == 'geq_generator':
                    F.cardinality_geq((x for x in [n + 1]), 1)
                elif spec[1] == 'eq_range':
                    F.cardinality_eq(range(n + 1, n + 3), 1)
                else:
                    F.update_variable_number(n + spec[2])
            else:
                first = F.number_of_variables() + 1
                g = create(F, spec[1], spec[2], labels[step])
                if spec[1] == 'variable':
                    g = last_group(F)
                groups.append((g, spec[1], spec[2], first, labels[step]))
            # The names are also asked for in intermediate states (at every
            # other step): an answer given earlier must not influence a later
            # one (e.g. a cached list that is not invalidated when the variable
            # count is raised without creating a group).
            if (step + len(hist)) % 2 == 0:
                list(F.all_variable_labels())
                if step % 3 == 0:
                    list(F.all_variable_labels(default_label_format='y_{}'))
        except Exception as e:
            return F, groups, (step, op, e)
    return F, groups, None


def real_key(F):
    gs = getattr(F, '_groups', [])
    out = []
    for g in gs:
        ids = getattr(g, 'ids', None)
        out.append((type(g).__name__, getattr(ids, 'start', None), len(g), getattr(g, 'labelfmt', None)))
    return (F.number_of_variables(), tuple(out))


def check_state(cls, hist, opsd, M, labels, stats=None):
    V = Viol({'part': 'B', 'cls': cls, 'history': list(hist)})
    F, groups, err = execute(cls, hist, opsd, labels)
    if err is not None:
        step, op, e = err
        V.bad('history:%s:exception:%s' % (op, type(e).__name__), 'step %d (%s) raised %r' % (step, op, e))
        return V.out, None
    for (g, kind, shape, first, label) in groups:
        if g is None:
            continue
        group_checks(g, kind, shape, first, label, V, None, patterns=False)
    key = real_key(F)
    mkey = (M.numvar, tuple((first, size) for (_, _, first, size, _) in M.groups))
    if (key[0], tuple((a, b) for (_, a, b, _) in key[1])) != mkey and not V.out:
        V.bad('history:ids', 'manager state %r, the operations should give %r' % (key, mkey))
    name_checks(F, M, V, cls, stats, latex=True)
    return V.out, key


def explore(args, R):
    """args = {'cls', 'tier', 'roots': [history...], 'upto': depth or None}
    Breadth-first over the histories extending each root; a successor is a
    new state iff the history is the normal form of its state."""
    cls, tier = args['cls'], args['tier']
    ops = alphabet(tier)
    opsd = dict(ops)
    names = [o for o, _ in ops]
    D = args.get('upto') or depth_of(tier)
    seen = {}
    frontier = []
    for root in args['roots']:
        if args.get('check_roots'):
            M, canon, labels = model_of(root, opsd)
            _visit(cls, root, opsd, M, labels, R, seen)
        frontier.append(list(root))
    depth = len(args['roots'][0]) if args['roots'] else 0
    while depth < D and frontier:
        nxt = []
        for h in frontier:
            for op in names:
                h2 = h + [op]
                M, canon, labels = model_of(h2, opsd)
                R.stats['transitions'] += 1
                if canon != h2:
                    # reaches a state owned by a shorter / normal-form history:
                    # execute it anyway (the transition itself is checked) but
                    # do not expand
                    R.stats['executions'] += 1
                    R.stats['transitions_to_known_states'] += 1
                    vs, key = check_state(cls, h2, opsd, M, labels, None)
                    R.extend(vs)
                    continue
                _visit(cls, h2, opsd, M, labels, R, seen)
                nxt.append(h2)
        frontier = nxt
        depth += 1


def _visit(cls, h, opsd, M, labels, R, seen):
    vs, key = check_state(cls, h, opsd, M, labels, R.stats)
    R.stats['executions'] += 1
    R.stats['states'] += 1
    R.stats['states_depth_%d' % len(h)] += 1
    if any(nm is None for nm in M.names):
        R.stats['states_with_anonymous_gap'] += 1
    if M.singleton_after_anonymous():
        R.stats['states_singleton_after_anonymous'] += 1
    if key is not None:
        if key in seen and seen[key] != h:
            R.bad('history:state-merge', 'histories %r and %r are different states of the model but the '
                  'same manager state %r' % (seen[key], h, key), {'part': 'B', 'cls': cls, 'history': list(h)})
        seen[key] = list(h)
    R.case(sample={'cls': cls, 'history': list(h)} if R.evals % 997 == 0 else None,
           nontrivial=M.numvar > 0)
    R.outcomes['numvar:%02d' % min(M.numvar, 20)] += 1
    R.extend(vs)


ROOT_DEPTH = 2


def roots_B(tier):
    """normal-form histories of length ROOT_DEPTH (pure model, no cnfgen)"""
    ops = alphabet(tier)
    opsd = dict(ops)
    names = [o for o, _ in ops]
    out = []
    for h in itertools.product(names, repeat=ROOT_DEPTH):
        h = list(h)
        _, canon, _ = model_of(h, opsd)
        if canon == h:
            out.append(h)
    return out


def shards(tier, seed):
    # the history shards are the expensive ones: they go first
    out = []
    roots = roots_B(tier)
    kB = 19 if tier == 'thorough' else 12
    for cls in ('CNF', 'OPB'):
        for i, chunk in enumerate(scope.stripe(roots, kB)):
            out.append(('B-%s-%02d' % (cls, i), 'explore', {'cls': cls, 'tier': tier, 'roots': chunk}))
    for cls in ('CNF', 'OPB'):
        out.append(('B-%s-top' % cls, 'explore',
                    {'cls': cls, 'tier': tier, 'roots': [[]], 'upto': ROOT_DEPTH, 'check_roots': True}))
    cs = cases_A(tier, seed)
    kA = 24
    out += [('A%03d' % i, 'run_A', chunk) for i, chunk in enumerate(scope.stripe(cs, kA))]
    out.append(('H', 'run_H', cases_H(tier, seed)))
    return out


def coverage_extra(tier, stats, outcomes):
    return {'max_depth': depth_of(tier),
            'fixpoint_reached': False,      # the state space is unbounded: explored to max_depth
            'alphabet': [o for o, _ in alphabet(tier)],
            'states_per_depth': {str(d): int(stats.get('states_depth_%d' % d, 0))
                                 for d in range(depth_of(tier) + 1)},
            'formula_classes': ['CNF', 'OPB']}


# ---------------------------------------------------------------- replay --
def replay(case):
    if case.get('part') == 'A':
        vs, _ = check_A(case, None)
        return vs
    if case.get('part') == 'H':
        return check_H(case, None)
    hist = case['history']
    opsd = dict(alphabet('quick'))
    M, canon, labels = model_of(hist, opsd)
    vs, _ = check_state(case['cls'], hist, opsd, M, labels, None)
    return vs
