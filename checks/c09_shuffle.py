"""C09  Shuffling is a signed renaming of variables plus a reordering of clauses.

(a) explicit arguments: every CNF of a small scope x every flip vector x every
    variable permutation x every clause permutation x each 'fixed' switch must
    give exactly the formula obtained by applying them independently; invalid
    arguments (wrong length, repeated entry, 0-based variables, 1-based
    clauses, flip 0 or 2) must be rejected with ValueError.
(b) random path: EVERY outcome of the random choices (engine.xp, plain DFS: the
    space is 2^N*N!*M!) of Shuffle, of the cnfshuffle tool and of
    `cnfgen ... -T shuffle`, for all eight combinations of the three no-...
    switches; for each outcome a witness (flips, permutation, clause mapping)
    is SEARCHED among all signed permutations; switched-off components must
    be the identity.
"""
import io
import os
import sys
import itertools
import tempfile

from engine import xp, tt, scope
from engine.common import setup_paths

PROPERTY = 'C09'
SECOND_PASS = ('run_explicit',)     # see engine/common._run_shard
LEVEL = 'model_checking'
EXHAUSTIVE = True
ENGINE = 'xp+scope'
TECHNIQUE = ('exhaustive enumeration of explicit shuffle arguments over a small scope, and '
             'stateless exploration of all random outcomes of Shuffle / cnfshuffle / -T shuffle '
             'with a searched witness for each outcome')
LEVEL_TEXT = ('All explicit (flips, variable permutation, clause permutation) triples over all CNFs '
              'of the scope are compared with an independent application; all random outcomes '
              '(every answer of every draw) of the three entry points are enumerated for every '
              'switch combination and each must be explained by one consistent signed permutation '
              'and clause reordering, found by exhaustive search.')
LEVEL_NOTE = ('Trusted: engine/xp, the 20-line reference application in this file. Bounds: N<=3 '
              'variables, M<=3 clauses exhaustively (N,M<=5 with a deviation bound in thorough).')
RULE = ('explicit part: every (formula, flips, permutation, clause permutation, switches) tuple of '
        'the scope; random part: every execution (sequence of random answers) per (entry point, '
        'formula, switch combination); non-trivial = formula with at least one clause and one '
        'variable')
ASSUMPTIONS = [
    'small scope: at most 3 variables and 3 clauses exhaustively',
    'explicit arguments given as list, tuple or range (sized sequences)',
]
VACUITY = {'explicit_valid': 10000, 'explicit_invalid_rejected': 200, 'executions': 2000,
           'full_group_reached': 3}


def coverage_extra(tier, stats, outcomes):
    return {'exhaustive_note': 'explicit arguments and random outcomes for N,M<=3: complete; the 5-variable formula: every execution with at most 2 answers off the default schedule',
            'deviation_bounded_cases': int(stats.get('cases_deviation_bounded', 0)),
            'executions_on_implementation': int(stats.get('executions', 0))}


def preload():
    setup_paths()
    import cnfgen  # noqa
    import cnfgen.clitools.cnfshuffle  # noqa
    import cnfgen.clitools.cnfgen  # noqa


# ------------------------------------------------------------ reference --
def apply_shuffle(clauses, flips, perm, cperm):
    """Independent application: variable i -> flips[i-1]*perm[i-1]; the clause
    at position i goes to position cperm[i]."""
    M = len(clauses)
    out = [None] * M
    for i, c in enumerate(clauses):
        out[cperm[i]] = [(1 if l > 0 else -1) * flips[abs(l) - 1] * perm[abs(l) - 1] for l in c]
    return out


def find_witness(n, clauses, result, fix_flips, fix_vars, fix_clauses):
    """Witnesses (flips, perm, cperm) explaining `result` (at most one clause
    mapping per signed permutation is returned); switched-off components are
    forced to the identity.  Exhaustive over all signed permutations; the
    clause mapping is derived by matching (any matching of equal clauses is a
    valid permutation of positions)."""
    M = len(clauses)
    wit = []
    # a component is free (False), the identity (True) or given explicitly (a sequence)
    if isinstance(fix_flips, (list, tuple)):
        flipss = [tuple(fix_flips)]
    else:
        flipss = [tuple([1] * n)] if fix_flips else list(itertools.product((1, -1), repeat=n))
    if isinstance(fix_vars, (list, tuple)):
        perms = [tuple(fix_vars)]
    else:
        perms = [tuple(range(1, n + 1))] if fix_vars else list(itertools.permutations(range(1, n + 1)))
    if isinstance(fix_clauses, (list, tuple)):
        want = tuple(fix_clauses)
        for fl in flipss:
            for pm in perms:
                if apply_shuffle(clauses, fl, pm, want) == [list(c) for c in result]:
                    wit.append((fl, pm, want))
        return wit
    res_t = [tuple(c) for c in result]
    res_sorted = sorted(res_t)
    for fl in flipss:
        for pm in perms:
            mapped = [tuple((1 if l > 0 else -1) * fl[abs(l) - 1] * pm[abs(l) - 1] for l in c)
                      for c in clauses]
            if fix_clauses:
                if mapped == res_t:
                    wit.append((fl, pm, tuple(range(M))))
                continue
            if sorted(mapped) != res_sorted:
                continue
            free = {}
            for j, c in enumerate(res_t):
                free.setdefault(c, []).append(j)
            cp = []
            for c in mapped:
                cp.append(free[c].pop(0))
            wit.append((fl, pm, tuple(cp)))
    return wit


def mk(n, clauses):
    from cnfgen.formula.cnf import CNF
    F = CNF()
    F.update_variable_number(n)
    for c in clauses:
        F.add_clause(list(c))
    return F


# ---------------------------------------------------------- explicit part --
INVALID = 'invalid'


def explicit_argument_sets(n, M):
    """(kind, flips, perm, cperm) with kind 'valid' or the name of the invalid
    component."""
    ident_f = [1] * n
    ident_p = list(range(1, n + 1))
    ident_c = list(range(M))
    for fl in itertools.product((1, -1), repeat=n):
        for pm in itertools.permutations(range(1, n + 1)):
            for cp in itertools.permutations(range(M)):
                yield 'valid', list(fl), list(pm), list(cp)
    # EVERY sequence of the right length over a value alphabet one step wider
    # than the legal one (this contains all non-injective sequences, also those
    # whose repetitions cancel in a sum or product test)
    if 1 <= n <= 4:
        for b in itertools.product(range(0, n + 2), repeat=n):
            if sorted(b) != ident_p:
                yield 'variables', ident_f, list(b), ident_c
        for b in itertools.product((-1, 0, 1, 2), repeat=n):
            if not all(abs(x) == 1 for x in b):
                yield 'flips', list(b), ident_p, ident_c
    if 1 <= M <= 4:
        for b in itertools.product(range(-1, M + 1), repeat=M):
            if sorted(b) != ident_c:
                yield 'clauses', ident_f, ident_p, list(b)
    bad_f = [ident_f + [1], ident_f[:-1] if n else [1], [0] * n if n else None,
             [2] + ident_f[1:] if n else None, [1, -1, 1, 1, -1]]
    bad_p = [ident_p + [n + 1], list(range(0, n)) if n else [0], [1] * n if n > 1 else None,
             ident_p[:-1] if n else None, [n + 1] + ident_p[1:] if n else None,
             [-1] + ident_p[1:] if n else None]
    bad_c = [ident_c + [M], list(range(1, M + 1)) if M else [0], [0] * M if M > 1 else None,
             ident_c[:-1] if M else None, [-1] + ident_c[1:] if M else None]
    # entries that are not integers at all
    if n >= 2:
        mid = n // 2
        for odd in (ident_p[mid] + 0.5, str(ident_p[mid]), None, ident_p[mid] - 0.5):
            bad_p.append(ident_p[:mid] + [odd] + ident_p[mid + 1:])
        bad_f.append(ident_f[:mid] + [0.5] + ident_f[mid + 1:])
        bad_f.append(ident_f[:mid] + ['1'] + ident_f[mid + 1:])
    if M >= 2:
        bad_c.append(ident_c[:1] + [ident_c[1] - 0.5] + ident_c[2:])
        bad_c.append(ident_c[:1] + [str(ident_c[1])] + ident_c[2:])
    def ints(b):
        return all(type(x) is int for x in b)
    for b in bad_f:
        if b is not None and not (ints(b) and len(b) == n and all(abs(x) == 1 for x in b)):
            yield 'flips', b, ident_p, ident_c
    for b in bad_p:
        if b is not None and not (ints(b) and sorted(b) == ident_p):
            yield 'variables', ident_f, b, ident_c
    for b in bad_c:
        if b is not None and not (ints(b) and sorted(b) == ident_c):
            yield 'clauses', ident_f, ident_p, b


def check_explicit(case, R=None):
    from cnfgen.transformations.shuffle import Shuffle
    n, clauses = case['n'], [list(c) for c in case['clauses']]
    out = []

    def bad(sym, what, extra):
        c = dict(case)
        c.update(extra)
        out.append({'key': 'Shuffle:explicit:%s' % sym, 'what': what, 'case': c})

    M = len(clauses)
    _mk_plain = globals()['mk']

    def mk(n_, cl_):
        F_ = _mk_plain(n_, cl_)
        if case.get('header') == 'cleared':
            F_.header.clear()
        elif case.get('header') == 'no-description':
            F_.header.pop('description', None)
        return F_
    if case.get('keywords'):
        # the only keywords are 'fixed' and 'shuffle': any other string (or a
        # value that is neither a string nor a sequence) is an invalid argument
        for pos in range(3):
            for badv in ('random', 'none', 'Fixed', 'fixed ', '', 'SHUFFLE', 'identity', None, 1, 1.5, True):
                a = ['fixed', 'fixed', 'fixed']
                a[pos] = badv
                try:
                    Shuffle(mk(n, clauses), a[0], a[1], a[2])
                except (ValueError, TypeError):
                    if R is not None:
                        R.stats['explicit_invalid_rejected'] += 1
                    continue
                except Exception as e:
                    bad('exception:keyword:%s' % type(e).__name__, repr(e), {'keyword': [pos, repr(badv)]})
                    continue
                bad('invalid-accepted:keyword', 'argument %d = %r is neither a keyword nor a sequence '
                    'and was accepted' % (pos, badv), {'keyword': [pos, repr(badv)]})
        return out
    only = case.get('only')       # replay: a single argument tuple
    if case.get('large'):
        def perm(k, first):
            base = list(range(first, first + k))
            if case['large'] == 'reverse':
                return base[::-1]
            if case['large'] == 'rotate':
                return base[1:] + base[:1]
            return base
        fl = [1 if i % 3 else -1 for i in range(n)]
        sets = [('valid', fl, perm(n, 1), perm(M, 0)),
                ('valid', [1] * n, list(range(1, n + 1)), perm(M, 0)),
                ('valid', fl, perm(n, 1), list(range(M))),
                ('variables', [1] * n, perm(n, 1)[:-1] + [perm(n, 1)[0]], list(range(M))),
                ('clauses', [1] * n, list(range(1, n + 1)), perm(M, 0)[:-1] + [perm(M, 0)[0]])]
        if only:
            sets = [tuple(only)]
    else:
        sets = [tuple(only)] if only else explicit_argument_sets(n, M)
    def as_range(seq):
        # the range object that lists the same numbers, when there is one
        seq = list(seq)
        if not all(type(x) is int for x in seq):
            return None
        if len(seq) >= 2:
            r = range(seq[0], seq[-1] + (1 if seq[1] > seq[0] else -1), seq[1] - seq[0]) \
                if seq[1] != seq[0] else None
            return r if r is not None and list(r) == seq else None
        return range(seq[0], seq[0] + 1) if seq else range(0)

    for idx, (kind, fl, pm, cp) in enumerate(sets):
        containers = [list, tuple] if idx % 7 == 0 or only else [list]
        if not only and kind in ('valid', 'variables', 'clauses') \
                and (as_range(pm) is not None or as_range(cp) is not None):
            containers.append('range')       # permutations that a range object can express
        for container in containers:
            F = mk(n, clauses)
            if container == 'range':
                args = (list(fl), as_range(pm) if as_range(pm) is not None else list(pm),
                        as_range(cp) if as_range(cp) is not None else list(cp))
            else:
                args = (container(fl), container(pm), container(cp))
            if only:
                args = (fl, pm, cp)
                if case.get('container') == 'range':
                    args = (list(fl), as_range(pm) if as_range(pm) is not None else list(pm),
                            as_range(cp) if as_range(cp) is not None else list(cp))
            extra = {'only': [kind, list(fl), list(pm), list(cp)]}
            if container == 'range':
                extra['container'] = 'range'
            try:
                G = Shuffle(F, args[0], args[1], args[2])
            except ValueError as e:
                if kind == 'valid':
                    bad('valid-rejected', 'valid arguments rejected: %s' % e, extra)
                elif R is not None:
                    R.stats['explicit_invalid_rejected'] += 1
                continue
            except Exception as e:
                offending = {'flips': fl, 'variables': pm, 'clauses': cp}.get(kind, [])
                if kind != 'valid' and isinstance(e, TypeError) and not all(type(x) is int for x in offending):
                    # an entry that is not a number at all: TypeError is a rejection too
                    if R is not None:
                        R.stats['explicit_invalid_rejected'] += 1
                    continue
                bad('exception:%s:%s' % (kind, type(e).__name__), '%r' % (e,), extra)
                continue
            if kind != 'valid':
                bad('invalid-accepted:' + kind, 'invalid %s %r accepted' %
                    (kind, {'flips': fl, 'variables': pm, 'clauses': cp}[kind]), extra)
                continue
            if R is not None:
                R.stats['explicit_valid'] += 1
            got = [list(c) for c in G.clauses()]
            exp = apply_shuffle(clauses, fl, pm, cp)
            if G.number_of_variables() != n:
                bad('nvars', '%d variables instead of %d' % (G.number_of_variables(), n), extra)
            if got != exp:
                bad('result', 'flips=%r perm=%r cperm=%r on %r gives %r, expected %r' %
                    (fl, pm, cp, clauses, got, exp), extra)
            if [list(c) for c in F.clauses()] != clauses:
                bad('input-modified', 'input formula changed', extra)
        if kind == 'valid' and not only:
            # the 'fixed' switches are the identity of their component
            F = mk(n, clauses)
            for which in range(3):
                a = [fl, pm, cp]
                ident = [[1] * n, list(range(1, n + 1)), list(range(M))]
                if a[which] != ident[which]:
                    continue
                b = list(a)
                b[which] = 'fixed'
                try:
                    G = Shuffle(F, b[0], b[1], b[2])
                    got = [list(c) for c in G.clauses()]
                except Exception as e:
                    bad('fixed:exception:' + type(e).__name__, repr(e), {})
                    continue
                if got != apply_shuffle(clauses, fl, pm, cp):
                    bad('fixed:result', "'fixed' in position %d differs from the identity" % which, {})
    return out


def run_explicit(chunk, R):
    for case in chunk:
        vs = check_explicit(case, R)
        R.case(sample=case if R.evals % 500 == 0 else None,
               nontrivial=case['n'] > 0 and len(case['clauses']) > 0)
        R.extend(vs)


# ------------------------------------------------------------ random part --
SWITCHES = list(itertools.product((False, True), repeat=3))   # (no_flips, no_vars, no_clauses)


def make_body(case):
    n, clauses = case['n'], [list(c) for c in case['clauses']]
    nf, nv, nc = case['switches']
    entry = case['entry']
    if entry == 'lib':
        from cnfgen.transformations.shuffle import Shuffle

        ex = case.get('explicit') or [None, None, None]

        def body():
            F = mk(n, clauses)
            G = Shuffle(F,
                        list(ex[0]) if ex[0] is not None else ('fixed' if nf else 'shuffle'),
                        list(ex[1]) if ex[1] is not None else ('fixed' if nv else 'shuffle'),
                        list(ex[2]) if ex[2] is not None else ('fixed' if nc else 'shuffle'))
            return G.number_of_variables(), [list(c) for c in G.clauses()]
        return body
    text = mk(n, clauses).to_dimacs()
    if case.get('layout') == 'wrapped':
        # the same formula in another legal layout: comments in between, every
        # literal on a line of its own, the terminating 0 on the next line, two
        # short clauses sharing a line
        lines = ['c a comment', 'p cnf %d %d' % (n, len(clauses)), 'c another']
        for c in clauses:
            for l in c:
                lines.append(' %d ' % l)
                if len(c) > 2:
                    lines.append('c in the middle of a clause')
            lines.append('0')
        text = '\n'.join(lines) + '\n'
    elif case.get('layout') == 'one-line':
        text = 'p cnf %d %d\n' % (n, len(clauses)) + ' '.join(
            ' '.join(str(l) for l in c) + ' 0' for c in clauses) + '\n'
    flags = (['-p'] if nf else []) + (['-v'] if nv else []) + (['-c'] if nc else [])
    import cnfgen.clitools.msg as msgmod
    if entry == 'cnfshuffle':
        from cnfgen.clitools.cnfshuffle import cli

        def body():
            if hasattr(msgmod, '_prefix'):
                msgmod._prefix = ''
            old = sys.stdin
            sys.stdin = io.StringIO(text)
            try:
                G = cli(['cnfshuffle', '-q'] + flags, mode='formula')
            finally:
                sys.stdin = old
            return G.number_of_variables(), [list(c) for c in G.clauses()]
        return body
    if entry == 'cnfshuffle-o':
        # the tool writes its result to a file named by -o: whatever the name
        # ends with, cnfshuffle's output is the reshuffled formula in DIMACS
        from cnfgen.clitools.cnfshuffle import cli as scli
        from ref import c06_dimacs_ref as dref
        d = tempfile.mkdtemp(prefix='c09_')
        inp = os.path.join(d, 'in.cnf')
        with open(inp, 'w') as f:
            f.write(text)
        outp = os.path.join(d, case['outname'])

        def body():
            if hasattr(msgmod, '_prefix'):
                msgmod._prefix = ''
            if os.path.exists(outp):
                os.remove(outp)
            buf = io.StringIO()
            import contextlib
            with contextlib.redirect_stdout(buf):
                scli(['cnfshuffle', '-q', '-i', inp, '-o', outp] + flags, mode='output')
            with open(outp) as f:
                P = dref.parse(f.read())
            if not P.ok:
                raise AssertionError('the file written with -o %s is not DIMACS: %r' % (case['outname'], P.issues[:2]))
            return P.n, [list(c) for c in P.clauses]
        body.cleanup = d
        return body
    if entry == 'cnfgen-T':
        from cnfgen.clitools.cnfgen import cli as gcli
        d = tempfile.mkdtemp(prefix='c09_')
        path = os.path.join(d, 'f.cnf')
        with open(path, 'w') as f:
            f.write(text)

        def body():
            if hasattr(msgmod, '_prefix'):
                msgmod._prefix = ''
            G = gcli(['cnfgen', '-q', 'dimacs', path, '-T', 'shuffle'] + flags, mode='formula')
            return G.number_of_variables(), [list(c) for c in G.clauses()]
        body.cleanup = d
        return body
    raise KeyError(entry)


def judge(case, x):
    n, clauses = case['n'], [list(c) for c in case['clauses']]
    nf, nv, nc = case['switches']
    out = []

    def bad(sym, what):
        c = dict(case)
        c['choices'] = list(x['choices'])
        out.append({'key': 'Shuffle:random:%s:%s' % (case['entry'], sym), 'what': what, 'case': c})

    if x['exception'] is not None:
        e = x['exception']
        bad('exception:' + type(e).__name__, repr(e))
        return out, None
    gn, got = x['result']
    if gn != n:
        bad('nvars', '%d variables instead of %d' % (gn, n))
    if len(got) != len(clauses):
        bad('nclauses', '%d clauses instead of %d' % (len(got), len(clauses)))
        return out, None
    if sorted(len(c) for c in got) != sorted(len(c) for c in clauses):
        bad('widths', 'multiset of clause widths changed')
    ex = case.get('explicit') or [None, None, None]
    wit = find_witness(n, clauses, got,
                       tuple(ex[0]) if ex[0] is not None else nf,
                       tuple(ex[1]) if ex[1] is not None else nv,
                       tuple(ex[2]) if ex[2] is not None else nc)
    if not wit and any(e is not None for e in ex):
        bad('mixed:explicit-part-not-applied',
            'result %r of %r is not explained by the explicit arguments %r (the other components '
            'free / switched off as %r)' % (got, clauses, ex, case['switches']))
    elif not wit:
        # is it at least explained ignoring the switches?
        loose = find_witness(n, clauses, got, False, False, False)
        if loose:
            bad('switch-ignored', 'result %r needs %r although switches %r are on' %
                (got, loose[0], case['switches']))
        else:
            bad('no-witness', 'result %r of %r is not a signed renaming + clause reordering' %
                (got, clauses))
    else:
        try:
            # (cross-check only: the witness above already decides; skipped
            # beyond the width a truth table can have)
            if n <= 20 and tt.count(tt.cnf_models(n, got)) != tt.count(tt.cnf_models(n, clauses)):
                bad('model-count', 'number of models changed')
        except ValueError as e:
            bad('literal-range', str(e))
    return out, repr(got)


def run_random(chunk, R):
    for case in chunk:
        body = make_body(case)
        outcomes = set()
        nviol = [0]

        def on_result(x):
            vs, key = judge(case, x)
            if key is not None:
                outcomes.add(key)
            if vs and nviol[0] < 3:
                again = xp.replay(body, x['choices'])
                vs2, _ = judge(case, again)
                if [v['key'] for v in vs2] != [v['key'] for v in vs]:
                    raise xp.Divergence('violation did not reproduce: %r' % (case,))
                nviol[0] += 1
                R.extend(vs)
        st = xp.explore(body, on_result, hashing=False, horizon=200,
                        max_dev=case.get('max_dev'), max_execs=case.get('max_execs', 100000),
                        default=case.get('default', 'zero'), default_seed=case.get('default_seed', 0))
        if getattr(body, 'cleanup', None):
            import shutil
            shutil.rmtree(body.cleanup, ignore_errors=True)
        for key in ('executions', 'transitions', 'cap_hit', 'horizon'):
            R.stats[key] += st[key]
        R.stats['states'] += st['executions']
        n, M = case['n'], len(case['clauses'])
        nf, nv, nc = case['switches']
        group = (1 if nf else 2 ** n) * (1 if nv else _fact(n)) * (1 if nc else _fact(M))
        if case.get('asymmetric') and case.get('max_dev') is None:
            if len(outcomes) == group:
                R.stats['full_group_reached'] += 1
            else:
                # not demanded by the property (a shuffler need not reach every
                # signed permutation): measured only, guarded by VACUITY
                R.stats['group_not_reached'] += 1
        R.outcomes['distinct_shufflings'] += len(outcomes)
        R.case(sample=dict(case, executions=st['executions'], distinct=len(outcomes)),
               nontrivial=n > 0 and M > 0)


def _fact(k):
    r = 1
    for i in range(2, k + 1):
        r *= i
    return r


# ------------------------------------------------- formulas with many clauses --
def big_formula(M):
    """9 variables, M clauses of width 1..4 (repetitions are legal)"""
    cls = []
    for i in range(M):
        w = 1 + i % 4
        cls.append([((i * 7 + 3 * t) % 9 + 1) * (1 if (i >> t) & 1 else -1) for t in range(w)])
        vs = [abs(l) for l in cls[-1]]
        if len(set(vs)) != len(vs):
            cls[-1] = [cls[-1][0]]
    return 9, cls


def check_big(case):
    """More clauses than any writer buffer (10007, 20011): what the tools
    PRINT is re-read by the strict DIMACS reader.  With every component switched
    off the clause list is the input's; with the clauses permuted only, the same
    multiset; always the same number of clauses and of models.  One seeded
    generator (the outcome space is out of reach at this size)."""
    import random
    import contextlib
    from ref import c06_dimacs_ref as dref
    import cnfgen.clitools.msg as msgmod
    n, clauses = big_formula(case['M'])
    nf, nv, nc = case['switches']
    flags = (['-p'] if nf else []) + (['-v'] if nv else []) + (['-c'] if nc else [])
    text = 'p cnf %d %d\n' % (n, len(clauses)) + ''.join(' '.join(map(str, c)) + ' 0\n' for c in clauses)
    if case.get('align'):
        # an input longer than 2^20 characters in which a line starts exactly at
        # that offset (a comment line of the right length is put in front)
        pos = best = 0
        for ln in text.split('\n'):
            if pos > (1 << 20) - 3:
                break
            best = pos                   # the last line start at least 3 characters before 2^20
            pos += len(ln) + 1
        pad = (1 << 20) - best           # length of the comment line that moves it onto 2^20
        text = 'c ' + 'x' * (pad - 3) + '\n' + text
        assert len(text) > (1 << 20) and text[(1 << 20) - 1] == '\n'
    out = []

    def bad(sym, what):
        out.append({'key': 'Shuffle:big:%s:%s' % (case['entry'], sym), 'what': what, 'case': dict(case)})
    st = random.getstate()
    random.seed(case.get('seed', 11))
    d = tempfile.mkdtemp(prefix='c09_')
    try:
        if hasattr(msgmod, '_prefix'):
            msgmod._prefix = ''
        buf = io.StringIO()
        old = sys.stdin
        try:
            with contextlib.redirect_stdout(buf), contextlib.redirect_stderr(io.StringIO()):
                if case['entry'] == 'cnfshuffle':
                    from cnfgen.clitools.cnfshuffle import cli
                    sys.stdin = io.StringIO(text)
                    cli(['cnfshuffle', '-q'] + flags, mode='output')
                else:
                    from cnfgen.clitools.cnfgen import cli
                    path = os.path.join(d, 'big.cnf')
                    with open(path, 'w') as f:
                        f.write(text)
                    cli(['cnfgen', '-q', 'dimacs', path, '-T', 'shuffle'] + flags, mode='output')
        except (Exception, SystemExit) as e:
            bad('exception:' + type(e).__name__, repr(e)[:200])
            return out
        finally:
            sys.stdin = old
    finally:
        random.setstate(st)
        import shutil
        shutil.rmtree(d, ignore_errors=True)
    P = dref.parse(buf.getvalue())
    if not P.ok:
        bad('output-not-dimacs', '%r' % (P.issues[:3],))
        return out
    got = [list(c) for c in P.clauses]
    if P.n != n or len(got) != len(clauses):
        bad('size', '%d variables / %d clauses printed, the input has %d / %d' % (P.n, len(got), n, len(clauses)))
        return out
    if sorted(len(c) for c in got) != sorted(len(c) for c in clauses):
        bad('widths', 'multiset of clause widths changed')
    if nf and nv and nc and got != clauses:
        bad('fixed', 'all components switched off, the clause list printed is not the input')
    if nf and nv and sorted(map(tuple, got)) != sorted(map(tuple, clauses)):
        bad('clauses-only', 'only the clause order may change, the multiset of clauses differs')
    if bin(tt.cnf_models(n, got)).count('1') != bin(tt.cnf_models(n, clauses)).count('1'):
        bad('models', 'number of models changed')
    return out


def run_big(chunk, R):
    for case in chunk:
        vs = check_big(case)
        R.stats['executions'] += 1
        R.stats['big_formulas'] += 1
        R.case(sample=case, nontrivial=True)
        R.extend(vs)


def check_optimized(case):
    """The explicit-argument box once more in an interpreter started with -O /
    -OO (assert statements and `if __debug__:` blocks are compiled away): valid
    arguments are applied as given, invalid ones are rejected there too."""
    import json
    import subprocess
    from engine.common import VERIF
    env = dict(os.environ)
    env['VERIF_REPO_PATH'] = os.environ.get('VERIF_REPO', '/repo')
    env.pop('PYTHONPATH', None)
    env.pop('PYTHONOPTIMIZE', None)
    p = subprocess.run([sys.executable, case['opt'], os.path.join(VERIF, 'engine', 'c09_optimized.py')],
                       stdout=subprocess.PIPE, stderr=subprocess.PIPE, env=env, timeout=600)
    if p.returncode != 0:
        raise RuntimeError('c09_optimized failed: %s' % p.stderr.decode()[-1500:])
    res = json.loads(p.stdout.decode())
    want = {'-O': 1, '-OO': 2}[case['opt']]
    if res['optimize'] != want:
        raise RuntimeError('the interpreter did not run with %s' % case['opt'])
    out = []
    for (sym, kind, fl, pm, cp) in res['problems'][:6]:
        out.append({'key': 'Shuffle:python%s:%s:%s' % (case['opt'], sym, kind),
                    'what': 'under python %s: %s for flips=%r variables=%r clauses=%r (%d problems in %d calls)'
                            % (case['opt'], sym, fl, pm, cp, res['nproblems'], res['tried']),
                    'case': dict(case)})
    return out, res['tried']


def run_optimized(chunk, R):
    for case in chunk:
        vs, tried = check_optimized(case)
        R.stats['executions'] += tried
        R.stats['calls_in_an_optimized_interpreter'] += tried
        R.case(sample=case, nontrivial=True, n=tried)
        R.extend(vs)


def replay(case):
    if case.get('part') == 'optimized':
        return check_optimized(case)[0]
    if case.get('part') == 'big':
        return check_big(case)
    if 'choices' in case:
        if not case['choices'] and 'outcomes' in str(case):
            pass
        body = make_body(case)
        x = xp.replay(body, case['choices'])
        vs, _ = judge(case, x)
        if getattr(body, 'cleanup', None):
            import shutil
            shutil.rmtree(body.cleanup, ignore_errors=True)
        return vs
    return check_explicit(case)


# ----------------------------------------------------------------- cases --
ASYM = [
    (3, [[1], [1, -2], [-1, 2, 3]]),         # trivial automorphism group
    (2, [[1], [1, -2]]),
    (3, [[1, 2], [-3], [2, 3, -1]]),
    (1, [[1]]),
    (2, [[], [1], [-1, 2]]),
]
SYM = [
    (2, [[1, 2], [1, 2]]),                   # repeated clause
    (2, [[1, -1], [2]]),                     # opposite literals
    (3, [[1, 2]]),                           # unused variable
    (0, []),
    (0, [[]]),
    (2, []),
    (3, [[1, 2, 3], [-1, -2, -3], [1, 1]]),
]


def shards(tier, seed):
    thorough = tier == 'thorough'
    out = []
    # explicit part
    ex = []
    seen = set()
    boxes = [(0, 2), (1, 3), (2, 3), (3, 2)] + ([(3, 3)] if thorough else [])
    for (v, m) in boxes:
        for n, cls in scope.cnfs(v, m, declared_extra=(0,)):
            key = (n, tuple(map(tuple, cls)))
            if key not in seen:
                seen.add(key)
                ex.append({'n': n, 'clauses': [list(c) for c in cls]})
    for n, cls in ASYM + SYM:
        ex.append({'n': n, 'clauses': cls})
    ex.append({'n': 4, 'clauses': [[1, -4], [2, 3]]})
    ex.append({'n': 2, 'clauses': [[1, -2], [2]], 'keywords': True})
    ex.append({'n': 3, 'clauses': [[1, 2, -3]], 'keywords': True})
    ex.append({'n': 4, 'clauses': [[1, -4], [2, 3], [-1, 2, -3, 4], [4]]})
    # formulas whose header the caller emptied, or stripped of its description
    ex.append({'n': 3, 'clauses': [[1, -2], [2, 3]], 'header': 'cleared'})
    ex.append({'n': 2, 'clauses': [[1, -2], [2]], 'header': 'no-description'})
    # sizes beyond CPython's small-integer cache (256) and two-digit indices
    for big in (12, 300):
        cls = [[(i % big) + 1, -(((i * 7) % big) + 1)] for i in range(big)]
        for nm in ('identity', 'reverse', 'rotate'):
            ex.append({'n': big, 'clauses': cls, 'large': nm})
    # very sparse formulas: many declared variables, a handful of literal
    # occurrences (seeded change C09-s23: a separate code path for
    # N > 8 * occurrences), the last variable occurring or not
    for big in (60, 300):
        for cls in ([[1, -big], [7]], [[2, -5], [5]], [[big], [-1, big]]):   # (two clauses at least: the invalid argument sets of this mode need M >= 2)
            for nm in ('identity', 'reverse', 'rotate'):
                ex.append({'n': big, 'clauses': cls, 'large': nm})
    for i, ch in enumerate(scope.stripe(ex, 40)):
        out.append(('e%03d' % i, 'run_explicit', ch))
    # random part
    rnd = []
    for (n, cls) in ASYM:
        for sw in SWITCHES:
            rnd.append({'entry': 'lib', 'n': n, 'clauses': cls, 'switches': list(sw), 'asymmetric': True})
    for (n, cls) in SYM:
        for sw in SWITCHES:
            rnd.append({'entry': 'lib', 'n': n, 'clauses': cls, 'switches': list(sw)})
    for (n, cls) in [ASYM[1], ASYM[0], SYM[0], SYM[4]]:
        for sw in SWITCHES:
            rnd.append({'entry': 'cnfshuffle', 'n': n, 'clauses': cls, 'switches': list(sw),
                        'asymmetric': (n, cls) in ASYM})
    # mixed mode: some components given explicitly, the others drawn at random
    # or switched off -- every combination, with non-constant explicit values
    for (n, cls) in [ASYM[0], ASYM[1], SYM[0]]:
        M_ = len(cls)
        e_fl = [(-1 if i % 2 == 0 else 1) for i in range(n)]
        e_pm = list(range(2, n + 1)) + [1]
        e_cp = list(range(1, M_)) + [0]
        for mask in range(1, 7):              # at least one explicit, at least one not
            ex = [e_fl if mask & 1 else None, e_pm if mask & 2 else None, e_cp if mask & 4 else None]
            for rest in ((False, False, False), (True, True, True)):
                rnd.append({'entry': 'lib', 'n': n, 'clauses': cls, 'switches': list(rest),
                            'explicit': ex, 'asymmetric': (n, cls) in ASYM})
    for sw in SWITCHES:
        rnd.append({'entry': 'cnfgen-T', 'n': 2, 'clauses': ASYM[1][1], 'switches': list(sw),
                    'asymmetric': True})
    for outname in ('out.cnf', 'out.opb', 'out.tex', 'out', 'opb'):
        for sw in ([True, True, True], [False, True, False]):
            rnd.append({'entry': 'cnfshuffle-o', 'n': ASYM[0][0], 'clauses': ASYM[0][1], 'switches': list(sw),
                        'outname': outname, 'asymmetric': True})
    # the tools read their input: other legal layouts of the same formula
    for layout in ('wrapped', 'one-line'):
        for entry in ('cnfshuffle', 'cnfgen-T'):
            for (n, cls) in [ASYM[0], SYM[0]]:
                for sw in ([True, True, True], [False, False, False], [True, False, True]):
                    rnd.append({'entry': entry, 'n': n, 'clauses': cls, 'switches': list(sw),
                                'layout': layout, 'asymmetric': (n, cls) in ASYM})
    rnd.append({'entry': 'cnfgen-T', 'n': 3, 'clauses': ASYM[0][1], 'switches': [False, False, True],
                'asymmetric': True})
    # declared variables and no clause at all, variables that no clause uses
    for entry in ('cnfshuffle', 'cnfgen-T', 'cnfshuffle-o', 'lib'):
        for (n_, cls_) in ((3, []), (1, []), (4, [[2, -3]])):
            for sw in ([True, True, True], [False, False, False]):
                c_ = {'entry': entry, 'n': n_, 'clauses': cls_, 'switches': list(sw)}
                if entry == 'cnfshuffle-o':
                    c_['outname'] = 'out.cnf'
                rnd.append(c_)
    # clauses whose width sits on the boundaries a line-wrapping writer can
    # have (seeded change C09-s24: terminator lost at exactly 128, 256 literals),
    # through the tools, nothing random
    wide = [list(range(1, 129)), [-i for i in range(1, 257)], list(range(129, 257)),
            list(range(1, 128)), [-i for i in range(1, 130)], list(range(1, 65)), [256]]
    for entry in ('cnfshuffle', 'cnfgen-T', 'cnfshuffle-o', 'lib'):
        c_ = {'entry': entry, 'n': 256, 'clauses': wide, 'switches': [True, True, True]}
        if entry == 'cnfshuffle-o':
            c_['outname'] = 'out.cnf'
        rnd.append(c_)
    if thorough:
        big = [(4, [[1, -2], [2, 3, -4], [-1], [4, 1, 2], [3]]),
               (5, [[1, 2, 3, 4, 5], [-1, 2], [-2, 3], [-3, 4], [-4, 5], [5]])]
        for (n, cls) in big:
            for sw in SWITCHES:
                for dflt in ('zero', 'mix'):
                    rnd.append({'entry': 'lib', 'n': n, 'clauses': cls, 'switches': list(sw),
                                'max_dev': 2, 'default': dflt, 'default_seed': seed})
        rnd.append({'entry': 'lib', 'n': 4, 'clauses': big[0][1][:3], 'switches': [False, False, False]})
    else:
        rnd.append({'entry': 'lib', 'n': 5, 'clauses': [[1, 2, 3, 4, 5], [-1, 2], [-2, 3], [-3, 4]],
                    'switches': [False, False, False], 'max_dev': 2, 'default': 'mix',
                    'default_seed': seed})

    def weight(c):
        w = {'lib': 1, 'cnfshuffle': 15, 'cnfshuffle-o': 20, 'cnfgen-T': 60}[c['entry']]
        nf, nv, nc = c['switches']
        return w * (1 if nf else 2 ** c['n']) * (1 if nv else _fact(c['n'])) * \
            (1 if nc else _fact(len(c['clauses'])))
    bigs = [{'part': 'big', 'entry': e, 'M': M, 'switches': list(sw), 'seed': seed + 11}
            for e in ('cnfshuffle', 'cnfgen-T') for M in ((10007, 20011) if e == 'cnfshuffle' else (10007,))
            for sw in ((True, True, True), (True, True, False), (False, False, False))]
    bigs.append({'part': 'big', 'entry': 'cnfshuffle', 'M': 200000, 'switches': [True, True, True],
                 'seed': seed + 11, 'align': True})
    bigs.append({'part': 'big', 'entry': 'cnfgen-T', 'M': 200000, 'switches': [True, True, False],
                 'seed': seed + 11, 'align': True})
    for i, ch in enumerate(scope.stripe(bigs, 4)):
        out.append(('big%d' % i, 'run_big', ch))
    out.append(('optimized', 'run_optimized', [{'part': 'optimized', 'opt': '-O'},
                                                {'part': 'optimized', 'opt': '-OO'}]))
    rnd.sort(key=lambda c: -weight(c))
    k = 48
    for i in range(k):
        ch = rnd[i::k]
        if ch:
            out.append(('r%03d' % i, 'run_random', ch))
    return out
