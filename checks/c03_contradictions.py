"""C03  Contradiction and Ramsey-type benchmarks have the documented
satisfiability.

Bounded exhaustive exploration of the real generators.  Three oracles:

(i)   UNSAT.  Every formula documented as a contradiction (ordering / graph
      ordering principle in all its variants, pebbling, stone, sparse stone,
      CPLS, Pitfall) is evaluated on ALL assignments: the bit-parallel truth
      table of engine.tt up to 22 variables, above that an exhaustive walk of
      the assignment tree (engine.c03_walk: a subtree is abandoned only below
      a falsified clause).  The set of models must be empty.
(ii)  AXIOMS.  Ids are translated to the published names
      (all_variable_labels) and the produced clause set must be equal, as a
      set of sets of named literals, to a reference axiom list written from
      the documentation: none missing, none extra.
(iii) MODEL SETS.  The planted ordering principle has exactly the orders
      whose only local minimum is the planted vertex as models; Ramsey
      number, van der Waerden and Pythagorean triples formulas have exactly
      the colourings avoiding the forbidden monochromatic structures as
      models, one model per colouring.  The objects are enumerated by
      independent brute force (all graphs with their clique / independence
      numbers, all colourings, all permutations, all partial orders).

The random draw of PitfallFormula (networkx.random_regular_graph) is an
environment choice: the seam is replaced inside this process and EVERY
labelled d-regular graph on v vertices is returned once.
"""
import re
import itertools
from math import comb
from functools import lru_cache

from engine import tt, scope
from engine import c03_walk
from engine.common import setup_paths

PROPERTY = 'C03'
SECOND_PASS = ('run_cases',)     # see engine/common._run_shard
LEVEL = 'exploration'
EXHAUSTIVE = True
RULE = ('every parameter tuple of the stated boxes, every labelled graph / DAG / '
        'stone-availability graph up to the stated size, every labelled d-regular '
        'graph the Pitfall seam may return; each instance evaluated on all its '
        'assignments (truth table, or complete tree walk above 22 variables); an '
        'instance is non-trivial when it has at least one variable and one clause; '
        'instances are distinct by construction (each enumerated once)')
ASSUMPTIONS = [
    'bounded scope (thorough in brackets): ordering N<=7 (8), all graphs <=5 vertices with all '
    '24 flag combinations (+ all 6-vertex graphs with 7 flag combinations), all DAGs <=5 (6) '
    'vertices, stone DAGs <=3 (4) vertices x <=3 stones, all availability graphs up to 3x3 '
    '(4x2), CPLS a<=3 (4), b,c in {1,2,4} (8), Pitfall on every d-regular graph with v<=6 '
    '(+ (7,2),(7,4),(8,1),(8,2),(8,3)), ny,nz in {2,3}, k in {2,4}, Ramsey N<=6 (7) x s,k<=5, vdW 2 colours N<=9 (19), '
    '3 colours N<=6 (7), 4 colours N<=4 (5), PTN N<=22 by truth table and N<=60 (200) by '
    'clause-set equality',
    'variable meaning is taken from the published names (all_variable_labels)',
    'reference axiom lists / colouring predicates in checks/c03 are the documented meaning; '
    'Pitfall axioms follow the inline documentation of pitfall.py (hard part = k copies of '
    'the Tseitin formula with odd charge on the first vertex, each clause extended by the '
    'safety variables; pitfall, pipe, tail gadgets; easy part), the numbering of the '
    'pitfall variables inside a pipe gadget is read off the formula (naming)',
    'networkx.random_regular_graph(d, v) returns a simple d-regular graph on nodes 0..v-1 '
    '(checked against real draws in every run)',
]
VACUITY = {'unsat_proved': 2000, 'sat_instances': 300, 'unsat_instances': 2000,
           'axiom_sets_compared': 5000, 'axiom_sets_equal': 4000,
           'model_sets_compared': 500, 'seam_calls': 500, 'refused_ValueError': 20,
           'seam_real_draws_in_enumeration': 50, 'bitmap_vs_walk_crosschecks': 1000}
ENGINE = 'tt+scope+c03_walk+seam'
TECHNIQUE = ('bounded exhaustive model checking of the generators: every instance of a small '
             'scope (incl. every environment answer at the random_regular_graph seam) x all '
             'assignments; clause sets compared with reference axiom lists over named atoms; '
             'model sets compared with brute-force enumerations of the combinatorial objects')
LEVEL_TEXT = ('Every parameter tuple / graph / DAG / regular graph of the stated scope is built by '
              'the real generator; unsatisfiability is established on all 2^n assignments (bitmap) '
              'or by a complete walk of the assignment tree; clause sets are compared with reference '
              'axioms; model sets with enumerated objects. Exhaustive inside the scope; nothing sampled.')
LEVEL_NOTE = ('Trusted: reference axioms and object enumerators of checks/c03, engine/tt, '
              'engine/c03_walk (cross-checked against each other on every instance with <= 16 '
              'variables). Not covered: sizes beyond the scope.')

BITMAP_LIMIT = 22
CROSS_LIMIT = 16
NODE_CAP = 400000


def preload():
    setup_paths()
    import cnfgen  # noqa


class Uninterpretable(Exception):
    """The published variable names cannot be read by this harness: no
    verdict is possible (harness error, never a violation)."""


# ===================================================================== names
_NAME_RULES = {
    'ordering': [(re.compile(r'^x_\{(\d+),(\d+)\}$'), 'x')],
    'peb': [(re.compile(r'^x\((\d+)\)$'), 'x')],
    'stone': [(re.compile(r'^R_\{(\d+)\}$'), 'R'),
              (re.compile(r'^P_\{(\d+),(\d+)\}$'), 'P')],
    'cpls': [(re.compile(r'^G_(\d+)\((\d+),(\d+)\)$'), 'G'),
             (re.compile(r'^\(f_\{(\d+)\}\((\d+)\)\)_\{(\d+)\}$'), 'f'),
             (re.compile(r'^\(u\((\d+)\)\)_\{(\d+)\}$'), 'u')],
    'pitfall': [(re.compile(r'^e\[(\d+)\]_\{(\d+),(\d+)\}$'), 'e'),
                (re.compile(r'^y_\{(\d+),(\d+)\}$'), 'y'),
                (re.compile(r'^z_\{(\d+),(\d+)\}$'), 'z'),
                (re.compile(r'^p_\{(\d+),(\d+)\}$'), 'p'),
                (re.compile(r'^a_\{(\d+),(\d+)\}$'), 'a')],
    'ram': [(re.compile(r'^e_\{(\d+),(\d+)\}$'), 'e')],
    'vdw': [(re.compile(r'^x_\{(\d+)\}$'), 'x'),
            (re.compile(r'^x_\{(\d+),(\d+)\}$'), 'x')],
    'ptn': [(re.compile(r'^v\((\d+)\)$'), 'v')],
}
_FAMILY_OF = {'op': 'ordering', 'gop': 'ordering', 'peb': 'peb', 'stone': 'stone',
              'sstone': 'stone', 'cpls': 'cpls', 'pitfall': 'pitfall', 'ram': 'ram',
              'vdw': 'vdw', 'ptn': 'ptn'}


def atoms_of(F, family):
    """[atom of variable 1, atom of variable 2, ...]; an atom is a tuple
    (tag, int, ...) parsed from the published name."""
    n = F.number_of_variables()
    names = list(F.all_variable_labels())
    if len(names) != n:
        raise Uninterpretable('%d names for %d variables' % (len(names), n))
    out = []
    for nm in names:
        atom = None
        if isinstance(nm, str):
            for rx, tag in _NAME_RULES[family]:
                m = rx.match(nm)
                if m:
                    atom = (tag,) + tuple(int(g) for g in m.groups())
                    break
        if atom is None:
            raise Uninterpretable('cannot read variable name %r' % (nm,))
        out.append(atom)
    if len(set(out)) != len(out):
        raise Uninterpretable('duplicate variable names')
    return out


def show_lit(lit):
    atom, pos = lit
    return ('' if pos else '~') + atom[0] + '(' + ','.join(str(i) for i in atom[1:]) + ')'


def show_clause(cl):
    return '{' + ' '.join(sorted(show_lit(l) for l in cl)) + '}'


def neg(lit):
    return (lit[0], not lit[1])


def is_tautology(cl):
    return any(neg(l) in cl for l in cl)


# ================================================== reference: combinatorics
POSET_COUNTS = [1, 1, 3, 19, 219, 4231, 130023]      # OEIS A001035


@lru_cache(maxsize=None)
def posets(n):
    """All strict partial orders on {1..n}, each a frozenset of pairs (a,b)
    meaning a<b.  Built by adding element n to every order on {1..n-1}: the
    set D of elements below n is down-closed, the set U above n is up-closed,
    D and U are disjoint and every element of D is below every element of U."""
    if n == 0:
        return (frozenset(),)
    out = []
    elems = list(range(1, n))
    for P in posets(n - 1):
        below = {x: {a for (a, b) in P if b == x} for x in elems}
        above = {x: {b for (a, b) in P if a == x} for x in elems}
        for dmask in range(1 << len(elems)):
            D = {elems[i] for i in range(len(elems)) if (dmask >> i) & 1}
            if any(not below[d] <= D for d in D):
                continue
            rest = [x for x in elems if x not in D]
            for umask in range(1 << len(rest)):
                U = {rest[i] for i in range(len(rest)) if (umask >> i) & 1}
                if any(not above[u] <= U for u in U):
                    continue
                if any((d, u) not in P for d in D for u in U):
                    continue
                out.append(P | {(d, n) for d in D} | {(n, u) for u in U})
    assert len(out) == POSET_COUNTS[n], (n, len(out))
    return tuple(out)


def posets_bruteforce(n):
    pairs = [(a, b) for a in range(1, n + 1) for b in range(1, n + 1) if a != b]
    out = set()
    for mask in range(1 << len(pairs)):
        Rl = {pairs[i] for i in range(len(pairs)) if (mask >> i) & 1}
        if any((b, a) in Rl for (a, b) in Rl):
            continue
        if any((a, d) not in Rl for (a, b) in Rl for (c, d) in Rl if b == c and a != d):
            continue
        if any(b == c and a == d for (a, b) in Rl for (c, d) in Rl):
            continue
        out.add(frozenset(Rl))
    return out


def total_orders(n):
    for perm in itertools.permutations(range(1, n + 1)):
        pos = {v: i for i, v in enumerate(perm)}
        yield frozenset((a, b) for a in range(1, n + 1) for b in range(1, n + 1)
                        if a != b and pos[a] < pos[b])


def local_minima(n, adj, order):
    return [v for v in range(1, n + 1) if not any((u, v) in order for u in adj[v])]


def is_connected(n, edges):
    return n == 0 or len(scope.components(n, edges)) == 1


REGULAR_COUNTS = {(2, 1): 1, (3, 2): 1, (4, 1): 3, (4, 2): 3, (4, 3): 1, (5, 2): 12,
                  (5, 4): 1, (6, 1): 15, (6, 2): 70, (6, 3): 70, (6, 4): 15, (6, 5): 1,
                  (7, 2): 465, (7, 4): 465, (7, 6): 1, (8, 1): 105, (8, 2): 3507,
                  (8, 3): 19355, (8, 4): 19355}


@lru_cache(maxsize=None)
def regular_graphs(v, d):
    """All labelled simple d-regular graphs on vertices 0..v-1 (sorted edge
    tuples), by backtracking on the neighbourhood of the lowest unfinished
    vertex."""
    out = []
    deg = [0] * v

    def rec(u, edges):
        while u < v and deg[u] == d:
            u += 1
        if u == v:
            out.append(tuple(edges))
            return
        need = d - deg[u]
        cands = [w for w in range(u + 1, v) if deg[w] < d and (u, w) not in edges]
        # u's remaining neighbours are all above u (lower vertices are complete)
        for ws in itertools.combinations(cands, need):
            for w in ws:
                deg[w] += 1
            deg[u] += need
            rec(u + 1, edges + [(u, w) for w in ws])
            deg[u] -= need
            for w in ws:
                deg[w] -= 1

    if v * d % 2 == 0 and d < v:
        rec(0, [])
    out.sort()
    if (v, d) in REGULAR_COUNTS:
        assert len(out) == REGULAR_COUNTS[(v, d)], (v, d, len(out))
    for es in out:
        dd = [0] * v
        for a, b in es:
            dd[a] += 1
            dd[b] += 1
        assert all(x == d for x in dd) and len(set(es)) == len(es)
    return tuple(out)


def progressions(N, k):
    """All arithmetic progressions with k terms inside 1..N, as frozensets.
    A progression with one term is a single number."""
    out = set()
    for i in range(1, N + 1):
        if k == 1:
            out.add(frozenset([i]))
            continue
        d = 1
        while i + (k - 1) * d <= N:
            out.add(frozenset(i + t * d for t in range(k)))
            d += 1
    return out


def vdw_colourings(N, K):
    """All colourings 1..N -> 1..len(K) without a monochromatic progression of
    K[c-1] terms in colour c; backtracking over positions (a progression is
    detected when its last term is coloured)."""
    out = []
    col = [0] * (N + 1)

    def bad(p, c):
        k = K[c - 1]
        if k == 1:
            return True
        d = 1
        while p - (k - 1) * d >= 1:
            if all(col[p - t * d] == c for t in range(1, k)):
                return True
            d += 1
        return False

    def rec(p):
        if p > N:
            out.append(tuple(col[1:]))
            return
        for c in range(1, len(K) + 1):
            if not bad(p, c):
                col[p] = c
                rec(p + 1)
                col[p] = 0
    rec(1)
    return out


def vdw_colourings_bruteforce(N, K):
    aps = [(c, ap) for c in range(1, len(K) + 1) for ap in progressions(N, K[c - 1])]
    out = []
    for colouring in itertools.product(range(1, len(K) + 1), repeat=N):
        if not any(all(colouring[i - 1] == c for i in ap) for c, ap in aps):
            out.append(colouring)
    return out


def pythagorean_triples(N):
    if N <= 60:
        return [(a, b, c) for a in range(1, N + 1) for b in range(a + 1, N + 1)
                for c in range(b + 1, N + 1) if a * a + b * b == c * c]
    # larger N: the hypotenuse is looked up among the squares (quadratic)
    sq = {c * c: c for c in range(1, N + 1)}
    out = []
    N2 = N * N
    for a in range(1, N + 1):
        a2 = a * a
        for b in range(a + 1, N + 1):
            s2 = a2 + b * b
            if s2 > N2:
                break
            c = sq.get(s2)
            if c is not None:
                out.append((a, b, c))
    return out


def _omega(adj, cand):
    best = 0
    while cand:
        v = (cand & -cand).bit_length() - 1
        cand &= cand - 1
        w = 1 + _omega(adj, cand & adj[v])
        if w > best:
            best = w
    return best


@lru_cache(maxsize=4)
def clique_tables(N, part, nparts):
    """For every graph g on N vertices whose number lies in slice `part` of
    `nparts` (g is a bitmask over the pairs of all_pairs(N), in that order):
    (independence number, clique number).  Brute force on each graph."""
    pairs = scope.all_pairs(N)
    total = 1 << len(pairs)
    size = total // nparts
    lo = part * size
    full = (1 << N) - 1
    alpha = bytearray(size)
    omega = bytearray(size)
    for g in range(lo, lo + size):
        adj = [0] * N
        for i, (u, v) in enumerate(pairs):
            if (g >> i) & 1:
                adj[u - 1] |= 1 << (v - 1)
                adj[v - 1] |= 1 << (u - 1)
        cadj = [full & ~adj[x] & ~(1 << x) for x in range(N)]
        omega[g - lo] = _omega(adj, full)
        alpha[g - lo] = _omega(cadj, full)
    return alpha, omega


RAMSEY_NUMBERS = {(3, 3): 6, (3, 4): 9, (4, 3): 9, (4, 4): 18, (3, 5): 14, (5, 3): 14}


def ramsey_number(s, k):
    """Known values only (None when not tabulated)."""
    if s == 1 or k == 1:
        return 1
    if s == 2:
        return k
    if k == 2:
        return s
    return RAMSEY_NUMBERS.get((s, k))


VDW_NUMBERS = {(3, 3): 9, (3, 4): 18, (4, 3): 18, (3, 3, 3): 27, (2, 2): 3, (2, 3): 6,
               (3, 2): 6, (2, 4): 7, (4, 2): 7}
# vdw(K) = smallest N such that every colouring of 1..N has a forbidden
# progression (the formula for N is satisfiable iff N < vdw(K)).


# ========================================================= reference: axioms
def ref_ordering(n, edges, total, smart, plant, knuth):
    adj = scope.adjacency(n, edges)

    def lt(a, b):
        if smart:
            return (('x', a, b), True) if a < b else (('x', b, a), False)
        return (('x', a, b), True)

    G = {'non-minimality': set(), 'transitivity': set(), 'antisymmetry': set(),
         'totality': set()}
    for v in range(1, n + 1):
        if plant and v == n:
            continue
        G['non-minimality'].add(frozenset(lt(u, v) for u in adj[v]))
    for a, b, c in itertools.permutations(range(1, n + 1), 3):
        if knuth == 2 and not (b > a and b > c):
            continue
        if knuth == 3 and not (c > a and c > b):
            continue
        G['transitivity'].add(frozenset([neg(lt(a, b)), neg(lt(b, c)), lt(a, c)]))
    for a, b in itertools.combinations(range(1, n + 1), 2):
        G['antisymmetry'].add(frozenset([neg(lt(a, b)), neg(lt(b, a))]))
        if total or smart:
            G['totality'].add(frozenset([lt(a, b), lt(b, a)]))
    return G


def ref_pebbling(n, edges):
    G = {'propagation': set(), 'sink': set()}
    for v in range(1, n + 1):
        pred = [a for (a, b) in edges if b == v]
        G['propagation'].add(frozenset([(('x', p), False) for p in pred] + [(('x', v), True)]))
        if not any(a == v for (a, b) in edges):
            G['sink'].add(frozenset([(('x', v), False)]))
    return G


def ref_stone(n, edges, bedges):
    """bedges: pairs (vertex, stone) of allowed placements."""
    allowed = {v: sorted(j for (u, j) in bedges if u == v) for v in range(1, n + 1)}
    G = {'every-vertex-has-a-stone': set(), 'red-propagation': set(), 'sink-is-blue': set()}
    for v in range(1, n + 1):
        G['every-vertex-has-a-stone'].add(frozenset((('P', v, j), True) for j in allowed[v]))
        pred = sorted(a for (a, b) in edges if b == v)
        for j in allowed[v]:
            for pattern in itertools.product(*[allowed[p] for p in pred]):
                cl = [(('P', p, s), False) for p, s in zip(pred, pattern)]
                cl.append((('P', v, j), False))
                cl += [(('R', s), False) for s in pattern]
                cl.append((('R', j), True))
                G['red-propagation'].add(frozenset(cl))
        if not any(a == v for (a, b) in edges):
            for j in allowed[v]:
                G['sink-is-blue'].add(frozenset([(('P', v, j), False), (('R', j), False)]))
    return G


def _log2(x):
    k = 0
    while (1 << k) < x:
        k += 1
    return k


def ref_cpls(a, b, c):
    lb, lc = _log2(b), _log2(c)

    def differs(tag, idx, bits, value):
        """literals of the clause part "<mapping> != value" (value 1-based,
        represented by the binary digits of value-1, digit 0 least
        significant)."""
        return [((tag,) + idx + (t,), not ((value - 1) >> t) & 1) for t in range(bits)]

    G = {'axiom1': set(), 'axiom2': set(), 'axiom3': set()}
    for y in range(1, c + 1):
        G['axiom1'].add(frozenset([(('G', 1, 1, y), False)]))
    for i in range(1, a):
        for x in range(1, b + 1):
            for xx in range(1, b + 1):
                for y in range(1, c + 1):
                    G['axiom2'].add(frozenset(differs('f', (i, x), lb, xx) +
                                              [(('G', i + 1, xx, y), False),
                                               (('G', i, x, y), True)]))
    for x in range(1, b + 1):
        for y in range(1, c + 1):
            G['axiom3'].add(frozenset(differs('u', (x,), lc, y) + [(('G', a, x, y), True)]))
    return G


def parity_clauses(atoms, charge):
    """Clauses of XOR(atoms) == charge: one clause per assignment of the wrong
    parity, negating it."""
    out = set()
    for bits in itertools.product((0, 1), repeat=len(atoms)):
        if sum(bits) % 2 != charge:
            out.add(frozenset((at, not bool(bt)) for at, bt in zip(atoms, bits)))
    return out


def ref_pitfall(v, d, ny, nz, k, edges1, perm):
    """edges1: edges of the regular graph on vertices 1..v (u<w), sorted.
    perm[j][l] = index of the pitfall variable left out of the l-th clause of
    the pipe gadgets of copy j (l = 1..nx+nz)."""
    nx = len(edges1)
    G = {'hard': set(), 'pitfall-gadget': set(), 'pipe-gadget': set(),
         'tail-gadget': set(), 'easy': set()}
    for j in range(1, k + 1):
        Z = [(('z', j, l), True) for l in range(1, nz + 1)]
        for w in range(1, v + 1):
            inc = [('e', j, a, b) for (a, b) in edges1 if w in (a, b)]
            for cl in parity_clauses(inc, 1 if w == 1 else 0):
                G['hard'].add(cl | frozenset(Z))
        for i1, i2 in itertools.combinations(range(1, ny + 1), 2):
            for l in range(1, nx + nz + 1):
                G['pitfall-gadget'].add(frozenset([(('y', j, i1), True), (('y', j, i2), True),
                                                   (('p', j, l), False)]))
        S = [('e', j, a, b) for (a, b) in edges1] + [('z', j, l) for l in range(1, nz + 1)]
        for i in range(1, ny + 1):
            for l in range(1, nx + nz + 1):
                cl = [(('y', j, i), True)]
                cl += [(('p', j, q), True) for q in range(1, nx + nz + 1) if q != perm[j][l]]
                prefix = S[:l - 1]
                if l == nx + nz:
                    prefix = [s for s in prefix if s != ('z', j, 1)]
                cl += [(s, True) for s in prefix]
                cl.append((S[l - 1], False))
                G['pipe-gadget'].add(frozenset(cl))
            for l in range(1, nz + 1):
                z = (('z', j, l), False)
                G['tail-gadget'].add(frozenset([(('a', j, 1), False), (('a', j, 3), True), z]))
                G['tail-gadget'].add(frozenset([(('a', j, 2), False), (('a', j, 3), False), z]))
                G['tail-gadget'].add(frozenset([(('a', j, 1), True), z, (('y', j, i), False)]))
                G['tail-gadget'].add(frozenset([(('a', j, 2), True), z, (('y', j, i), False)]))
    for i in range(1, ny, 2):
        cl = []
        for j in range(1, k + 1):
            cl += [(('y', j, i), False), (('y', j, i + 1), False)]
        G['easy'].add(frozenset(cl))
    return G


def pitfall_pipe_numbering(produced, nx, nz, k, edges1):
    """Reads, from the produced clauses, which pitfall variable is left out of
    the l-th pipe clause of copy j (a naming choice).  Falls back to the
    repository's convention (nx+nz+1-l) when no clean bijection is found."""
    m = nx + nz
    perm = {}
    for j in range(1, k + 1):
        S = [('e', j, a, b) for (a, b) in edges1] + [('z', j, l) for l in range(1, nz + 1)]
        pj = {}
        for l in range(1, m + 1):
            hits = [cl for cl in produced
                    if (('y', j, 1), True) in cl and (S[l - 1], False) in cl and
                    sum(1 for (at, pos) in cl if not pos) == 1]
            if len(hits) != 1:
                pj = None
                break
            present = {at[2] for (at, pos) in hits[0] if at[0] == 'p' and at[1] == j and pos}
            missing = set(range(1, m + 1)) - present
            if len(missing) != 1:
                pj = None
                break
            pj[l] = missing.pop()
        if pj is None or sorted(pj.values()) != list(range(1, m + 1)):
            pj = {l: m + 1 - l for l in range(1, m + 1)}
        perm[j] = pj
    return perm


# ================================================================== building
class SeamNotHit(Exception):
    pass


def run_past(kind, a):
    """Something a user did earlier in the same process with objects the
    library handed out (they are the user's to edit): it must not leak into
    the formula built afterwards."""
    from cnfgen.graphs import Graph
    N = a[0]
    if kind == 'complete-graph-edited':
        G = Graph.complete_graph(N)
        if N >= 2:
            G.remove_edge(1, N)
        G.update_vertex_number(N + 2)
        G.add_edge(1, N + 2)
    elif kind == 'cli-op-splitedges':
        import random
        import cnfgen.clitools.msg as msgmod
        from cnfgen.clitools.cnfgen import cli
        st = random.getstate()
        try:
            if hasattr(msgmod, '_prefix'):
                msgmod._prefix = ''
            cli(['cnfgen', '-q', '--seed', '1', 'op', 'complete', str(N), 'splitedges', '1'],
                mode='formula')
        finally:
            random.setstate(st)
            if hasattr(msgmod, '_prefix'):
                msgmod._prefix = ''
    elif kind == 'empty-graph-edited':
        G = Graph.empty_graph(N)
        if N >= 2:
            G.add_edge(1, N)
    else:
        raise KeyError(kind)


def build(case, info):
    """Builds the formula of a case with the real generator."""
    import cnfgen
    fam = case['fam']
    a = case['args']
    if case.get('past'):
        run_past(case['past'], a)
    if fam == 'op':
        return cnfgen.OrderingPrinciple(a[0], total=a[1], smart=a[2], plant=a[3], knuth=a[4])
    if fam == 'gop':
        G = scope.mk_graph(a[0], [tuple(e) for e in a[1]])
        return cnfgen.GraphOrderingPrinciple(G, total=a[2], smart=a[3], plant=a[4], knuth=a[5])
    if fam == 'peb':
        return cnfgen.PebblingFormula(scope.mk_digraph(a[0], [tuple(e) for e in a[1]]))
    if fam == 'stone':
        return cnfgen.StoneFormula(scope.mk_digraph(a[0], [tuple(e) for e in a[1]]), a[2])
    if fam == 'sstone':
        D = scope.mk_digraph(a[0], [tuple(e) for e in a[1]])
        B = scope.mk_bipartite(a[2], a[3], [tuple(e) for e in a[4]])
        return cnfgen.SparseStoneFormula(D, B)
    if fam == 'cpls':
        return cnfgen.CPLSFormula(a[0], a[1], a[2])
    if fam == 'ram':
        return cnfgen.RamseyNumber(a[0], a[1], a[2])
    if fam == 'vdw':
        return cnfgen.VanDerWaerden(*a)
    if fam == 'ptn':
        return cnfgen.PythagoreanTriples(a[0])
    if fam == 'pitfall':
        return build_pitfall(case, info)
    raise KeyError(fam)


def build_pitfall(case, info):
    """PitfallFormula with the environment answer of the seam
    `networkx.random_regular_graph` fixed to case['graph'] (edges on nodes
    0..v-1).  Without 'graph' the real function runs (argument errors)."""
    import networkx
    import cnfgen.families.pitfall as pf
    v, d, ny, nz, k = case['args']
    graph = case.get('graph')
    if graph is None:
        return pf.PitfallFormula(v, d, ny, nz, k)
    nxmod = pf.networkx
    real = nxmod.random_regular_graph
    calls = []

    def fake(dd, nn, seed=None, **kw):
        calls.append((dd, nn))
        if (dd, nn) != (d, v):
            raise SeamNotHit('seam called with (d=%r, n=%r), expected (%r, %r)' % (dd, nn, d, v))
        H = networkx.Graph()
        H.add_nodes_from(range(nn))
        H.add_edges_from(tuple(e) for e in graph)
        return H

    nxmod.random_regular_graph = fake
    try:
        F = pf.PitfallFormula(v, d, ny, nz, k)
    finally:
        nxmod.random_regular_graph = real
    if len(calls) != 1:
        raise SeamNotHit('networkx.random_regular_graph was called %d times by PitfallFormula'
                         % len(calls))
    info['seam_calls'] = len(calls)
    return F


# =================================================================== oracles
def variant_token(total, smart, knuth):
    t = 'smart' if smart else ('total' if total else 'plain')
    return t + (',knuth%d' % knuth if knuth in (2, 3) else '')


def check_case(case, R=None):
    """Violations of one instance (also the replay entry point)."""
    fam = case['fam']
    family = _FAMILY_OF[fam]
    out = []
    info = {}
    keyfam = {'op': 'ordering', 'gop': 'ordering', 'sstone': 'stone'}.get(fam, fam)
    jcase = dict(case)

    def bad(sym, what):
        out.append({'key': '%s:%s' % (keyfam, sym), 'what': '%s%r: %s' % (fam, case['args'], what),
                    'case': jcase})

    def stat(name, k=1):
        if R is not None:
            R.stats[name] += k

    def outcome(name):
        if R is not None:
            R.outcomes[name] += 1

    expect = case.get('expect')           # 'ValueError' = documented refusal
    try:
        F = build(case, info)
    except (SeamNotHit, Uninterpretable):
        raise
    except Exception as e:
        tname = type(e).__name__
        if expect == 'ValueError' and isinstance(e, ValueError):
            stat('refused_ValueError')
            outcome('%s:refused:%s' % (fam, case.get('cls', 'out-of-domain')))
        elif case.get('cls') == 'out-of-scope':
            outcome('%s:out-of-scope:%s' % (fam, tname))
        else:
            cls = case.get('cls')
            if cls is None and fam == 'vdw' and 1 in case['args'][1:]:
                cls = 'length=1'
            bad(('%s:' % cls if cls else '') + 'exception:' + tname,
                'building the formula raised %s: %s' % (tname, e))
        return out
    if 'seam_calls' in info:
        stat('seam_calls', info['seam_calls'])
    if case.get('cls') == 'out-of-scope':
        outcome('%s:out-of-scope:built' % fam)
        return out
    if expect == 'ValueError':
        # accepted although documented as out of domain: nothing in the
        # property describes this formula; only record it
        outcome('%s:accepted-out-of-domain:%s' % (fam, case.get('cls', '')))
        if case.get('must_refuse'):
            bad('%s:not-refused' % case.get('cls', 'out-of-domain'),
                'no regular graph with these parameters exists, but no ValueError was raised')
        return out

    n = F.number_of_variables()
    clauses = [list(c) for c in F.clauses()]
    for c in clauses:
        for lit in c:
            if not isinstance(lit, int) or lit == 0 or abs(lit) > n:
                bad('literal-range', 'literal %r outside 1..%d' % (lit, n))
                return out
    atoms = atoms_of(F, family)
    ident = {at: i + 1 for i, at in enumerate(atoms)}
    produced = set(frozenset((atoms[abs(l) - 1], l > 0) for l in c) for c in clauses)
    if R is not None:
        R.nt = n > 0 and len(clauses) > 0

    # ---------------------------------------------------------- model access
    memo = {}

    def bitmap():
        if 'bm' not in memo:
            memo['bm'] = tt.cnf_models(n, clauses)
            stat('assignments', 1 << n)
        return memo['bm']

    def count_models(limit=None, listing=False):
        """(count, models or None, complete?)"""
        if n <= BITMAP_LIMIT:
            bm = bitmap()
            if n <= CROSS_LIMIT and 'cross' not in memo:
                memo['cross'] = True
                cnt, _, nodes = c03_walk.walk(n, clauses, list_models=False)
                stat('walk_nodes', nodes)
                stat('bitmap_vs_walk_crosschecks')
                if cnt != tt.count(bm):
                    raise AssertionError('engine disagreement: bitmap %d models, walk %d (%r)'
                                         % (tt.count(bm), cnt, case))
            return tt.count(bm), None, True
        try:
            cnt, ms, nodes = c03_walk.walk(n, clauses, limit_models=limit, node_cap=NODE_CAP,
                                           list_models=listing)
        except c03_walk.TooManyNodes:
            stat('cap_hit')
            stat('walk_nodes', NODE_CAP)
            return None, None, False
        stat('walk_nodes', nodes)
        stat('tree_walks')
        return cnt, ms, True

    def require_unsat(sym='satisfiable'):
        cnt, ms, complete = count_models(limit=1, listing=True)
        if not complete:
            outcome('%s:undecided(node cap)' % fam)
            return
        if cnt == 0:
            stat('unsat_proved')
            stat('unsat_instances')
        else:
            stat('sat_instances')
            if n <= BITMAP_LIMIT:
                a = next(tt.models(bitmap()))
                true_atoms = [show_lit((atoms[v - 1], True)) for v in tt.true_vars(a, n)]
            else:
                true_atoms = [show_lit((atoms[v - 1], True)) for v in ms[0]]
            bad(sym, 'documented as a contradiction but satisfiable (%s models); a model '
                'sets true exactly %r' % (cnt if n <= BITMAP_LIMIT else '>=1', true_atoms[:40]))

    def compare_axioms(groups, prefix=''):
        stat('axiom_sets_compared')
        ref = {}
        for g, cls in groups.items():
            for cl in cls:
                if not is_tautology(cl):
                    ref.setdefault(cl, g)
        taut = [cl for cl in produced if is_tautology(cl)]
        if taut:
            stat('produced_tautologies', len(taut))
        ok = True
        missing = {}
        for cl, g in ref.items():
            if cl not in produced:
                missing.setdefault(g, []).append(cl)
        for g in sorted(missing):
            ok = False
            ex = sorted(missing[g], key=show_clause)[0]
            bad('%saxioms:missing:%s' % (prefix, g),
                '%d documented %s axiom(s) are not in the formula, e.g. %s' %
                (len(missing[g]), g, show_clause(ex)))
        # (tautological clauses say nothing: counted above, never reported)
        extra = [cl for cl in produced if cl not in ref and not is_tautology(cl)]
        if extra:
            ok = False
            ex = sorted(extra, key=show_clause)[0]
            bad('%saxioms:extra' % prefix,
                '%d clause(s) of the formula are no documented axiom, e.g. %s' %
                (len(extra), show_clause(ex)))
        if ok:
            stat('axiom_sets_equal')
        return ok

    def assignment_of(true_atom_set):
        a = 0
        for at in true_atom_set:
            a |= 1 << (ident[at] - 1)
        return a

    def compare_models(expected_assignments, sym, describe):
        """expected_assignments: set of assignment numbers."""
        stat('model_sets_compared')
        stat('objects_enumerated', len(expected_assignments))
        if n <= BITMAP_LIMIT:
            got = bitmap()
            count_models()
            exp = tt.bitmap_from_assignments(expected_assignments)
            stat('sat_instances' if got else 'unsat_instances')
            if got != exp:
                diff = got ^ exp
                a = next(tt.models(diff))
                side = ('accepted by the formula but is no %s' % describe) if (got >> a) & 1 else \
                    ('is a %s but is rejected by the formula' % describe)
                bad(sym, 'models=%d expected=%d; the assignment with true atoms %r %s' %
                    (tt.count(got), tt.count(exp),
                     [show_lit((atoms[v - 1], True)) for v in tt.true_vars(a, n)], side))
            return
        cnt, ms, complete = count_models(limit=len(expected_assignments) + 50, listing=True)
        if not complete:
            outcome('%s:undecided(node cap)' % fam)
            return
        got = set(tt.assignment_from_true(m) for m in ms)
        stat('sat_instances' if got else 'unsat_instances')
        if got != set(expected_assignments):
            d1 = sorted(got - set(expected_assignments))
            d2 = sorted(set(expected_assignments) - got)
            a = (d1 or d2)[0]
            side = ('accepted by the formula but is no %s' % describe) if d1 else \
                ('is a %s but is rejected by the formula' % describe)
            bad(sym, 'models>=%d expected=%d; the assignment with true atoms %r %s' %
                (len(got), len(expected_assignments),
                 [show_lit((atoms[v - 1], True)) for v in tt.true_vars(a, n)], side))

    args = case['args']
    # ================================================================ ordering
    if fam in ('op', 'gop'):
        if fam == 'op':
            N, total, smart, plant, knuth = args
            edges = scope.all_pairs(N)
        else:
            N, edges, total, smart, plant, knuth = args
            edges = [tuple(e) for e in edges]
        kk = knuth if knuth in (2, 3) else 0
        prefix = ('knuth%d:' % kk) if kk else ''
        compare_axioms(ref_ordering(N, edges, total, smart, plant, kk), prefix)
        outcome('ordering:' + variant_token(total, smart, kk) + (',plant' if plant else ''))
        if not plant:
            if N >= 1:
                require_unsat(prefix + 'satisfiable')
            else:
                outcome('ordering:N=0(no claim)')
            return out
        # planted: models == orders whose local minima are within {N}
        adj = scope.adjacency(N, edges)
        exists = is_connected(N, edges)
        exact = smart or total or not kk
        if exact and (N <= 5 or smart or total):
            if smart or total:
                orders = total_orders(N)
            else:
                orders = posets(N)
            good = [P for P in orders if all(v == N for v in local_minima(N, adj, P))]
            if bool(good) != exists:
                raise AssertionError('reference disagreement on %r' % (case,))
            if smart:
                enc = set(assignment_of({('x', a, b) for (a, b) in P if a < b}) for P in good)
            else:
                enc = set(assignment_of({('x', a, b) for (a, b) in P}) for P in good)
            if len(enc) != len(good):
                raise AssertionError('encoding of orders is not injective')
            compare_models(enc, prefix + 'plant:model-set',
                           'order whose only local minimum is vertex %d' % N)
        cnt, _, complete = count_models(limit=1)
        if complete:
            if not exact:
                stat('sat_instances' if cnt else 'unsat_instances')
            if bool(cnt) != exists:
                bad(prefix + 'plant:sat-closed-form',
                    'planted formula is %s but an order whose only local minimum is the planted '
                    'vertex %s' % ('SAT' if cnt else 'UNSAT',
                                   'exists' if exists else 'does not exist'))
        return out

    # ================================================================ pebbling
    if fam == 'peb':
        N, edges = args[0], [tuple(e) for e in args[1]]
        compare_axioms(ref_pebbling(N, edges))
        if N >= 1:
            require_unsat()
        else:
            outcome('peb:N=0(no claim)')
        return out
    if fam in ('stone', 'sstone'):
        N, edges = args[0], [tuple(e) for e in args[1]]
        if fam == 'stone':
            bedges = [(v, j) for v in range(1, N + 1) for j in range(1, args[2] + 1)]
        else:
            bedges = [tuple(e) for e in args[4]]
        compare_axioms(ref_stone(N, edges, bedges), 'sparse:' if fam == 'sstone' else '')
        if N >= 1:
            require_unsat(('sparse:' if fam == 'sstone' else '') + 'satisfiable')
        else:
            outcome('%s:N=0(no claim)' % fam)
        return out
    if fam == 'cpls':
        a, b, c = args
        compare_axioms(ref_cpls(a, b, c))
        require_unsat()
        return out
    if fam == 'pitfall':
        v, d, ny, nz, k = args
        edges1 = sorted((min(x, y) + 1, max(x, y) + 1) for (x, y) in case['graph'])
        perm = pitfall_pipe_numbering(produced, len(edges1), nz, k, edges1)
        compare_axioms(ref_pitfall(v, d, ny, nz, k, edges1, perm))
        require_unsat()
        return out

    # ============================================================ Ramsey-type
    if fam == 'ram':
        s, k, N = args
        pairs = scope.all_pairs(N)
        if n != len(pairs) or any(('e', u, w) not in ident for (u, w) in pairs):
            bad('nvars', 'formula has %d variables, one per pair of the %d vertices expected'
                % (n, N))
            return out
        part, nparts = case.get('slice', [0, 1])
        alpha, omega = clique_tables(N, part, nparts)
        stat('objects_enumerated', len(alpha))
        stat('model_sets_compared')
        # variable of pair i: translate graph numbers (pair order) to assignment numbers
        var = [ident[('e', u, w)] for (u, w) in pairs]
        identity = all(var[i] == i + 1 for i in range(len(pairs)))
        size = len(alpha)
        lo = part * size
        got = bitmap()
        goodlist = [g for g in range(size) if alpha[g] < s and omega[g] < k]
        exp_count = len(goodlist)
        if identity:
            # graph number == assignment number: compare this slice of the bitmap
            exp = tt.bitmap_from_assignments(goodlist)
            gslice = (got >> lo) & ((1 << size) - 1)
        else:
            if nparts != 1:
                raise Uninterpretable('sliced Ramsey check needs variables in pair order')
            exp = tt.bitmap_from_assignments(
                sum(1 << (var[i] - 1) for i in range(len(pairs)) if (g >> i) & 1)
                for g in goodlist)
            gslice = got
        stat('sat_instances' if gslice else 'unsat_instances')
        if gslice != exp:
            a = next(tt.models(gslice ^ exp))
            side = 'accepted by the formula' if (gslice >> a) & 1 else 'rejected by the formula'
            g = a + lo
            es = [pairs[i] for i in range(len(pairs)) if (g >> (var[i] - 1)) & 1]
            bad('model-set', 'models=%d expected=%d; the graph with edges %r (independence '
                'number and clique number computed by brute force) is %s' %
                (tt.count(gslice), exp_count, es, side))
        if nparts == 1:
            rn = ramsey_number(s, k)
            if rn is not None and bool(got) != (N < rn):
                bad('sat-closed-form', 'formula is %s but r(%d,%d)=%d' %
                    ('SAT' if got else 'UNSAT', s, k, rn))
        return out

    if fam == 'vdw':
        N, K = args[0], list(args[1:])
        C = len(K)
        cols = vdw_colourings(N, K)
        if C ** N <= 4096:
            if sorted(cols) != sorted(vdw_colourings_bruteforce(N, K)):
                raise AssertionError('reference disagreement on %r' % (case,))
        if C == 2:
            want = [('x', i) for i in range(1, N + 1)]
        else:
            want = [('x', i, c) for i in range(1, N + 1) for c in range(1, C + 1)]
        if n != len(want) or any(w not in ident for w in want):
            bad('nvars', 'formula has %d variables, %d expected for %d colours on 1..%d'
                % (n, len(want), C, N))
            return out
        if C == 2:
            e0 = set(assignment_of({('x', i) for i in range(1, N + 1) if col[i - 1] == 2})
                     for col in cols)
            e1 = set(assignment_of({('x', i) for i in range(1, N + 1) if col[i - 1] == 1})
                     for col in cols)
            if n <= BITMAP_LIMIT and bitmap() == tt.bitmap_from_assignments(e1) and e1 != e0:
                outcome('vdw:2colours:true=colour1')
                compare_models(e1, 'model-set', 'colouring without forbidden progression')
            else:
                outcome('vdw:2colours:false=colour1')
                compare_models(e0, 'model-set', 'colouring without forbidden progression')
        else:
            enc = set(assignment_of({('x', i, col[i - 1]) for i in range(1, N + 1)})
                      for col in cols)
            outcome('vdw:%dcolours' % C)
            compare_models(enc, 'model-set', 'colouring without forbidden progression')
        w = VDW_NUMBERS.get(tuple(K))
        if w is not None and bool(cols) != (N < w):
            raise AssertionError('reference disagrees with the known vdw number %r' % (case,))
        return out

    if fam == 'ptn':
        N = args[0]
        if n != N or any(('v', i) not in ident for i in range(1, N + 1)):
            bad('nvars', 'formula has %d variables, %d expected' % (n, N))
            return out
        triples = pythagorean_triples(N)
        refcl = set()
        for t in triples:
            refcl.add(frozenset((('v', i), True) for i in t))
            refcl.add(frozenset((('v', i), False) for i in t))
        stat('model_sets_compared')
        if produced == refcl:
            # equal clause sets have equal model sets (sufficient condition)
            stat('ptn_clause_sets_equal')
        elif n > BITMAP_LIMIT:
            # beyond the truth table the documented axiom list is the oracle, as
            # for the other families: one pair of clauses per Pythagorean triple
            miss = refcl - produced
            extra = produced - refcl
            if miss:
                bad('axioms:missing', '%d documented clause(s) are not in the formula, e.g. %r'
                    % (len(miss), sorted(v for (v, _) in next(iter(miss)))))
            if extra:
                bad('axioms:extra', '%d clause(s) of the formula are no documented axiom, e.g. %r'
                    % (len(extra), sorted(v for (v, _) in next(iter(extra)))))
            outcome('ptn:axioms-compared')
            return out
        if n <= BITMAP_LIMIT:
            colsb = tt.columns(n)
            mask = colsb[0]
            exp = mask
            for t in triples:
                x = mask
                y = mask
                for i in t:
                    x &= colsb[ident[('v', i)]]
                    y &= mask ^ colsb[ident[('v', i)]]
                exp &= mask ^ (x | y)
            got = bitmap()
            stat('sat_instances' if got else 'unsat_instances')
            if got != exp:
                a = next(tt.models(got ^ exp))
                ones = [atoms[v - 1][1] for v in tt.true_vars(a, n)]
                side = 'accepted' if (got >> a) & 1 else 'rejected'
                bad('model-set', 'models=%d expected=%d; the colouring with colour-1 class %r is '
                    '%s by the formula' % (tt.count(got), tt.count(exp), ones, side))
            # independent count: brute force on the numbers that occur in a triple
            inv = sorted({i for t in triples for i in t})
            if len(inv) <= 16:
                cnt = 0
                for bits in range(1 << len(inv)):
                    colr = {x: (bits >> j) & 1 for j, x in enumerate(inv)}
                    if not any(colr[p] == colr[q] == colr[r] for (p, q, r) in triples):
                        cnt += 1
                stat('objects_enumerated', cnt)
                if tt.count(got) != cnt << (N - len(inv)):
                    bad('count', 'formula has %d models but there are %d colourings' %
                        (tt.count(got), cnt << (N - len(inv))))
        else:
            stat('sat_instances')
        return out
    raise KeyError(fam)


# ------------------------------------------- command line forms of `op` --
# The property lists the command line output among its observation points.
# `cnfgen op` has three forms (op N; op N d on a random d-regular graph; op
# <graph>) x flags.  Differential oracle, no expected value written by hand:
# for d = N-1 the only d-regular graph is the complete one, so `op N (N-1)`,
# `op complete N` and `op N` must all have the clause SET of the library call
# with the same flags; `op empty N` must equal the library on the empty graph.
OP_FLAGS = [[], ['--total'], ['--smart'], ['--plant'], ['--knuth2'], ['--knuth3'],
            ['--total', '--plant'], ['--smart', '--plant'], ['--knuth2', '--plant'],
            ['--knuth3', '--plant'], ['--smart', '--total']]


def check_cli_op(case):
    import cnfgen
    import cnfgen.clitools.msg as msgmod
    from cnfgen.clitools.cnfgen import cli
    from cnfgen.clitools.cmdline import CLIError
    N, flags, form = case['N'], case['flags'], case['form']
    out = []

    def bad(sym, what):
        out.append({'key': 'ordering:cli:%s:%s' % (form, sym), 'what': what, 'case': dict(case)})
    kw = {'total': '--total' in flags, 'smart': '--smart' in flags, 'plant': '--plant' in flags,
          'knuth': 2 if '--knuth2' in flags else (3 if '--knuth3' in flags else 0)}
    if form == 'N':
        argv, graph = [str(N)], None
    elif form == 'N d':
        argv, graph = [str(N), str(N - 1)], 'complete'
    elif form == 'complete':
        argv, graph = ['complete', str(N)], 'complete'
    else:
        argv, graph = ['empty', str(N)], 'empty'
    try:
        if graph is None:
            L = cnfgen.OrderingPrinciple(N, **kw)
        else:
            G = cnfgen.Graph.complete_graph(N) if graph == 'complete' else cnfgen.Graph.empty_graph(N)
            L = cnfgen.GraphOrderingPrinciple(G, **kw)
        lib = ('ok', L)
    except ValueError as e:
        lib = ('refused', e)
    if hasattr(msgmod, '_prefix'):
        msgmod._prefix = ''
    try:
        F = cli(['cnfgen', '-q', '--seed', '3', 'op'] + flags + argv, mode='formula')
        tool = ('ok', F)
    except (CLIError, SystemExit) as e:
        tool = ('refused', e)
    except Exception as e:
        bad('exception:' + type(e).__name__, repr(e)[:200])
        return out
    if lib[0] != tool[0]:
        # the command line may legitimately refuse more (argument types), never less
        if tool[0] == 'ok':
            bad('accepted-library-refuses', 'cnfgen op %s accepted, library raised %r' % (flags + argv, lib[1]))
        return out
    if lib[0] == 'refused':
        return out
    L, F = lib[1], tool[1]

    def named(X):
        nm = list(X.all_variable_labels())
        return {frozenset((nm[abs(l) - 1], l > 0) for l in c) for c in X.clauses()}
    if F.number_of_variables() != L.number_of_variables() or named(F) != named(L):
        a, b = named(F), named(L)
        bad('clause-set', 'cnfgen op %s: %d clauses, library %r gives %d; only in tool %r, only in library %r'
            % (' '.join(flags + argv), len(a), kw, len(b), sorted(map(sorted, a - b))[:1],
               sorted(map(sorted, b - a))[:1]))
    return out


def cli_op_cases(tier):
    cs = []
    for N in (1, 2, 3, 4, 5) + ((6,) if tier == 'thorough' else ()):
        for flags in OP_FLAGS:
            for form in ('N', 'N d', 'complete', 'empty'):
                if form == 'N d' and N < 2:
                    continue
                cs.append({'part': 'cli-op', 'N': N, 'flags': flags, 'form': form})
    return cs


def run_cli_op(chunk, R):
    for case in chunk:
        vs = check_cli_op(case)
        R.stats['cli_op_cases'] += 1
        R.case(sample=case if R.evals % 50 == 0 else None, nontrivial=True)
        R.outcomes['family:op-cli'] += 1
        R.extend(vs)


def replay(case):
    if case.get('part') == 'cli-op':
        return check_cli_op(case)
    return check_case(case)


# ===================================================================== cases
def _flags():
    for total, smart in ((False, False), (True, False), (False, True), (True, True)):
        for knuth in (0, 2, 3):
            for plant in (False, True):
                yield total, smart, plant, knuth


def cases(tier, seed):
    th = tier == 'thorough'
    cs = []

    def add(fam, args, cost=1, **kw):
        c = {'fam': fam, 'args': args}
        c.update(kw)
        c['_cost'] = cost
        cs.append(c)

    # ---- ordering principle
    for N in range(0, 9 if th else 8):
        for total, smart, plant, knuth in _flags():
            if N >= 6 and plant and not (total or smart) and not knuth:
                continue            # 130023 partial orders on 6 elements: stop at 5
            if N >= 8 and plant and (total or smart):
                continue            # 40320 total orders: stop at 7
            add('op', [N, total, smart, plant, knuth], cost=2 if N < 6 else 20)
        add('op', [N, False, False, False, 1], cost=2)      # "anything else suppresses it"
        if N < 7:
            add('op', [N, True, False, True, 5], cost=2)
    add('op', [-1, False, False, False, 0], expect='ValueError', cls='negative-size')
    for N in range(2, 6):
        for past in ('complete-graph-edited', 'cli-op-splitedges', 'empty-graph-edited'):
            add('op', [N, False, False, N % 2 == 0, 0], cost=3, past=past)
            add('op', [N, True, False, False, 0], cost=3, past=past)
    # ---- graph ordering principle: all graphs
    for nv_ in range(0, 6):
        for es in scope.simple_graphs(nv_):
            for total, smart, plant, knuth in _flags():
                add('gop', [nv_, [list(e) for e in es], total, smart, plant, knuth],
                    cost=1 if nv_ < 5 else (1 if smart else 8))
    g6 = list(scope.simple_graphs(6))
    six = ((False, False, False, 0), (False, False, False, 2), (False, False, False, 3),
           (True, False, False, 0), (False, True, False, 0), (False, True, True, 0),
           (False, False, True, 2))
    if th:
        for es in g6:
            for total, smart, plant, knuth in six:
                add('gop', [6, [list(e) for e in es], total, smart, plant, knuth], cost=4)
    else:           # a few 6-vertex graphs rotated by the seed
        for i in range(24):
            es = g6[(seed * 9973 + i * 1361 + 17) % len(g6)]
            for total, smart, plant, knuth in six:
                add('gop', [6, [list(e) for e in es], total, smart, plant, knuth], cost=4,
                    extra=True)
    # ---- pebbling: all DAGs
    for nv_ in range(0, 7 if th else 6):
        for es in scope.dags(nv_):
            add('peb', [nv_, [list(e) for e in es]], cost=1)
    for nv_, es in ((1, [(1, 1)]), (2, [(2, 1)]), (2, [(1, 2), (2, 1)]), (3, [(1, 2), (3, 2)]),
                    (3, [(1, 2), (2, 3), (3, 1)])):
        add('peb', [nv_, [list(e) for e in es]], expect='ValueError', cls='not-topologically-sorted')
        add('stone', [nv_, [list(e) for e in es], 2], expect='ValueError',
            cls='not-topologically-sorted')
    # ---- stone formulas
    for nv_ in range(0, 5 if th else 4):
        for es in scope.dags(nv_):
            for s in range(0, 4):
                if nv_ * s + s <= (20 if th else 16):
                    add('stone', [nv_, [list(e) for e in es], s], cost=2)
    add('stone', [2, [[1, 2]], -1], expect='ValueError', cls='negative-stones')
    # ---- sparse stone: every availability graph
    for nv_ in range(0, 5 if th else 4):
        for s in range(0, 4):
            if nv_ == 4 and s > 2:
                continue
            for es in scope.dags(nv_):
                for bes in scope.bipartite_graphs(nv_, s):
                    add('sstone', [nv_, [list(e) for e in es], nv_, s, [list(e) for e in bes]],
                        cost=2)
    for L in (1, 3):
        add('sstone', [2, [[1, 2]], L, 2, [[1, 1]]], expect='ValueError', cls='size-mismatch')
    # ---- CPLS
    pw = (1, 2, 4, 8) if th else (1, 2, 4)
    for a in range(1, 5 if th else 4):
        for b in pw:
            for c in pw:
                if (b == 8 and a > 2) or (b == 8 and c == 8):
                    continue
                add('cpls', [a, b, c], cost=4 + a * b * c // 4)
    for (a, b, c) in ((1, 3, 2), (2, 2, 3), (2, 6, 4), (2, 4, 5), (3, 7, 7), (0, 2, 2), (2, 0, 2),
                      (2, 2, 0), (-1, 2, 2), (2, 12, 2)):
        add('cpls', [a, b, c], expect='ValueError', cls='non-power-of-two-or-non-positive')
    # ---- Pitfall: every regular graph the seam may return
    vd = [(2, 1), (3, 2), (4, 1), (4, 2), (4, 3), (5, 2), (5, 4), (6, 1), (6, 2), (6, 3),
          (6, 4), (6, 5)]
    if th:
        vd += [(7, 2), (7, 4), (8, 1), (8, 2), (8, 3)]
    for (v, d) in vd:
        cyc = v * d // 2 - v + 1
        for es in regular_graphs(v, d):
            for ny in (2, 3):
                for nz in (2, 3):
                    ks = (2, 4) if v <= 6 else (2,)
                    for k in ks:
                        if (v, d) in ((7, 4), (8, 3)) and (ny, nz, k) != (2, 2, 2):
                            continue
                        add('pitfall', [v, d, ny, nz, k], graph=[list(e) for e in es],
                            cost=3 + (1 << max(0, cyc)) // 3)
    add('pitfall', [4, 2, 4, 2, 2], graph=[list(e) for e in regular_graphs(4, 2)[0]], cost=3)
    add('pitfall', [4, 2, 2, 4, 2], graph=[list(e) for e in regular_graphs(4, 2)[1]], cost=3)
    add('pitfall', [5, 2, 5, 2, 2], graph=[list(e) for e in regular_graphs(5, 2)[3]], cost=3)
    for (v, d, ny, nz, k) in ((3, 4, 2, 2, 2), (3, 3, 2, 2, 2), (5, 3, 2, 2, 2), (3, 1, 2, 2, 2),
                              (4, 2, 2, 2, 3), (4, 2, 2, 2, 1), (0, 2, 2, 2, 2), (4, 0, 2, 2, 2),
                              (4, 2, 0, 2, 2), (4, 2, 2, 0, 2), (4, 2, 2, 2, 0), (2, 5, 2, 2, 2)):
        add('pitfall', [v, d, ny, nz, k], expect='ValueError', cls='documented-refusal')
    for v in (1, 2, 3, 4, 6):
        # d == v: there is no d-regular graph on v vertices; the documented
        # refusal is ValueError
        add('pitfall', [v, v, 2, 2, 2], expect='ValueError', cls='v==d', must_refuse=True)
    # outside the property (fewer than two pitfall / safety variables): recorded only
    g42 = [list(e) for e in regular_graphs(4, 2)[0]]
    add('pitfall', [4, 2, 1, 2, 2], cls='out-of-scope', graph=g42)
    add('pitfall', [4, 2, 2, 1, 2], cls='out-of-scope', graph=g42)
    # ---- Ramsey number: per N all (s,k)
    for N in range(0, 7):
        for s in range(1, 6):
            for k in range(1, 6):
                add('ram', [s, k, N], cost=1, group='ram%d' % N)
    if th:
        for part in range(16):
            for s in range(1, 6):
                for k in range(1, 6):
                    add('ram', [s, k, 7], cost=1, group='ram7.%02d' % part, slice=[part, 16])
    add('ram', [0, 3, 4], expect='ValueError', cls='non-positive')
    add('ram', [3, 0, 4], expect='ValueError', cls='non-positive')
    add('ram', [3, 3, -1], expect='ValueError', cls='non-positive')
    # ---- van der Waerden
    for N in range(0, 17 if th else 10):
        for k1 in range(1, 6 if th else 5):
            for k2 in range(1, 6 if th else 5):
                add('vdw', [N, k1, k2], cost=1 + (1 << max(0, N - 8)) // 4)
    if th:
        for N in (17, 18, 19):
            for K in ((3, 4), (4, 3), (4, 4), (3, 3)):
                add('vdw', [N] + list(K), cost=60)
    for N in range(0, 8 if th else 7):
        for K in itertools.product(range(1, 4), repeat=3):
            add('vdw', [N] + list(K), cost=1 + (1 << max(0, 3 * N - 12)) // 8)
        if N <= 6:
            add('vdw', [N, 4, 2, 3], cost=3)
            add('vdw', [N, 2, 2, 4], cost=3)
    for N in range(0, 6 if th else 5):
        for K in itertools.product(range(1, 4 if th else 3), repeat=4):
            add('vdw', [N] + list(K), cost=1 + (1 << max(0, 4 * N - 12)) // 8)
    add('vdw', [3, 2, 2, 2, 2, 2], cost=2)
    add('vdw', [4, 0, 2], expect='ValueError', cls='non-positive')
    add('vdw', [4, 2, 2, 0], expect='ValueError', cls='non-positive')
    add('vdw', [-1, 2, 2], expect='ValueError', cls='non-positive')
    # ---- Pythagorean triples
    for N in range(0, 23):
        add('ptn', [N], cost=1 + (1 << max(0, N - 12)) // 32)
    for N in range(23, 201 if th else 61):
        add('ptn', [N], cost=2)
    add('ptn', [-1], expect='ValueError', cls='non-positive')
    # hypotenuses of the almost isosceles triples (20,21,29), (119,120,169), (696,697,985),
    # (4059,4060,5741): the legs are as close to N/sqrt(2) as they get
    for N in (985, 986, 5741):
        add('ptn', [N], cost=40 if N > 1000 else 3)
    return cs


def shards(tier, seed):
    cs = cases(tier, seed)
    nsh = 64 if tier == 'thorough' else 48
    grouped = {}
    free = []
    for c in cs:
        g = c.pop('group', None)
        if g is None:
            free.append(c)
        else:
            grouped.setdefault(g, []).append(c)
    out = []
    for g in sorted(grouped):
        for c in grouped[g]:
            c.pop('_cost', None)
        out.append(('g-' + g, 'run_cases', grouped[g]))
    # deterministic greedy packing by decreasing cost
    nfree = max(8, nsh - len(out))
    bins = [[0, i, []] for i in range(nfree)]
    order = sorted(range(len(free)), key=lambda i: (-free[i]['_cost'], i))
    for i in order:
        b = min(bins)
        b[0] += free[i]['_cost']
        b[2].append(i)
    for load, i, idxs in sorted(bins, key=lambda b: b[1]):
        chunk = []
        for j in sorted(idxs):
            c = dict(free[j])
            c.pop('_cost', None)
            chunk.append(c)
        if chunk:
            out.append(('s%03d' % i, 'run_cases', chunk))
    out.append(('selfcheck', 'run_selfcheck', {'tier': tier}))
    co = cli_op_cases(tier)
    for i in range(4):
        out.append(('cliop%d' % i, 'run_cli_op', co[i::4]))
    return out


def run_cases(chunk, R):
    perkey = {}
    for case in chunk:
        R.nt = False
        vs = check_case(case, R)
        kept = []
        for v in vs:        # a flood under one key must not crowd out other keys
            perkey[v['key']] = perkey.get(v['key'], 0) + 1
            if perkey[v['key']] <= 2:
                kept.append(v)
            else:
                R.stats['further_violations_under_reported_keys'] += 1
        vs = kept
        R.case(sample={'fam': case['fam'], 'args': case['args']} if R.evals % 211 == 0 else None,
               nontrivial=R.nt)
        R.outcomes['family:' + case['fam']] += 1
        R.extend(vs)


def run_selfcheck(args, R):
    """Harness self-validation (failures are harness errors, not violations):
    the partial-order generator against brute force, the tree walk against the
    truth table, the regular-graph enumeration against real draws of
    networkx.random_regular_graph."""
    import networkx
    for nn in range(0, 4):
        assert set(posets(nn)) == posets_bruteforce(nn), nn
    posets(5)
    R.stats['selfcheck_walk_vs_bitmap'] += c03_walk.selftest()
    for (v, d) in ((4, 2), (5, 2), (6, 3), (6, 2), (6, 4), (4, 3), (2, 1)):
        known = set(regular_graphs(v, d))
        for s in range(12):
            H = networkx.random_regular_graph(d, v, seed=s)
            assert sorted(H.nodes()) == list(range(v))
            es = tuple(sorted((min(a, b), max(a, b)) for a, b in H.edges()))
            assert es in known, (v, d, s, es)
            R.stats['seam_real_draws_in_enumeration'] += 1
    for N in range(0, 7):
        for K in ((2, 2), (3, 3), (1, 3), (2, 3, 2)):
            if len(K) ** N <= 4096:
                assert sorted(vdw_colourings(N, K)) == sorted(vdw_colourings_bruteforce(N, K))
    R.case(sample='selfcheck', nontrivial=False)
