"""C07  Output is a function of the command line and the seed only.

(P) configuration enumeration: a menu of command lines covering every source
    of randomness of the three tools (every random graph construction and
    modifier, random families, -T shuffle / xorcomp / majcomp, planted variants,
    two graph arguments) and deterministic families whose headers mention the
    graph, x seeds x process configurations (PYTHONHASHSEED in {0,1,2,random} x
    working directory inside a tagged git repository / outside any repository)
    in FRESH interpreters.  stdout must be byte-identical across all
    configurations of the same (command, seed).
(M) in-process monitor: under a recording random generator, with --seed given
    no random draw may precede the seeding and every seeding uses the given
    value (this pins the cause without relying on chance).
(L) library generators with a seed= argument called twice give equal results.
"""
import os
import sys
import json
import shutil
import hashlib
import tempfile
import subprocess

from engine import xp
from engine.common import setup_paths, REPO, VERIF

PROPERTY = 'C07'
LEVEL = 'exploration'
EXHAUSTIVE = True
ENGINE = 'cli(subprocess)+xp.Recorder'
TECHNIQUE = ('exhaustive enumeration of process configurations (hash seed x working directory x '
             'fresh interpreters) x seeds over a menu of command lines covering every random '
             'component, plus a deterministic draw-before-seed monitor on the real code')
LEVEL_TEXT = ('Every command of the menu is executed in fresh interpreters under every process '
              'configuration of the box for several seeds (including 0 and a negative one) and the '
              'outputs are compared byte for byte; the in-process monitor makes the verdict '
              'independent of chance by recording the order of seeding and draws.')
LEVEL_NOTE = ('Trusted: the operating system gives fresh interpreters different initial random '
              'states (os.urandom) and address layouts; sizes are large enough that an unseeded '
              'run repeats by chance with probability < 2^-40. Bounded to the menu and seed alphabet.')
RULE = ('cases = (tool, command line, seed) of the menu x seed alphabet; each is run under every '
        'process configuration (fresh interpreter per configuration) and monitored in-process; '
        'non-trivial = the command uses randomness (draws recorded) or prints a graph-dependent header')
ASSUMPTIONS = [
    'menu of command lines written by hand from the list of random components in '
    'cnfgen/clitools/graph_build.py, cnfgen/graphs.py, families and transformation helpers',
    'seed alphabet {0, 1, -5, 42, 2^40+1}; PYTHONHASHSEED in {0, 1, 2, random}',
    'commands of one (configuration, seed) share a fresh interpreter (batch of <= 12 commands)',
]
VACUITY = {'commands_with_draws': 40, 'process_runs': 6, 'outputs_compared': 200}

SEEDS = [0, 1, -5, 42, 2 ** 40 + 1]

SMALL_CNF = 'p cnf 5 6\n1 -2 0\n2 3 -4 0\n-1 5 0\n4 0\n-3 -5 2 0\n1 2 3 4 5 0\n'


def preload():
    setup_paths()
    import cnfgen  # noqa


def menu():
    """(tool, argv-after-seed, stdin)"""
    G = [
        'gnp 9 .5', 'gnp 4 .5 3', 'gnm 9 14', 'gnd 8 3', 'gnp 9 .4 plantclique 4',
        'gnm 9 10 addedges 5', 'gnp 9 .5 splitedges 4', 'grid 3 3 plantclique 3',
        'complete 5 addedges 0', 'torus 3 4 splitedges 3', 'empty 7 addedges 6',
        'gnd 8 3 plantclique 3 addedges 2 splitedges 2',
    ]
    B = [
        'glrp 6 6 .5', 'glrm 6 7 15', 'glrm 5 5 20', 'glrd 6 7 3', 'regular 6 4 2',
        'shift 5 5 0 1 plantbiclique 3 3', 'glrp 5 5 .5 addedges 4', 'empty 5 6 addedges 7',
        'complete 4 4 plantbiclique 2 2', 'glrd 6 6 2 plantbiclique 2 3 addedges 3',
    ]
    m = []

    def c(tool, line, stdin=''):
        m.append((tool, line.split(), stdin))

    for g in G:
        c('cnfgen', 'tseitin first ' + g)
        c('cnfgen', 'kcolor 3 ' + g)
    for g in G[:6]:
        c('cnfgen', 'kclique 3 ' + g)
        c('cnfgen', 'domset 3 ' + g)
        c('cnfgen', 'matching ' + g)
        c('cnfgen', 'op ' + g)
        c('cnfgen', 'tseitin randomodd ' + g)
        c('cnfgen', 'tseitin random ' + g)
    for g in G[:4]:
        c('cnfgen', 'tiling ' + g)
        c('cnfgen', 'ramlb 3 3 ' + g)
        c('cnfgen', 'kcliquebin 3 ' + g)
        c('cnfgen', 'subgraph -G ' + g + ' -H complete 3')
        c('cnfgen', 'iso ' + g)
        c('cnfgen', 'iso ' + g + ' -e ' + G[1])
    for b in B:
        c('cnfgen', 'php ' + b)
        c('cnfgen', 'subsetcard ' + b)
        c('pbgen', 'subsetcard ' + b)
    for b in B[:4]:
        c('cnfgen', 'php --functional --onto ' + b)
    c('cnfgen', 'randkcnf 3 12 30')
    c('cnfgen', 'randkcnf -p 3 12 30')
    c('cnfgen', 'randkxor 3 12 20')
    c('cnfgen', 'randkxor -p 3 12 20')
    c('cnfgen', 'pitfall 8 3 4 4 2')
    c('cnfgen', 'php 5 4')
    c('cnfgen', 'php 5 4 -T shuffle')
    c('cnfgen', 'op 6 -T shuffle -T xor 2')
    c('cnfgen', 'php 4 3 -T xorcomp 10 3')
    # random bipartite graphs given explicitly to a transformation (they are
    # built while the -T part of the command line is parsed)
    c('cnfgen', 'php 4 3 -T xorcomp glrd 12 8 2')
    c('cnfgen', 'php 4 3 -T majcomp glrp 12 9 .5')
    c('cnfgen', 'php 4 3 -T xorcomp glrm 12 8 30')
    c('cnfgen', 'php 4 3 -T majcomp regular 12 6 3')
    c('cnfgen', 'php 4 3 -T xorcomp empty 12 8 addedges 25')
    c('cnfgen', 'php 4 3 -T xorcomp shift 12 8 0 1 plantbiclique 3 3')
    c('cnfgen', 'randkcnf 3 6 8 -T xorcomp glrd 6 5 2 -T shuffle')
    c('cnfgen', 'tseitin random gnm 6 9 -T majcomp glrd 9 7 3')
    c('cnfgen', 'php 4 3 -T majcomp 10 3')
    c('cnfgen', 'randkcnf 3 10 20 -T shuffle -T or 2')
    c('cnfgen', 'peb pyramid 3 -T shuffle -p')
    c('cnfgen', 'kcolor 3 complete 4')
    c('cnfgen', 'tseitin first grid 3 3')
    c('cnfgen', 'peb tree 3')
    c('cnfgen', 'stone 3 pyramid 2')
    c('cnfgen', 'cpls 2 4 4')
    c('cnfgen', 'vdw 9 3 3')
    c('cnfgen', '-of latex kcolor 2 gnp 5 .5')
    c('cnfgen', '-of opb tseitin random gnm 7 9')
    c('cnfgen', '--varnames php glrd 4 5 2')
    # every output format with every type of graph argument (the LaTeX
    # document describes the command line, the headers describe the graphs)
    for of in ('-of latex', '-of opb', '-l', '--varnames -of latex'):
        c('cnfgen', of + ' php glrd 3 2 2')
        c('cnfgen', of + ' peb pyramid 1')
        c('cnfgen', of + ' subsetcard regular 3 3 2')
        c('cnfgen', of + ' stone 2 tree 1')
        c('cnfgen', of + ' php 3 2 -T xorcomp glrd 6 4 2')
        c('cnfgen', of + ' kcolor 2 {REL}simple.gml')
        c('cnfgen', of + ' peb {REL}dag.kthlist')
        c('cnfgen', of + ' php {REL}bip.matrix')
    for of in ('-of latex', '-l'):
        c('pbgen', of + ' peb pyramid 1')
        c('pbgen', of + ' php glrd 3 2 2')
        c('pbgen', of + ' kcolor 2 gnp 4 .5')
    # a random component AFTER a modifier of an earlier graph argument, all
    # built while the command line is parsed
    c('cnfgen', 'iso gnp 8 .5 splitedges 2 -e gnp 10 .5')
    c('cnfgen', 'iso gnm 8 12 addedges 2 -e gnm 8 14 plantclique 3')
    c('cnfgen', 'subgraph -G gnm 8 12 splitedges 1 -H gnp 4 .5')
    c('cnfgen', 'kcolor 3 gnp 8 .5 splitedges 2 -T xorcomp glrp 30 10 .5')
    c('pbgen', 'iso gnp 6 .5 splitedges 2 -e gnp 7 .5')
    # every spelling of the seed option argparse accepts
    for sp in ('-S {S}', '-S{S}', '--seed={S}', '--see {S}', '-qS{S}', '-vS {S}', '-q -S {S}'):
        c('cnfgen', '{SEED-SPELLED-INSIDE} ' + sp + ' kcolor 3 gnp 9 .5')
        c('cnfgen', '{SEED-SPELLED-INSIDE} ' + sp + ' randkcnf 3 8 12 -T shuffle')
    for sp in ('-S {S}', '-qS{S}', '--seed={S}'):
        c('pbgen', '{SEED-SPELLED-INSIDE} ' + sp + ' matching gnp 8 .5')
    c('cnfgen', 'php 6 5 3')
    c('cnfgen', 'ec gnd 8 4')
    c('cnfgen', 'ec torus 3 3')
    for g in G[:5]:
        c('pbgen', 'tseitin first ' + g)
        c('pbgen', 'kcolor 3 ' + g)
        c('pbgen', 'matching ' + g)
    c('pbgen', 'randkcnf 3 12 30')
    c('pbgen', 'randkxor -p 3 10 12')
    c('pbgen', 'pitfall 8 3 4 4 2')
    c('pbgen', 'php 5 4')
    for flags in ('', '-p', '-v', '-c', '-p -v', '-q'):
        c('cnfshuffle', flags, SMALL_CNF)
    return [x for x in m if x is not None]


FIXTURES = {
    # string vertex labels (dot), integer ids (gml), in-house formats
    'bip.dot': ('graph B {\n' + ''.join('p%d [bipartite=0];\n' % i for i in range(1, 7)) +
                ''.join('h%d [bipartite=1];\n' % j for j in range(1, 6)) +
                ''.join('p%d -- h%d;\n' % (i, 1 + (i * j) % 5) for i in range(1, 7) for j in (1, 2)) + '}\n'),
    'bip.gml': ('graph [\n' + ''.join('  node [ id %d bipartite 0 ]\n' % i for i in range(1, 6)) +
                ''.join('  node [ id %d bipartite 1 ]\n' % j for j in range(6, 10)) +
                ''.join('  edge [ source %d target %d ]\n' % (i, j) for (i, j) in
                        sorted({(i, 6 + (i * 2) % 4) for i in range(1, 6)} |
                               {(i, 6 + (i * 3 + 1) % 4) for i in range(1, 6)})) + ']\n'),
    'comp.kthlist': '17\n' + ''.join('%d : %d %d 0\n' % (i, 13 + i % 5, 13 + (i * 2 + 1) % 5)
                                      if 13 + i % 5 != 13 + (i * 2 + 1) % 5 else
                                      '%d : %d 0\n' % (i, 13 + i % 5) for i in range(1, 13)),
    'bip.kthlist': '9\n1 : 6 7 0\n2 : 7 8 0\n3 : 6 9 0\n4 : 8 9 0\n5 : 6 8 0\n',
    'bip.matrix': '4 5\n1 1 0 0 1\n0 1 1 0 0\n1 0 0 1 0\n0 0 1 1 1\n',
    'simple.dot': ('graph G {\n' + ''.join('v%s;\n' % c for c in 'abcdefgh') +
                   ''.join('v%s -- v%s;\n' % (a, b) for a, b in
                           ['ab', 'bc', 'cd', 'de', 'ef', 'fg', 'gh', 'ha', 'ae', 'bf']) + '}\n'),
    'simple.gml': ('graph [\n' + ''.join('  node [ id %d ]\n' % i for i in range(1, 8)) +
                   ''.join('  edge [ source %d target %d ]\n' % (i, 1 + (i * 3) % 7) for i in range(1, 8)
                           if i != 1 + (i * 3) % 7) + ']\n'),
    'small.cnf': 'c a small formula\np cnf 4 3\n1 -2 0\n2 3 -4 0\n-1 4 0\n',
    'dag.dot': ('digraph D {\n' + ''.join('%d;\n' % i for i in range(1, 7)) +
                '1 -> 3;\n2 -> 3;\n3 -> 5;\n4 -> 5;\n5 -> 6;\n2 -> 6;\n}\n'),
    'dag.kthlist': '6\n1 : 0\n2 : 0\n3 : 1 2 0\n4 : 0\n5 : 3 4 0\n6 : 2 5 0\n',
    # names that read as integers mixed with names that do not
    'mixed.dot': ('graph M {\n' + ''.join('%s;\n' % x for x in ('1', '2', '3', 'a', 'b', 'c', 'd', '10')) +
                  ''.join('%s -- %s;\n' % e for e in [('1', 'a'), ('a', 'b'), ('b', '2'), ('c', '3'),
                                                       ('d', '10'), ('c', 'd'), ('1', '10'), ('2', 'c')]) + '}\n'),
    # a file name that is not ASCII (it is copied into the header)
    'citt\u00e0.kthlist': '9\n1 : 6 7 0\n2 : 7 8 0\n3 : 6 9 0\n4 : 8 9 0\n5 : 6 8 0\n',
    'pi\u00f9 \u00e9.cnf': 'c a small formula\np cnf 4 3\n1 -2 0\n2 3 -4 0\n-1 4 0\n',
    'mixeddag.dot': ('digraph MD {\n' + ''.join('%s;\n' % x for x in ('1', '2', 'x', 'y', 'z')) +
                     '1 -> x;\n2 -> x;\nx -> y;\n1 -> z;\ny -> z;\n}\n'),
}


def file_menu():
    m = []

    def c(tool, line):
        m.append((tool, line.split(), ''))
    for f in ('bip.dot', 'bip.gml', 'bip.kthlist', 'bip.matrix'):
        c('cnfgen', 'php {FX}/' + f)
        c('cnfgen', 'subsetcard {FX}/%s plantbiclique 2 2 addedges 1' % f)
        c('pbgen', 'subsetcard {FX}/' + f)
    c('cnfgen', 'php 4 3 -T xorcomp {FX}/comp.kthlist')
    c('cnfgen', 'php 4 3 -T majcomp {FX}/comp.kthlist -T shuffle')
    for f in ('simple.dot', 'simple.gml'):
        c('cnfgen', 'kcolor 3 {FX}/' + f)
        c('cnfgen', 'tseitin random {FX}/%s addedges 2' % f)
        c('cnfgen', 'kclique 3 {FX}/%s plantclique 3' % f)
        c('pbgen', 'matching {FX}/' + f)
    for f in ('dag.dot', 'dag.kthlist'):
        c('cnfgen', 'peb {FX}/' + f)
        c('cnfgen', 'stone 3 {FX}/' + f)
    c('cnfgen', 'kcolor 3 {FX}/mixed.dot')
    c('cnfgen', 'tseitin randomodd dot {FX}/mixed.dot addedges 2')
    c('cnfgen', 'kclique 3 {FX}/mixed.dot plantclique 3')
    c('pbgen', 'matching {FX}/mixed.dot')
    # reading the formula / the graph: the prompts for a user at a terminal
    c('cnfgen', 'dimacs {FX}/small.cnf -T shuffle')
    c('cnfgen', 'dimacs {FX}/small.cnf')
    c('cnfshuffle', '-i {FX}/small.cnf')
    # constructions whose arguments coincide in some sense (offsets equal modulo
    # the side, repeated dimensions): what the header says must not depend on
    # the order a set happens to have
    c('cnfgen', 'php shift 4 5 0 5 2')
    c('cnfgen', 'php shift 3 3 3 0 1')
    c('pbgen', 'subsetcard shift 4 4 4 0')
    c('cnfgen', 'kcolor 2 grid 2 2 2')
    # samplers that restart many times (dense regular graphs) and large sparse
    # random graphs (other code paths than the small ones of the menu)
    c('cnfgen', 'subsetcard regular 10 10 8')
    c('cnfgen', 'php regular 12 12 10')
    c('cnfgen', 'php glrp 200 150 0.02')
    c('pbgen', 'php glrp 200 150 0.02')
    c('cnfgen', 'kcolor 2 gnp 260 0.01')
    c('cnfgen', 'php glrm 180 170 300')
    # file names that are not ASCII, in every output format
    for of in ('', '-of opb ', '-of latex '):
        m.append(('cnfgen', (of + 'php').split() + ['{FX}/citt\u00e0.kthlist'], ''))
        m.append(('cnfgen', (of + 'dimacs').split() + ['{FX}/pi\u00f9 \u00e9.cnf'], ''))
    m.append(('pbgen', ['php', '{FX}/citt\u00e0.kthlist'], ''))
    m.append(('cnfshuffle', ['-i', '{FX}/pi\u00f9 \u00e9.cnf'], ''))
    m.append(('cnfgen', ['php', '{REL}citt\u00e0.kthlist'], ''))
    # the same file name relative to the working directory: every working
    # directory of the process part holds a copy of the fixtures
    c('cnfgen', 'kcolor 3 {REL}simple.gml')
    c('cnfgen', 'php {REL}bip.kthlist')
    c('cnfgen', 'peb {REL}dag.kthlist')
    c('cnfgen', 'subsetcard ./{REL}bip.dot')
    c('cnfgen', 'php 4 3 -T xorcomp {REL}comp.kthlist')
    c('pbgen', 'matching {REL}simple.dot')
    return [x for x in m if x is not None]


def argv_with_seed(tool, argv, seed):
    if argv and argv[0] == '{SEED-SPELLED-INSIDE}':
        # the menu entry spells the seed option itself ({S} = the value)
        return [x.replace('{S}', str(seed)) for x in argv[1:]]
    if tool == 'cnfshuffle':
        return ['--seed', str(seed)] + list(argv)
    return ['--seed', str(seed)] + list(argv)


# -------------------------------------------------------------- processes --
def make_dirs():
    base = tempfile.mkdtemp(prefix='c07_')
    gitdir = os.path.join(base, 'inside_git')
    plain = os.path.join(base, 'outside')
    os.makedirs(gitdir)
    os.makedirs(plain)
    for d in (gitdir, plain):
        for name, text in FIXTURES.items():
            with open(os.path.join(d, name), 'w') as f:
                f.write(text)
    env = dict(os.environ, GIT_CONFIG_GLOBAL='/dev/null', GIT_CONFIG_SYSTEM='/dev/null')
    try:
        subprocess.run(['git', 'init', '-q', gitdir], check=True, env=env,
                       stdout=subprocess.DEVNULL, stderr=subprocess.DEVNULL)
        subprocess.run(['git', '-C', gitdir, '-c', 'user.name=x', '-c', 'user.email=x@x',
                        'commit', '-q', '--allow-empty', '-m', 'x'], check=True, env=env,
                       stdout=subprocess.DEVNULL, stderr=subprocess.DEVNULL)
        subprocess.run(['git', '-C', gitdir, 'tag', 'some-unrelated-tag-1.0'], check=True, env=env,
                       stdout=subprocess.DEVNULL, stderr=subprocess.DEVNULL)
    except Exception:
        pass
    return base, gitdir, plain


CLOCK_2031 = 1940000000          # 23 June 2031


def run_batch(jobs, hashseed, cwd, kind=''):
    """kind: the directory kind of the configuration, with '+tty' (standard
    input is a terminal), '+clock' (the process runs in 2031), '+enc:<name>'
    (standard output is a text layer with that encoding)."""
    env = dict(os.environ)
    flags = kind.split('+')[1:]
    env['C07_TTY'] = '1' if 'tty' in flags else '0'
    env.pop('C07_CLOCK', None)
    env.pop('C07_STDOUT_ENC', None)
    if 'clock' in flags:
        env['C07_CLOCK'] = str(CLOCK_2031)
        # ... on a narrow terminal (what a tool asks the environment about its
        # screen must not shape the output either)
        env['COLUMNS'] = '40'
        env['LINES'] = '12'
    else:
        env.pop('COLUMNS', None)
        env.pop('LINES', None)
    for f in flags:
        if f.startswith('enc:'):
            env['C07_STDOUT_ENC'] = f[4:]
    env['PYTHONHASHSEED'] = str(hashseed)
    env['VERIF_REPO_PATH'] = os.environ.get('VERIF_REPO', REPO)
    env['PYTHONDONTWRITEBYTECODE'] = '1'
    env.pop('PYTHONPATH', None)
    p = subprocess.run([sys.executable, os.path.join(VERIF, 'engine', 'c07_driver.py')],
                       input=json.dumps(jobs).encode(), stdout=subprocess.PIPE,
                       stderr=subprocess.PIPE, cwd=cwd, env=env, timeout=600)
    if p.returncode != 0:
        raise RuntimeError('driver failed: %s' % p.stderr.decode()[-2000:])
    return json.loads(p.stdout.decode())


def configs(tier):
    # (label, PYTHONHASHSEED, directory kind)
    # a directory kind ending in '+tty': standard input is a terminal
    cs = [('hs0-git', '0', 'git'), ('hs1-plain', '1', 'plain'), ('hsrandom-plain', 'random', 'plain'),
          ('hs3-plain-terminal', '3', 'plain+tty'), ('hs1-plain-in-2031', '1', 'plain+clock'),
          ('hs1-plain-stdout-latin1', '1', 'plain+enc:latin-1'), ('hs1-plain-stdout-utf8', '1', 'plain+enc:utf-8')]
    if tier == 'thorough':
        cs += [('hs2-git', '2', 'git'), ('hs0-git-again', '0', 'git'), ('hsrandom-git', 'random', 'git')]
    return cs


def run_processes(args, R):
    tier, batch, seed = args['tier'], args['batch'], args['seed']
    base, gitdir, plain = make_dirs()
    try:
        fx = os.path.join(base, 'fx')
        os.makedirs(fx)
        for name, text in FIXTURES.items():
            with open(os.path.join(fx, name), 'w') as f:
                f.write(text)
        jobs = [{'tool': t, 'argv': [x.replace('{FX}', fx).replace('{REL}', '')
                                     for x in argv_with_seed(t, a, seed)],
                 'stdin': s} for (t, a, s) in batch]
        results = {}
        for (label, hs, kind) in configs(tier):
            results[label] = run_batch(jobs, hs, gitdir if kind.startswith('git') else plain, kind)
            R.stats['process_runs'] += 1
        labels = list(results)
        for i, job in enumerate(jobs):
            ref = results[labels[0]][i]
            case = {'part': 'P', 'tool': job['tool'],
                    'argv': [x.replace(fx, '{FX}') for x in job['argv']], 'stdin': job['stdin'],
                    'tier': tier}
            name = '%s:%s' % (job['tool'], _cmd_name(case['argv']))
            if ref['status'] != 'ok':
                R.bad('%s:status' % name, 'command failed: %s' % ref['status'], case)
                R.case(sample=None, nontrivial=False)
                continue
            differ = [lab for lab in labels[1:]
                      if results[lab][i]['stdout'] != ref['stdout'] or results[lab][i]['status'] != 'ok']
            R.stats['outputs_compared'] += len(labels) - 1
            if differ:
                other = results[differ[0]][i]['stdout']
                R.bad('%s:output-differs' % name,
                      'stdout differs between configuration %s and %s: %s' %
                      (labels[0], differ[0], _first_diff(ref['stdout'], other)), case)
            if not ref['stdout'].strip():
                R.bad('%s:empty-output' % name, 'no output', case)
            R.case(sample={'tool': job['tool'], 'argv': job['argv'],
                           'sha1': hashlib.sha1(ref['stdout'].encode()).hexdigest()[:12],
                           'configs': labels} if i == 0 else None, nontrivial=True)
    finally:
        shutil.rmtree(base, ignore_errors=True)


def _cmd_name(argv):
    toks = [t for t in argv[2:] if not t.lstrip('-.').replace('.', '').isdigit()]
    return '+'.join(toks[:6]) if toks else 'default'


def _first_diff(a, b):
    la, lb = a.splitlines(), b.splitlines()
    for i, (x, y) in enumerate(zip(la, lb)):
        if x != y:
            return 'line %d: %r vs %r' % (i + 1, x[:120], y[:120])
    return 'lengths %d vs %d lines' % (len(la), len(lb))


# ---------------------------------------------------------------- monitor --
def monitor_one(tool, argv, stdin, seed):
    import io
    import contextlib
    import cnfgen.clitools.msg as msgmod
    if tool == 'cnfgen':
        from cnfgen.clitools.cnfgen import cli
    elif tool == 'pbgen':
        from cnfgen.clitools.pbgen import cli
    else:
        from cnfgen.clitools.cnfshuffle import cli

    def body():
        if hasattr(msgmod, '_prefix'):
            msgmod._prefix = ''
        old = sys.stdin
        sys.stdin = io.StringIO(stdin)
        out = io.StringIO()
        try:
            with contextlib.redirect_stdout(out), contextlib.redirect_stderr(io.StringIO()):
                cli([tool] + argv, mode='output')
        finally:
            sys.stdin = old
        return out.getvalue()
    try:
        text, log = xp.with_recorder(body)
        return text, log, None
    except BaseException as e:
        return None, [], e


_FXDIR = None


def fixtures_dir():
    global _FXDIR
    if _FXDIR is None or _FXDIR[0] != os.getpid() or not os.path.isdir(_FXDIR[1]):
        d = tempfile.mkdtemp(prefix='c07fx_')
        for name, text in FIXTURES.items():
            with open(os.path.join(d, name), 'w') as f:
                f.write(text)
        _FXDIR = (os.getpid(), d)
    return _FXDIR[1]


def check_monitor(case):
    tool, argv, stdin, seed = case['tool'], case['argv'], case['stdin'], case['seed']
    name = '%s:%s' % (tool, _cmd_name(argv))
    if any('{FX}' in x or '{REL}' in x for x in argv):
        argv = [x.replace('{FX}', fixtures_dir()).replace('./{REL}', '{REL}').replace(
            '{REL}', fixtures_dir() + '/') for x in argv]
    out = []

    def bad(sym, what):
        out.append({'key': '%s:%s' % (name, sym), 'what': what, 'case': dict(case)})
    text, log, exc = monitor_one(tool, argv, stdin, seed)
    if exc is not None:
        bad('monitor:exception:' + type(exc).__name__, repr(exc)[:300])
        return out, 0
    draws = sum(1 for e in log if e[0] == 'draw')
    seeds = [e[1] for e in log if e[0] == 'seed']
    first_draw = next((i for i, e in enumerate(log) if e[0] == 'draw'), None)
    first_seed = next((i for i, e in enumerate(log) if e[0] == 'seed'), None)
    if draws:
        if first_seed is None:
            bad('draw-without-seed', '%d random draws but the generator was never seeded with '
                '--seed %r' % (draws, seed))
        elif first_draw < first_seed:
            bad('draw-before-seed', '%d random draw(s) happen before the generator is seeded' %
                sum(1 for e in log[:first_seed] if e[0] == 'draw'))
    for s in seeds:
        if str(s) != str(seed):
            bad('seed-value', 'generator seeded with %r instead of %r' % (s, seed))
            break
    # same command twice in the same process
    text2, log2, exc2 = monitor_one(tool, argv, stdin, seed)
    if exc2 is None and text2 != text:
        bad('in-process-rerun-differs', _first_diff(text, text2))
    return out, draws


def run_monitor(chunk, R):
    global _FXDIR
    try:
        for case in chunk:
            vs, draws = check_monitor(case)
            if draws:
                R.stats['commands_with_draws'] += 1
            R.stats['monitored'] += 1
            R.extend(vs)
            R.case(sample=None, nontrivial=draws > 0)
    finally:
        if _FXDIR is not None and _FXDIR[0] == os.getpid():
            shutil.rmtree(_FXDIR[1], ignore_errors=True)
            _FXDIR = None


# ---------------------------------------------------------------- library --
def library_calls():
    from cnfgen.families.randomformulas import RandomKCNF
    from cnfgen.families.randomkxor import RandomKXOR
    import cnfgen.graphs as g

    def graph(G):
        if G.is_bipartite():
            return ('B', G.left_order(), G.right_order(), sorted(G.edges()))
        return ('G', G.number_of_vertices(), sorted(G.edges()))

    def cl(F):
        return (F.number_of_variables(), [list(c) for c in F.clauses()])

    def split(seed):
        G = g.Graph.complete_graph(6)
        g.split_random_edges(G, 4, seed=seed)
        return graph(G)

    def addm(seed):
        G = g.Graph.empty_graph(7)
        g.add_random_missing_edges(G, 8, seed=seed)
        return graph(G)

    def addb(seed):
        G = g.BipartiteGraph(5, 5)
        g.add_random_missing_edges(G, 9, seed=seed)
        return graph(G)
    return {
        'RandomKCNF': lambda s: cl(RandomKCNF(3, 12, 30, seed=s)),
        'RandomKCNF:planted': lambda s: cl(RandomKCNF(3, 10, 20, seed=s, planted_assignments=[list(range(1, 11))])),
        'RandomKXOR': lambda s: cl(RandomKXOR(3, 12, 20, seed=s)),
        'bipartite_random_left_regular': lambda s: graph(g.bipartite_random_left_regular(6, 7, 3, seed=s)),
        'bipartite_random_m_edges:sparse': lambda s: graph(g.bipartite_random_m_edges(6, 7, 10, seed=s)),
        'bipartite_random_m_edges:dense': lambda s: graph(g.bipartite_random_m_edges(5, 5, 20, seed=s)),
        'bipartite_random': lambda s: graph(g.bipartite_random(6, 6, .5, seed=s)),
        'bipartite_random_regular': lambda s: graph(g.bipartite_random_regular(6, 4, 2, seed=s)),
        'split_random_edges': split,
        'add_random_missing_edges:simple': addm,
        'add_random_missing_edges:bipartite': addb,
    }


def check_library(case):
    import random
    out = []
    calls = library_calls()
    f = calls[case['fn']]
    seed = case['seed']
    try:
        random.seed(987654321)
        a = f(seed)
        random.seed(123)          # a different global state in between
        random.random()
        b = f(seed)
    except Exception as e:
        return [{'key': 'lib:%s:exception:%s' % (case['fn'], type(e).__name__),
                 'what': repr(e)[:300], 'case': dict(case)}]
    if a != b:
        out.append({'key': 'lib:%s:same-seed-differs' % case['fn'],
                    'what': 'two calls with seed=%r differ' % (seed,), 'case': dict(case)})
    return out


# ----------------------------------- library, every random outcome (xp) --
def _refusal_or(f):
    try:
        return f()
    except ValueError as e:
        return 'ValueError: %s' % (str(e)[:80],)


def xlib_calls():
    """Small seeded library calls whose complete outcome space is explored:
    name -> callable(seed).  Sizes are chosen so that the rarely taken paths
    (retry loops that give up, dense fallbacks) are inside the space."""
    from cnfgen.families.randomformulas import RandomKCNF
    from cnfgen.families.randomkxor import RandomKXOR
    import cnfgen.graphs as g

    def addm(n, missing, m):
        def f(seed):
            G = g.Graph.complete_graph(n)
            for (u, v) in missing:
                G.remove_edge(u, v)
            g.add_random_missing_edges(G, m, seed=seed)
            return sorted(G.edges())
        return f

    def addb(L, Rr, present, m):
        def f(seed):
            G = g.BipartiteGraph(L, Rr)
            for (u, v) in present:
                G.add_edge(u, v)
            g.add_random_missing_edges(G, m, seed=seed)
            return sorted(G.edges())
        return f

    def split(n, k):
        def f(seed):
            G = g.Graph.complete_graph(n)
            g.split_random_edges(G, k, seed=seed)
            return sorted(G.edges())
        return f
    return {
        'add_random_missing_edges:K3-1:1': addm(3, [(1, 2)], 1),
        'add_random_missing_edges:K4-2:1': addm(4, [(1, 2), (3, 4)], 1),
        'add_random_missing_edges:K3-2:2': addm(3, [(1, 2), (2, 3)], 2),
        'add_random_missing_edges:B2x2-1:1': addb(2, 2, [(1, 1), (1, 2), (2, 1)], 1),
        'add_random_missing_edges:B2x2-2:1': addb(2, 2, [(1, 1), (2, 2)], 1),
        'split_random_edges:K3:1': split(3, 1),
        'split_random_edges:K3:2': split(3, 2),
        'bipartite_random_left_regular:2x3:2': lambda s: sorted(g.bipartite_random_left_regular(2, 3, 2, seed=s).edges()),
        'bipartite_random_m_edges:2x2:1': lambda s: sorted(g.bipartite_random_m_edges(2, 2, 1, seed=s).edges()),
        'bipartite_random_m_edges:2x2:3': lambda s: sorted(g.bipartite_random_m_edges(2, 2, 3, seed=s).edges()),
        'bipartite_random:2x2': lambda s: sorted(g.bipartite_random(2, 2, .5, seed=s).edges()),
        'bipartite_random_regular:2x2:1': lambda s: sorted(g.bipartite_random_regular(2, 2, 1, seed=s).edges()),
        'bipartite_random_regular:2x2:2': lambda s: sorted(g.bipartite_random_regular(2, 2, 2, seed=s).edges()),
        # the seed given by position (it is the parameter after the sizes)
        'bipartite_random_left_regular:2x3:2:positional':
            lambda s: sorted(g.bipartite_random_left_regular(2, 3, 2, s).edges()),
        'bipartite_random_m_edges:2x2:1:positional': lambda s: sorted(g.bipartite_random_m_edges(2, 2, 1, s).edges()),
        'bipartite_random:2x2:positional': lambda s: sorted(g.bipartite_random(2, 2, .5, s).edges()),
        'bipartite_random_regular:2x2:1:positional': lambda s: sorted(g.bipartite_random_regular(2, 2, 1, s).edges()),
        'split_random_edges:K3:1:positional':
            lambda s: (lambda G: (g.split_random_edges(G, 1, s), sorted(G.edges()))[1])(g.Graph.complete_graph(3)),
        'RandomKCNF:1,2,2:positional': lambda s: [list(c) for c in RandomKCNF(1, 2, 2, s).clauses()],
        'RandomKXOR:1,2,2:positional': lambda s: [list(c) for c in RandomKXOR(1, 2, 2, s).clauses()],
        # planted assignments that do not mention every variable: refused or
        # not, the same answer for the same seed
        'RandomKXOR:2,3,2:partial-planted': lambda s: _refusal_or(
            lambda: [list(c) for c in RandomKXOR(2, 3, 2, seed=s, planted_assignments=[[1, -2]]).clauses()]),
        'RandomKCNF:2,3,2:partial-planted': lambda s: _refusal_or(
            lambda: [list(c) for c in RandomKCNF(2, 3, 2, seed=s, planted_assignments=[[-3]]).clauses()]),
        'RandomKCNF:1,2,2': lambda s: [list(c) for c in RandomKCNF(1, 2, 2, seed=s).clauses()],
        'RandomKCNF:2,2,2': lambda s: [list(c) for c in RandomKCNF(2, 2, 2, seed=s).clauses()],
        'RandomKCNF:1,2,2:planted': lambda s: [list(c) for c in RandomKCNF(
            1, 2, 2, seed=s, planted_assignments=[[1, -2]]).clauses()],
        'RandomKXOR:1,2,2': lambda s: [list(c) for c in RandomKXOR(1, 2, 2, seed=s).clauses()],
        'RandomKXOR:2,2,2': lambda s: [list(c) for c in RandomKXOR(2, 2, 2, seed=s).clauses()],
    }


def xlib_events_problem(events, seed):
    """A library generator called with seed=s is a function of s only iff
    every draw on the process-wide generator comes after random.seed(s), and
    every private generator it builds is seeded from s (never from the OS)."""
    seeded = False
    for ev in events:
        if ev[0] == 'seed':
            if ev[1] != seed:
                return 'global-seed-other', 'random.seed(%r) instead of the seed given (%r)' % (ev[1], seed)
            seeded = True
        elif ev[0] == 'gdraw' and not seeded:
            return 'global-draw-before-seed', ('draw #%d is taken from the process-wide generator, '
                                               'which was never seeded with the seed given' % ev[1])
        elif ev[0] in ('new', 'pseed') and ev[1] is None:
            return 'private-generator-from-os-entropy', 'random.Random() seeded from the OS'
    return None


def check_xlib(case, R=None):
    from engine import xp
    calls = xlib_calls()
    f = calls[case['fn']]
    seed = case['seed']
    out = []
    seen = set()

    def body():
        return f(seed)

    def look(x):
        pr = xlib_events_problem(x['events'], seed)
        if pr and pr[0] not in seen:
            seen.add(pr[0])
            c = dict(case)
            c['choices'] = list(x['choices'])
            out.append({'key': 'xlib:%s:%s' % (case['fn'].split(':')[0], pr[0]),
                        'what': '%s(seed=%r): %s' % (case['fn'], seed, pr[1]), 'case': c})
        if x['status'] == 'done' and x['exception'] is not None and \
                not isinstance(x['exception'], ValueError):
            e = x['exception']
            if 'exc' not in seen:
                seen.add('exc')
                c = dict(case)
                c['choices'] = list(x['choices'])
                out.append({'key': 'xlib:%s:exception:%s' % (case['fn'].split(':')[0], type(e).__name__),
                            'what': repr(e)[:200], 'case': c})
    if case.get('choices') is not None:
        look(xp.replay(body, case['choices'], private=True))
        return out
    try:
        st = xp.explore(body, look, on_partial=look, hashing=True, horizon=400, max_execs=60000,
                        private=True)
    except xp.Divergence as e:
        # The explorer re-executes the call from scratch with a recorded prefix
        # of answers; a different behaviour under the SAME answers means the
        # call is not a function of (arguments, seed, random stream): something
        # survived from an earlier call in this process.
        return out + [{'key': 'xlib:%s:depends-on-earlier-calls' % case['fn'].split(':')[0],
                       'what': '%s(seed=%r) behaves differently when it is called again with the '
                               'same random answers (%s)' % (case['fn'], seed, e), 'case': dict(case)}]
    if R is not None:
        for k in ('executions', 'states', 'transitions', 'cap_hit'):
            R.stats['xlib_' + k] += st[k]
    return out


def check_xtwice(case, R=None):
    """Same seed twice in one process, under every pseudo-random stream: the
    explorer models a seeded generator (engine/xp streams=True: after seed(a)
    the answers are an arbitrary but fixed function of the position, replayed
    when the same seed is set again), the call is made twice and both results
    must be equal.  Deviation-bounded around the all-zero schedule (which
    drives rejection samplers into their fallbacks) and around a mixed one."""
    from engine import xp
    calls = xlib_calls()
    f = calls[case['fn']]
    seed = case['seed']
    out = []

    def body():
        a = f(seed)
        b = f(seed)
        return (a, b)

    def look(x):
        if x['exception'] is not None:
            return
        a, b = x['result']
        if a != b and not out:
            c = dict(case)
            c['choices'] = list(x['choices'])
            out.append({'key': 'xtwice:%s:same-seed-differs' % case['fn'].split(':')[0],
                        'what': '%s called twice with seed=%r under the same pseudo-random stream '
                                'returns %r and then %r' % (case['fn'], seed, a, b), 'case': c})
    kw = dict(hashing=False, private=True, streams=True, horizon=600,
              default=case.get('default', 'zero'), default_seed=case.get('default_seed', 0))
    if case.get('choices') is not None:
        look(xp.replay(body, case['choices'], **{k: v for k, v in kw.items() if k != 'hashing'}))
        return out
    try:
        st = xp.explore(body, look, max_dev=case.get('max_dev', 2), max_execs=4000, **kw)
    except xp.Divergence as e:
        return out + [{'key': 'xtwice:%s:depends-on-earlier-calls' % case['fn'].split(':')[0],
                       'what': '%s(seed=%r) behaves differently when the whole experiment is repeated '
                               'with the same random answers (%s)' % (case['fn'], seed, e),
                       'case': dict(case)}]
    if R is not None:
        R.stats['xtwice_executions'] += st['executions']
        R.stats['xtwice_completed'] += st['completed']
    return out


def run_xtwice(chunk, R):
    for case in chunk:
        R.extend(check_xtwice(case, R))
        R.stats['xtwice_cases'] += 1
        R.case(sample=case if R.evals % 7 == 0 else None, nontrivial=True)


def run_xlib(chunk, R):
    for case in chunk:
        R.extend(check_xlib(case, R))
        R.stats['xlib_cases'] += 1
        R.case(sample=case if R.evals % 7 == 0 else None, nontrivial=True)


def run_library(chunk, R):
    for case in chunk:
        R.extend(check_library(case))
        R.stats['library_calls'] += 1
        R.case(sample=case if R.evals % 11 == 0 else None, nontrivial=True)


# ------------------------------------------------------------------ replay --
def replay(case):
    if case.get('part') == 'L':
        return check_library(case)
    if case.get('part') == 'X':
        return check_xlib(case)
    if case.get('part') == 'Y':
        return check_xtwice(case)
    if case.get('part') == 'M':
        return check_monitor(case)[0]
    # process part: rerun the single command under all configurations
    base, gitdir, plain = make_dirs()
    try:
        fx = os.path.join(base, 'fx')
        os.makedirs(fx)
        for name, text in FIXTURES.items():
            with open(os.path.join(fx, name), 'w') as f:
                f.write(text)
        job = {'tool': case['tool'], 'argv': [x.replace('{FX}', fx).replace('{REL}', '')
                                              for x in case['argv']],
               'stdin': case['stdin']}
        res = [(lab, run_batch([job], hs, gitdir if kind.startswith('git') else plain, kind)[0])
               for (lab, hs, kind) in configs(case.get('tier', 'quick'))]
    finally:
        shutil.rmtree(base, ignore_errors=True)
    name = '%s:%s' % (case['tool'], _cmd_name(case['argv']))
    out = []
    ref = res[0][1]
    if ref['status'] != 'ok':
        return [{'key': '%s:status' % name, 'what': 'command failed: %s' % ref['status'], 'case': case}]
    for lab, r in res[1:]:
        if r['stdout'] != ref['stdout'] or r['status'] != 'ok':
            out.append({'key': '%s:output-differs' % name,
                        'what': 'stdout differs between configurations (details vary with the run)',
                        'case': case})
            break
    return out


# ------------------------------------------------------------------ shards --
def shards(tier, seed):
    thorough = tier == 'thorough'
    m = menu() + file_menu()
    out = []
    seeds = SEEDS if thorough else [0, SEEDS[1 + seed % 4]]
    bsize = 12
    k = 0
    for s in seeds:
        for i in range(0, len(m), bsize):
            out.append(('p%03d' % k, 'run_processes',
                        {'tier': tier, 'seed': s, 'batch': m[i:i + bsize]}))
            k += 1
    mon = [{'part': 'M', 'tool': t, 'argv': argv_with_seed(t, a, s), 'stdin': si, 'seed': s}
           for (t, a, si) in m for s in ([0, 42] if not thorough else SEEDS)]
    nchunks = 16 if not thorough else 32
    for i in range(nchunks):
        ch = mon[i::nchunks]
        if ch:
            out.append(('m%03d' % i, 'run_monitor', ch))
    lib = [{'part': 'L', 'fn': fn, 'seed': s} for fn in sorted(library_calls())
           for s in [0, 1, -3, 'abc', 2 ** 40 + 1]]
    out.append(('l000', 'run_library', lib))
    xl = [{'part': 'X', 'fn': fn, 'seed': s} for fn in sorted(xlib_calls()) for s in (0, 7)]
    for i in range(6):
        if xl[i::6]:
            out.append(('x%03d' % i, 'run_xlib', xl[i::6]))
    yl = []
    for fn in sorted(xlib_calls()):
        yl.append({'part': 'Y', 'fn': fn, 'seed': 3, 'default': 'zero', 'max_dev': 2})
        yl.append({'part': 'Y', 'fn': fn, 'seed': 0, 'default': 'mix', 'default_seed': 1, 'max_dev': 1})
    for i in range(6):
        if yl[i::6]:
            out.append(('y%03d' % i, 'run_xtwice', yl[i::6]))
    return out
