"""C18  Any command line ends in a usable formula or a clean, shielded error.

Bounded exhaustive exploration of the argument vectors of the four command
line tools (cnfgen, pbgen, cnfshuffle, kthlist2pebbling).  Every vector is
executed on the real implementation through its console entry point
``main()`` -- in-process with private streams (engine.cli.run_inproc) and,
for a core subset, in a fresh interpreter exactly like the installed console
script (engine.cli.run_process) -- and the observable result (exit status,
stdout, stderr, files created, exception escaping) is classified:

  success     exit 0 and the formula (stdout, or the ``-o`` file with stdout
              empty) is accepted by the strict reader of the chosen output
              format: ref.c06_dimacs_ref (every line a comment / the problem
              line / a clause line; counts and variable range match),
              ref.c12_readers.read_opb, ref.c12_readers.read_latex_document
              (+ the counts announced in the document = rows of the formula);
  help        exit 0, a help/version/tutorial option was on the command line
              and text was printed on stdout;
  cli-error   exit status != 0, stdout empty, no output file with content,
              a message on stderr whose EVERY line starts with the comment
              marker of the chosen output format ('c ' dimacs, '* ' opb,
              '% ' latex -- the markers cnfgen/clitools/cnfgen.py itself
              lists in `comment_char`);
  violation   anything else: an exception other than SystemExit leaving
              main() (= a traceback and exit status 1 in a real process),
              exit 0 without a formula, a formula the strict reader rejects,
              output on stdout together with an error, an error message that
              is not (completely) shielded, an `INTERNAL ERROR`.

The chosen output format is read off the command line by the generator of
the vectors (documented rules: ``-of/--output-format X``, ``-l/--latex``,
else the extension of the ``-o`` file: .tex -> latex, .opb -> opb, else the
tool's default).
"""
import os
import re
import itertools

from engine.common import setup_paths, REPO

PROPERTY = 'C18'
LEVEL = 'exploration'
EXHAUSTIVE = True
ENGINE = 'cli'
TECHNIQUE = ('bounded exhaustive enumeration of argument vectors executed '
             'on the real console entry points (in-process + fresh '
             'interpreters), classified by strict format readers')
LEVEL_TEXT = ('exploration: every argument vector of the stated grammar/'
              'alphabet bounds is executed; no sampling')
LEVEL_NOTE = ('inputs only (no state between calls: message prefix, stdin, '
              'cwd, random generator and SIGINT handler are reset per call)')
RULE = ('for every tool and every registered sub-command (introspected from '
        'the helper classes): all vectors of 0..arity(+1) tokens over '
        "{-1,0,1,2,3,1.5,x,''}, all full-length numeric vectors of a box "
        '{1..4} ({0..5} thorough), every graph-taking sub-command on 8+ small/'
        'degenerate/just-outside-domain graph specifications per graph type '
        'crossed with all tokens for its numeric arguments, each option of the '
        'sub-command and one '
        'unknown option before/after small vectors, every main option and '
        'output format selector (-of, -l, -o file.ext, -q, --varnames) on '
        'small vectors, graph specifications from the grammar of '
        'clitools/graph_args.py (each construction with all numeric argument '
        'vectors up to one more than its arity, one modifier with all its '
        'argument vectors, save variants, pairs of modifiers), '
        '-T <transformation> with all token vectors, pairs of '
        'transformations, input files/stdin of nine kinds (missing, empty, '
        'comment-only, truncated, garbage, valid, directory, unreadable, '
        'not utf-8) for every reader; cases are distinct by construction '
        '(de-duplicated on (tool, argv, stdin)); a case is non-trivial when '
        'its argument vector is not empty')
ASSUMPTIONS = [
    'token alphabet and lengths as stated in RULE (quick: shorter alphabets '
    'for arity>=3 and for the extra token; thorough: full alphabet to '
    'arity+1 for arity<=3)',
    'the strict readers ref/c06_dimacs_ref.py and ref/c12_readers.py are the '
    'definition of "accepted by a strict reader"',
    'in-process execution of main() with byte-backed utf-8 pipes is '
    'equivalent to a process started with pipes; cross-checked on the core '
    'subset that also runs in fresh interpreters (exit status, exception '
    'type and verdict must agree, otherwise the run is a harness error)',
    'random generator seeded with a fixed value before every call; '
    '`git describe` (used by cnfgen.info for the version string) answered '
    'by a stub in the processes',
    'the check runs as root: the "unreadable" file is a symbolic link loop '
    '(open() fails with OSError ELOOP) when mode 000 does not bite',
    'a command that runs longer than 30 s is counted as cap_hit, not as a '
    'violation (the property does not bound running time)',
    'observation aids inside the check process only (no change of '
    'behaviour): build_formula/transform_cnf of the helper classes are '
    'wrapped by a pass-through that records the stage reached, and a silent '
    'exit 0 is re-run through cli() to name the exception main() swallowed; '
    'both only refine violation keys, never the verdict',
    'the modules of cnfgen.clihelpers are imported once per process so that '
    "the tools' helper discovery takes its `in sys.modules` branch instead "
    'of re-compiling them on every call (verdicts cross-checked against '
    'fresh interpreters on the core subset)',
]

MARK = {'dimacs': 'c', 'opb': '*', 'latex': '%'}
DEFAULT_FMT = {'cnfgen': 'dimacs', 'pbgen': 'opb', 'cnfshuffle': 'dimacs',
               'kthlist2pebbling': 'dimacs'}
HELP_TOKENS = {'-h', '--help', '-V', '--version', '--tutorial',
               '--help-graph', '--help-bipartite', '--help-dag'}

A8 = ['-1', '0', '1', '2', '3', '1.5', 'x', '']
A6 = ['-1', '0', '1', '2', 'x', '']
A5 = ['-1', '0', '1', '2', '3']
A3 = ['0', '2', 'x']
A2 = ['2', 'x']
NUM7 = ['-1', '0', '1', '2', '3', '.5', '1.5']
NUM5 = ['0', '1', '2', '3', '.5']


def VACUITY(tier):
    return {
        'cnfgen:success': 1500, 'cnfgen:cli-error': 4000, 'cnfgen:help': 30,
        'pbgen:success': 100, 'pbgen:cli-error': 200,
        'cnfshuffle:success': 20, 'kthlist2pebbling:success': 10,
        'accepted_dimacs': 1000, 'accepted_opb': 150, 'accepted_latex': 100,
        'accepted_output_file': 50, 'error_lines_checked': 20000,
        'process_calls': 250 if tier == 'quick' else 1500,
        'process_agrees_with_inproc': 250 if tier == 'quick' else 1500,
        'graph_files_read_ok': 10,
    }


def preload():
    setup_paths()
    import cnfgen  # noqa
    import cnfgen.clitools.cnfgen  # noqa
    import cnfgen.clitools.pbgen  # noqa
    import cnfgen.clitools.cnfshuffle  # noqa
    import cnfgen.clitools.kthlist2pebbling  # noqa
    # The tools look for their helpers with pkgutil on every call and
    # re-compile every module of cnfgen.clihelpers that is not in
    # sys.modules (half of the cost of a call when no byte code is cached).
    # Importing them once takes the tools' own `in sys.modules` branch.
    import pkgutil
    import importlib
    import cnfgen.clihelpers
    for _l, name, _p in pkgutil.walk_packages(cnfgen.clihelpers.__path__):
        importlib.import_module('cnfgen.clihelpers.' + name)
    _install_stage_probe()


# How far did a command line get?  The helpers' entry points are wrapped
# (transparent pass-through) so that an in-process run tells whether the
# error was raised while parsing ('parse'), in build_formula ('build') or in
# transform_cnf ('transform').  Only used to give the violations of the
# "wrong comment marker" kind a narrow key.
STAGE = []
_PROBED = set()


def _install_stage_probe():
    from cnfgen.clitools.cmdline import (get_formula_helpers,
                                         get_transformation_helpers)

    def wrap(cls, attr, tag):
        raw = cls.__dict__.get(attr)
        if raw is None or (cls, attr) in _PROBED:
            return
        func = raw.__func__ if isinstance(raw, (staticmethod, classmethod)) else raw

        def probe(*a, **k):
            STAGE.append(tag)
            return func(*a, **k)
        probe.__name__ = getattr(func, '__name__', attr)
        probe.__qualname__ = getattr(func, '__qualname__', attr)
        probe.__doc__ = func.__doc__
        setattr(cls, attr, staticmethod(probe))
        _PROBED.add((cls, attr))
    for h in get_formula_helpers():
        wrap(h, 'build_formula', 'build')
    for h in get_transformation_helpers():
        wrap(h, 'transform_cnf', 'transform')


def stage_reached():
    if 'transform' in STAGE:
        return 'transform'
    if 'build' in STAGE:
        return 'build'
    return 'parse'
    import ref.c06_dimacs_ref  # noqa
    import ref.c12_readers  # noqa


# =========================================================================
# fixtures (static texts written from the format descriptions)
# =========================================================================
CNF_VALID = 'c a formula\np cnf 3 2\n1 -2 0\n2 3 -1 0\n'
KTH_SIMPLE = 'c simple\n3\n1 : 2 0\n2 : 1 3 0\n3 : 2 0\n'
KTH_DAG = 'c dag\n3\n1 : 0\n2 : 1 0\n3 : 1 2 0\n'
KTH_BIP = 'c bipartite\n5\n1 : 3 4 0\n2 : 4 5 0\n'


def _gml(directed, edges, n=3, bip=None):
    s = 'graph [\n'
    if directed:
        s += '  directed 1\n'
    for i in range(n):
        s += '  node [\n    id %d\n    label "%d"\n' % (i, i + 1)
        if bip is not None:
            s += '    bipartite %d\n' % (0 if i < bip else 1)
        s += '  ]\n'
    for (u, v) in edges:
        s += '  edge [\n    source %d\n    target %d\n  ]\n' % (u, v)
    return s + ']\n'


GRAPH_VALID = {
    ('simple', 'kthlist'): KTH_SIMPLE,
    ('simple', 'gml'): _gml(False, [(0, 1), (1, 2)]),
    ('simple', 'dot'): 'strict graph {\n1;\n2;\n3;\n1 -- 2;\n2 -- 3;\n}\n',
    ('simple', 'dimacs'): 'c simple\np edge 3 2\ne 1 2\ne 2 3\n',
    ('dag', 'kthlist'): KTH_DAG,
    ('dag', 'gml'): _gml(True, [(0, 1), (0, 2), (1, 2)]),
    ('dag', 'dot'): 'strict digraph {\n1;\n2;\n3;\n1 -> 2;\n1 -> 3;\n2 -> 3;\n}\n',
    ('dag', 'dimacs'): 'c dag\np edge 3 3\ne 1 2\ne 1 3\ne 2 3\n',
    ('bipartite', 'kthlist'): KTH_BIP,
    ('bipartite', 'gml'): _gml(False, [(0, 2), (0, 3), (1, 3), (1, 4)], 5, 2),
    ('bipartite', 'dot'): ('strict graph "b" {\n1 [bipartite=0];\n'
                           '2 [bipartite=0];\n3 [bipartite=1];\n'
                           '4 [bipartite=1];\n5 [bipartite=1];\n1 -- 3;\n'
                           '1 -- 4;\n2 -- 4;\n2 -- 5;\n}\n'),
    ('bipartite', 'matrix'): '2 3\n1 1 0\n0 1 1\n',
}
COMMENT_ONLY = {'kthlist': 'c nothing here\nc at all\n', 'gml': '# nothing\n',
                'dot': '// nothing\n', 'dimacs': 'c nothing here\n',
                'matrix': 'c nothing\n', 'cnf': 'c nothing here\nc at all\n'}
BINARY = b'\xff\xfe\x00\x9f p cnf \xc3\x28 1 2\n'
GARBAGE = 'this is ( not a graph ]] 1 : : 0\n{ -- -> e 1 x\np\n'
FILE_KINDS = ['missing', 'empty', 'comments', 'trunc', 'garbage', 'valid',
              'dir', 'unread', 'binary', 'airy', 'crlf', 'novertices']
STDIN_KINDS = ['empty', 'comments', 'trunc', 'garbage', 'valid', 'binary', 'airy', 'crlf',
               'percent', 'latex']
# a file in another of the tools' own output formats given where DIMACS / a
# graph is expected (a LaTeX document opens with a lone '%'), the SATLIB trailer
PERCENT = '%\n0\n'
LATEX_DOC = ('%\n\\documentclass[10pt,a4paper]{article}\n\\usepackage{amsmath}\n\\begin{document}\n'
             '\\begin{align}\n&       \\left( {x_1} \\lor \\overline{x}_2 \\right) \\\\\n\\end{align}\n'
             '\\end{document}\n')


def _trunc(text):
    cut = (len(text) * 3) // 5
    return text[:cut]


def _content(kind, valid, ext):
    if kind == 'empty':
        return ''
    if kind == 'comments':
        return COMMENT_ONLY.get(ext, 'c nothing\n')
    if kind == 'trunc':
        return _trunc(valid)
    if kind == 'garbage':
        return GARBAGE
    if kind == 'valid':
        return valid
    if kind == 'novertices':
        # a legal description of the graph without vertices (seeded change
        # C18-s24: `tseitin first <such a file>`); accepted or refused, the
        # tools must end cleanly
        directed = 'digraph' in valid or 'directed 1' in valid
        return {'kthlist': '0\n', 'dimacs': 'p edge 0 0\n', 'matrix': '0 0\n',
                'gml': 'graph [\n%s]\n' % ('  directed 1\n' if directed else ''),
                'dot': 'strict %s {\n}\n' % ('digraph' if directed else 'graph'),
                'cnf': 'p cnf 0 0\n'}.get(ext, '')
    if kind == 'percent':
        return PERCENT + valid
    if kind == 'latex':
        return LATEX_DOC
    if kind == 'airy':
        # the valid content laid out with blank and white-space-only lines and
        # trailing blanks (legal or not, the tool must not crash on it)
        lines = valid.split('\n')
        out = ['', '   ']
        for ln in lines:
            out.append(ln + '  ' if ln else ln)
            out.append('')
            out.append(' \t ')
        return '\n'.join(out) + '\n\n'
    if kind == 'crlf':
        return valid.replace('\n', '\r\n')
    if kind == 'binary':
        return BINARY
    raise KeyError(kind)


def fixtures():
    """{file name in {FX}: content}; `missing.*` is deliberately absent."""
    fx = {}

    def family(stem, ext, valid, cext):
        for kind in FILE_KINDS:
            name = '%s_%s.%s' % (stem, kind, ext)
            if kind == 'missing':
                continue
            if kind == 'dir':
                fx[name] = None
            elif kind == 'unread':
                fx[name] = ('unreadable', valid.encode())
            else:
                fx[name] = _content(kind, valid, cext)
    family('f', 'cnf', CNF_VALID, 'cnf')
    for (gt, ff), text in sorted(GRAPH_VALID.items()):
        family(gt, ff, text, ff)
    # the same valid graphs under a name without a usable extension
    fx['simple_valid.txt'] = KTH_SIMPLE
    fx['simple_valid'] = KTH_SIMPLE
    return fx


def stdin_bytes(name):
    """name: 'none' | '<family>:<kind>' with family 'cnf' or
    '<graphtype>/<format>'."""
    if name == 'none':
        return b''
    fam, kind = name.split(':')
    if fam == 'cnf':
        valid, ext = CNF_VALID, 'cnf'
    else:
        gt, ff = fam.split('/')
        valid, ext = GRAPH_VALID[(gt, ff)], ff
    c = _content(kind, valid, ext)
    return c if isinstance(c, bytes) else c.encode('utf-8')


# =========================================================================
# introspection of the registered helpers
# =========================================================================
GRAPH_ACTIONS = {'ObtainSimpleGraph': 'simple',
                 'ObtainBipartiteGraph': 'bipartite',
                 'ObtainDirectedAcyclicGraph': 'dag'}
# composite positionals ("N [d]" or a graph): which graph type is behind
COMPOSITE_GRAPH = {'op': 'simple', 'subsetcard': 'bipartite',
                   'tseitin': 'simple', 'php': 'bipartite',
                   'xorcomp': 'bipartite', 'majcomp': 'bipartite'}
COMPOSITE_PREFIX = {'tseitin': [['first'], ['random'], ['zero'], ['bogus']]}

SPECS = {
    'simple': [['complete', '1'], ['empty', '1'], ['empty', '2'],
               ['complete', '2'], ['complete', '3'], ['grid', '2', '2'],
               ['gnp', '3', '.5'], ['complete', '2', '2']],
    'dag': [['path', '0'], ['path', '1'], ['path', '2'], ['tree', '0'],
            ['tree', '1'], ['pyramid', '0'], ['pyramid', '1'],
            ['pyramid', '2']],
    'bipartite': [['complete', '1', '1'], ['empty', '1', '1'],
                  ['empty', '2', '2'], ['complete', '2', '2'],
                  ['complete', '1', '3'], ['glrd', '2', '2', '1'],
                  ['regular', '2', '2', '1'], ['shift', '2', '3', '0', '1']],
}
HOST = {'simple': ['kcolor', '2'], 'dag': ['peb'], 'bipartite': ['php']}


def _describe(helper):
    import argparse
    from cnfgen.clitools.cmdline import CLIParser
    p = CLIParser(prog='x')
    helper.setup_command_line(p)
    pos, opts = [], []
    for a in p._actions:
        if isinstance(a, argparse._HelpAction):
            continue
        cls = type(a).__name__
        if a.option_strings:
            if cls in GRAPH_ACTIONS:
                kind = ('graph', GRAPH_ACTIONS[cls])
            elif a.nargs == 0:
                kind = ('flag',)
            else:
                kind = ('value',)
            opts.append((list(a.option_strings), kind))
            continue
        if cls in GRAPH_ACTIONS:
            pos.append(('graph', GRAPH_ACTIONS[cls]))
        elif isinstance(a.type, argparse.FileType):
            pos.append(('file',))
        elif cls == 'PHPArgs':
            pos.append(('star', 3))
        elif a.nargs == '*' and cls != '_StoreAction':
            pos.append(('star', 2))
        elif a.nargs == '*':
            pos.append(('star', 1))
        else:
            pos.append(('num',))
    arity = sum(k[1] if k[0] == 'star' else 1 for k in pos)
    return {'name': helper.name, 'pos': pos, 'opts': opts, 'arity': arity}


def registry():
    from cnfgen.clitools.cmdline import (get_formula_helpers,
                                         get_transformation_helpers)
    F = [_describe(h) for h in get_formula_helpers()]
    T = [_describe(h) for h in get_transformation_helpers()]
    return F, T


def graph_type(desc):
    for k in desc['pos']:
        if k[0] == 'graph':
            return k[1]
    return COMPOSITE_GRAPH.get(desc['name'])


# =========================================================================
# enumerators
# =========================================================================
def words(alphabet, lo, hi):
    for n in range(lo, hi + 1):
        for w in itertools.product(alphabet, repeat=n):
            yield list(w)


def read_main_options(tool, opts):
    """(formats, outfile) chosen by a list of main options (only the forms
    the generators below produce)."""
    fmt = None
    explicit = []
    out = None
    valid = (['latex', 'dimacs', 'opb'] if tool == 'cnfgen' else ['latex', 'opb'])
    i = 0
    while i < len(opts):
        t = opts[i]
        if t in ('-of', '--output-format') and i + 1 < len(opts):
            if opts[i + 1] in valid:
                explicit.append(opts[i + 1])
            i += 2
            continue
        if t.startswith('--output-format='):
            v = t.split('=', 1)[1]
            if v in valid:
                explicit.append(v)
        elif t in ('-l', '--latex'):
            explicit.append('latex')
        elif t in ('-o', '--output') and i + 1 < len(opts):
            out = opts[i + 1]
            i += 2
            continue
        elif t.startswith('--output='):
            out = t.split('=', 1)[1]
        i += 1
    if explicit:
        fmts = sorted(set(explicit))
    else:
        fmt = DEFAULT_FMT[tool]
        if tool == 'cnfgen' and out not in (None, '-'):
            ext = os.path.splitext(out)[-1][1:]
            fmt = {'tex': 'latex', 'opb': 'opb'}.get(ext, 'dimacs')
        fmts = [fmt]
    if out == '-':
        out = None
    return fmts, out


def case(fam, tool, sub, main, rest, stdin='none', core=False):
    fmts, out = read_main_options(tool, main)
    return {'fam': fam, 'tool': tool, 'sub': sub, 'args': list(main) + list(rest),
            'stdin': stdin, 'fmt': fmts, 'out': out, 'core': bool(core)}


def small_vectors(desc, alphabet):
    """argument vectors (without the sub-command name) that exercise a
    sub-command shallowly: tokens for the numeric positionals and, for a
    graph positional, a valid specification or a junk token."""
    gt = graph_type(desc)
    name = desc['name']
    if gt is None:
        for w in words(alphabet, 0, desc['arity']):
            yield w
        return
    nnum = sum(1 for k in desc['pos'] if k[0] == 'num')
    specs = [SPECS[gt][4], SPECS[gt][1], ['x']]
    if any(k[0] == 'star' for k in desc['pos']):
        # N [d] | <graph>
        for w in words(alphabet, 0, 2):
            yield w
        for pre in COMPOSITE_PREFIX.get(name, [[]])[:2]:
            for s in specs:
                yield pre + s
        return
    for w in words(alphabet, nnum, nnum):
        for s in specs:
            yield w + s
    for w in words(alphabet, 0, nnum - 1):
        yield w


def gen_tokens(tier, F, tool='cnfgen'):
    """token vectors for every sub-command"""
    thorough = tier == 'thorough'
    for d in F:
        name, a = d['name'], d['arity']
        fam = 'tokens'
        if tool == 'pbgen':
            for w in small_vectors(d, A3):
                yield case('pbgen-tokens', tool, name, [], [name] + w)
            continue
        if a <= 2:
            for w in words(A8, 0, a):
                yield case(fam, tool, name, [], [name] + w)
            for w in words(A8 if thorough else A3, a + 1, a + 1):
                yield case(fam, tool, name, [], [name] + w)
        elif a == 3:
            for w in words(A8 if thorough else A6, 0, 3):
                yield case(fam, tool, name, [], [name] + w)
            for w in words(A8 if thorough else A2, 4, 4):
                yield case(fam, tool, name, [], [name] + w)
        else:
            legal = ['1', '2', '3']
            for w in words(A5 if thorough else legal, a, a):
                yield case(fam, tool, name, [], [name] + w)
            for w in words(A8 if thorough else A3, 0, min(a - 1, 3)):
                yield case(fam, tool, name, [], [name] + w)
            # every token at every position of the vectors over {2,3}
            bases = list(words(['2', '3'] if thorough else ['2'], a, a))
            bases.append(['3', '2', '2', '2', '2'][:a])
            bases.append(['3'] + ['2'] * (a - 1))
            for b in bases:
                for i in range(a):
                    for t in A8:
                        w = list(b)
                        w[i] = t
                        yield case(fam, tool, name, [], [name] + w)
                        if thorough:
                            for j in range(i + 1, a):
                                for t2 in A8:
                                    w2 = list(w)
                                    w2[j] = t2
                                    yield case(fam, tool, name, [], [name] + w2)
            for w in words(A3 if thorough else A2, a + 1, a + 1):
                yield case(fam, tool, name, [], [name] + w)


def gen_box(tier, F):
    """all numeric vectors of full length inside a box of legal-looking
    values (the success-rich part of the space)"""
    thorough = tier == 'thorough'
    for d in F:
        if graph_type(d) is not None or d['arity'] == 0:
            continue
        name, a = d['name'], d['arity']
        if any(k[0] in ('file',) for k in d['pos']):
            continue
        if a <= 3:
            alpha = ['0', '1', '2', '3', '4', '5'] if thorough else ['1', '2', '3', '4']
            lens = range(1, a + 1) if any(k[0] == 'star' for k in d['pos']) else [a]
            for n in lens:
                for w in words(alpha, n, n):
                    yield case('box', 'cnfgen', name, [], [name] + w)
        else:
            alpha = ['1', '2', '3', '4'] if thorough else ['2', '4']
            for w in words(alpha, a, a):
                yield case('box', 'cnfgen', name, [], [name] + w)
            if thorough:
                for w in words(['2', '3'], a + 1, a + 2):
                    yield case('box', 'cnfgen', name, [], [name] + w)


SPECS_MORE = {
    'simple': [['gnp', '4', '.5'], ['gnp', '4', '0'], ['gnp', '3', '1'],
               ['gnm', '4', '3'], ['gnd', '4', '2'], ['gnd', '4', '3'],
               ['grid', '2', '3'], ['grid', '4'], ['torus', '3', '3'],
               ['complete', '4'], ['empty', '3'], ['gnp', '2', '.5', '2'],
               ['complete', '3', 'plantclique', '2'],
               ['empty', '4', 'addedges', '2'],
               ['complete', '3', 'splitedges', '1'],
               ['kthlist', '{FX}/simple_valid.kthlist'],
               ['{FX}/simple_valid.gml'],
               # just outside the domain of the constructions
               ['grid', '0'], ['torus', '2', '0'], ['empty', '0'],
               ['complete', '0'], ['gnp', '0', '.5'], ['gnm', '1', '1'],
               ['gnd', '2', '2'], ['gnd', '3', '1']],
    'dag': [['path', '3'], ['tree', '2'], ['pyramid', '3'],
            ['kthlist', '{FX}/dag_valid.kthlist'], ['{FX}/dag_valid.dot'],
            ['path', '-1'], ['tree', '-1'], ['pyramid', '-1']],
    'bipartite': [['glrp', '3', '3', '.5'], ['glrp', '2', '3', '0'],
                  ['glrm', '3', '3', '4'], ['glrm', '2', '2', '4'],
                  ['glrd', '3', '4', '2'], ['regular', '4', '2', '1'],
                  ['shift', '3', '3', '1', '2'], ['complete', '3', '2'],
                  ['empty', '1', '3'], ['complete', '2', '2', 'plantbiclique', '1', '1'],
                  ['empty', '2', '2', 'addedges', '2'],
                  ['matrix', '{FX}/bipartite_valid.matrix'],
                  ['{FX}/bipartite_valid.kthlist'],
                  ['complete', '0', '1'], ['empty', '1', '0'],
                  ['glrd', '1', '1', '0'], ['glrd', '1', '1', '2'],
                  ['glrp', '0', '1', '.5'], ['glrm', '1', '1', '2'],
                  ['regular', '2', '3', '1'], ['shift', '1', '1'],
                  ['shift', '2', '2', '3']],
}


def gen_graph_hosts(tier, F):
    """every graph-taking sub-command on small / degenerate graphs, crossed
    with all tokens for its numeric arguments"""
    thorough = tier == 'thorough'
    for d in F:
        gt = graph_type(d)
        if gt is None:
            continue
        name = d['name']
        if any(k[0] == 'star' for k in d['pos']):
            for pre in COMPOSITE_PREFIX.get(name, [[]]):
                for s in SPECS[gt] + SPECS_MORE[gt]:
                    yield case('graph-hosts', 'cnfgen', name, [], [name] + pre + s)
            continue
        nnum = sum(1 for k in d['pos'] if k[0] == 'num')
        alpha = A8 if (thorough or nnum <= 1) else A6
        for w in words(alpha, nnum, nnum):
            for s in SPECS[gt]:
                yield case('graph-hosts', 'cnfgen', name, [], [name] + w + s)
        for w in words(['0', '1', '2', '3', '4'] if thorough else ['2'], nnum, nnum):
            for s in SPECS_MORE[gt]:
                yield case('graph-hosts', 'cnfgen', name, [], [name] + w + s)


def gen_options(tier, F):
    """each option of each sub-command, and one unknown option, before and
    after small vectors"""
    thorough = tier == 'thorough'
    for d in F:
        name = d['name']
        gt = graph_type(d)
        vecs = list(small_vectors(d, A3 if thorough else A2))
        optforms = [['--bogus'], ['-h'], ['--help']]
        for (strings, kind) in d['opts']:
            for s in (strings if thorough else strings[:1]):
                if kind[0] == 'flag':
                    optforms.append([s])
                elif kind[0] == 'value':
                    for t in A8:
                        optforms.append([s, t])
                    optforms.append([s])
                else:
                    for spec in SPECS[kind[1]][:5] + [['x'], []]:
                        optforms.append([s] + spec)
        for o in optforms:
            for w in vecs:
                yield case('options', 'cnfgen', name, [], [name] + o + w)
                if thorough or len(w) == d['arity'] or gt:
                    yield case('options', 'cnfgen', name, [], [name] + w + o)
        # all pairs of the flags of the sub-command
        flags = [st[0] for (st, k) in d['opts'] if k[0] == 'flag']
        for f1, f2 in itertools.product(flags, repeat=2):
            for w in vecs:
                if len(w) >= d['arity'] or gt:
                    yield case('options', 'cnfgen', name, [], [name, f1, f2] + w)
        # sub-commands made only of graph options (subgraph, iso -e)
        gopts = [st[0] for (st, k) in d['opts'] if k[0] == 'graph']
        if len(gopts) == 2:
            for s1 in SPECS['simple'] + [['x']]:
                for s2 in SPECS['simple'] + [['x']]:
                    yield case('options', 'cnfgen', name, [],
                               [name, gopts[0]] + s1 + [gopts[1]] + s2)
                    yield case('options', 'cnfgen', name, [],
                               [name, gopts[1]] + s2 + [gopts[0]] + s1)
        elif len(gopts) == 1:
            for s1 in SPECS['simple'][:5]:
                for s2 in SPECS['simple'] + [['x']]:
                    yield case('options', 'cnfgen', name, [],
                               [name] + s1 + [gopts[0]] + s2)
                    yield case('options', 'cnfgen', name, [],
                               [name, gopts[0]] + s2 + ['--'] + s1)


SELECTORS_CNFGEN = [
    ['-of', 'dimacs'], ['-of', 'opb'], ['-of', 'latex'], ['-l'],
    ['-o', 'o.cnf'], ['-o', 'o.opb'], ['-o', 'o.tex'], ['--output', 'o.opb'],
    ['--output=o.tex'], ['--outpu', 'o.opb'], ['-q', '-of', 'opb'],
    ['-q', '-of', 'latex'], ['-q'], ['--varnames'],
    ['--varnames', '-of', 'opb'], ['--varnames', '-of', 'latex', '-o', 'o.x'],
    ['-v', '--output-format=opb'], ['--output=o.tex', '-q', '--varnames'],
    ['--seed', '5', '-of', 'opb', '-o', 'o.cnf'],
]
SELECTORS_PBGEN = [['-of', 'opb'], ['-of', 'latex'], ['-l'], ['-o', 'o.opb'],
                   ['-o', 'o.tex'], ['-q'], ['-q', '-l'], ['--varnames'],
                   ['--varnames', '-of', 'latex', '-o', 'o.cnf']]


def gen_formats(tier, F):
    thorough = tier == 'thorough'
    for d in F:
        name = d['name']
        vecs = list(small_vectors(d, A3 if thorough else A2))
        sel = SELECTORS_CNFGEN if thorough else SELECTORS_CNFGEN[:13]
        for s in sel:
            for w in vecs:
                yield case('formats', 'cnfgen', name, s, [name] + w)
        for s in (SELECTORS_PBGEN if thorough else SELECTORS_PBGEN[:6]):
            for w in (vecs if thorough else
                      [v for v in vecs if len(v) >= d['arity'] or graph_type(d)]):
                yield case('pbgen-formats', 'pbgen', name, s, [name] + w)


def gen_main(tier, F):
    """the top level of cnfgen and pbgen"""
    subs = [d['name'] for d in F]
    for tool in ('cnfgen', 'pbgen'):
        fam = 'main' if tool == 'cnfgen' else 'pbgen-main'
        ok = ['php', '2', '1']
        bad = ['php', '2', 'x']
        yield case(fam, tool, '-', [], [], core=True)
        # the complete product of the independent output switches: each
        # one alone says little about a pair (seeded change C18-s21: OPB
        # output x -q x --varnames)
        fmts = [[], ['-of', 'dimacs'], ['-of', 'opb'], ['-of', 'latex'], ['-l'],
                ['-o', 'o.opb'], ['-o', 'o.tex'], ['-o', 'o.cnf']]
        for fm in fmts:
            for q in ([], ['-q'], ['--quiet']):
                for vn in ([], ['--varnames']):
                    for vb in ([], ['-v']):
                        for w in (ok, bad, ['and', '0', '0'], ['and', '1', '1'],
                                  ['parity', '3'], ['op', '3', '--total']):
                            yield case(fam, tool, '-', fm + q + vn + vb, w)
                            if q and vn:
                                yield case(fam, tool, '-', vn + vb + fm + q, w)
        for t in A8 + ['bogus', 'ph', 'PHP', '-', '--', '-T', '-x', '--bogus',
                       '-h', '--help', '-V', '--version', '--tutorial',
                       '--help-graph', '--help-bipartite', '--help-dag', '-T']:
            yield case(fam, tool, '-', [], [t])
            yield case(fam, tool, '-', [], [t] + ok)
            yield case(fam, tool, '-', [], ok + [t])
        for h in ['-h', '--help', '-V', '--tutorial', '--help-graph',
                  '--help-bipartite', '--help-dag']:
            for s in (['-of', 'opb'], ['-of', 'latex'], ['-o', 'o.tex'], ['-q']):
                yield case(fam, tool, '-', s + [h], [])
                yield case(fam, tool, '-', s + [h], bad)
        for name in subs:
            yield case(fam, tool, name, [], [name, '-h'])
            yield case(fam, tool, name, [], [name, '--help'])
            yield case(fam, tool, name, ['-of', 'latex'], [name, '-h'])
        # option values
        for opt in ('-of', '--output-format', '-o', '--output', '-S', '--seed'):
            yield case(fam, tool, '-', [], [opt])
            yield case(fam, tool, '-', [], [opt] + ok)
            vals = A8 + ['dimacs', 'opb', 'latex', 'tex', 'cnf', 'DIMACS', 'op']
            for v in vals:
                if opt in ('-o', '--output') and v not in ('x', '', '1', '1.5'):
                    continue
                if opt in ('-o', '--output'):
                    # `v` is a file in the private working directory
                    yield case(fam, tool, '-', [opt, v], ok)
                    yield case(fam, tool, '-', [opt, v], bad)
                elif opt in ('-of', '--output-format'):
                    yield case(fam, tool, '-', [opt, v], ok)
                    yield case(fam, tool, '-', [opt, v], bad)
                else:
                    yield case(fam, tool, '-', [opt, v], ok)
                    yield case(fam, tool, '-', [opt, v],
                               ['randkcnf', '2', '3', '2'])
        for o in (['-o', 'nodir/o.cnf'], ['-o', '{FX}/f_dir.cnf'],
                  ['-o', '.'], ['-o', 'o.cnf', '-o', 'p.opb'],
                  ['-o', 'p.opb', '-o', 'o.cnf'], ['-o', 'o.tex', '-o', '-']):
            yield case(fam, tool, '-', o, ok)
            yield case(fam, tool, '-', o, bad)
        # output names whose extension is ALMOST 'tex' / 'opb' (other case, no
        # dot, dot-file, not last): one format for the output and for every
        # error, whenever the error is detected
        for nm in ('O.TEX', 'o.Tex', 'O.OPB', 'f.Opb', 'tex', '.opb', 'o.tex.cnf', 'o.latex', 'o.dimacs'):
            for rest in (ok, bad, ['randkcnf', '3', '2', '5'], ['kclique', '3', 'nofile.gml'],
                         ['php', '2', '1', '-T', 'xor', '0']):
                yield case(fam, tool, '-', ['-o', nm], rest)
        # mutually exclusive and repeated options
        for pair in (['-of', 'opb', '-l'], ['-l', '-of', 'opb'], ['-v', '-q'],
                     ['-q', '-v'], ['-q', '-q'], ['-l', '-l'],
                     ['-of', 'opb', '-of', 'latex'], ['-of', 'latex', '-of', 'opb']):
            fmts, out = read_main_options(tool, pair)
            for rest in (ok, bad, ['php', '1', '2', '3']):
                c = case(fam, tool, '-', pair, rest)
                if len(fmts) > 1:
                    # contradictory requests: no format is "the chosen one"
                    c['fmt'] = sorted(MARK)
                yield c
        # transformations are refused by pbgen / handled by cnfgen
        yield case(fam, tool, '-', [], ok + ['-T'])
        yield case(fam, tool, '-', [], ok + ['-T', 'xor', '2'])
        yield case(fam, tool, '-', ['-T', 'xor', '2'], ok)
        yield case(fam, tool, '-', [], ['-T', 'xor', '2'])
        # abbreviations
        # abbreviations (argparse accepts unambiguous prefixes)
        for ab, full in ((['--output-f', 'opb'], ['--output-format', 'opb']),
                         (['--var'], []), (['--qui'], []), (['--see', '3'], []),
                         (['--help-'], []), (['--tut'], []), (['--outp', 'o.opb'], None),
                         (['--out', 'o.tex'], None)):
            for rest in (ok, bad):
                c = case(fam, tool, '-', full if full is not None else ab, rest)
                c['args'] = ab + rest
                if full is None:
                    # '--out' is a prefix of --output and --output-format:
                    # ambiguous, an error under the default format
                    c['fmt'], c['out'] = [DEFAULT_FMT[tool]], None
                yield c
    for t in ('dimacs', 'DIMACS'):
        yield case('pbgen-main', 'pbgen', '-', [], ['-of', t, 'php', '2', '1'])
        yield case('pbgen-main', 'pbgen', '-', [], ['-of', t, 'php', '2', 'x'])


CONSTRUCTIONS = {
    'simple': {'gnp': 3, 'gnm': 2, 'gnd': 2, 'grid': 3, 'torus': 3,
               'complete': 2, 'empty': 1},
    'dag': {'path': 1, 'tree': 1, 'pyramid': 1},
    'bipartite': {'glrp': 3, 'glrm': 3, 'glrd': 3, 'regular': 3, 'shift': 4,
                  'complete': 2, 'empty': 2},
}
MODIFIERS = {'simple': {'plantclique': 1, 'addedges': 1, 'splitedges': 1},
             'bipartite': {'plantbiclique': 2, 'addedges': 1},
             'dag': {}}
MOD_BASES = {'simple': [['complete', '3'], ['gnp', '4', '.5'], ['empty', '2']],
             'bipartite': [['complete', '2', '2'], ['glrd', '3', '3', '2'],
                           ['empty', '2', '2']],
             'dag': [['pyramid', '1'], ['path', '2']]}


def grammar_tables():
    """constructions / modifiers actually registered in graph_args.py (the
    arities above are the reading of graph_build.py; an unknown new
    construction gets arity 2)"""
    from cnfgen.clitools import graph_args
    cons = {}
    mods = {}
    for gt in ('simple', 'dag', 'bipartite'):
        cons[gt] = {c: CONSTRUCTIONS.get(gt, {}).get(c, 2)
                    for c in sorted(graph_args.constructions[gt])}
        mods[gt] = {m: MODIFIERS.get(gt, {}).get(m, 1)
                    for m in sorted(graph_args.options[gt]) if m != 'save'}
    fmts = {gt: list(graph_args.formats[gt]) for gt in cons}
    return cons, mods, fmts


def gen_graph_grammar(tier):
    thorough = tier == 'thorough'
    cons, mods, fmts = grammar_tables()
    fam = 'graph-grammar'
    for gt in ('simple', 'dag', 'bipartite'):
        host = HOST[gt]
        sub = 'graph:' + gt
        # depth 1: construction + numeric arguments in / outside the range
        for c, n in cons[gt].items():
            if c == 'shift' and not thorough:
                n = 3
            if thorough:
                alpha = NUM7 if n <= 3 else NUM5
                top = n + 1 if n <= 3 else n
            else:
                alpha = NUM7 if n <= 2 else NUM5
                top = n
            for w in words(alpha, 0, top):
                yield case(fam, 'cnfgen', sub, [], host + [c] + w)
            if not thorough:
                for w in words(['2', '.5'], n + 1, n + 1):
                    yield case(fam, 'cnfgen', sub, [], host + [c] + w)
            for t in ('x', '', 'nan', 'inf', '1e1', '-0', '+1', ' 2', '2 ', '{}', '{x}', '%s', 'a{0}b'):
                base = ['2'] * n
                for i in range(n + 1):
                    yield case(fam, 'cnfgen', sub, [],
                               host + [c] + base[:i] + [t] + base[i:n - 1 if i < n else n])
        # a construction of another graph type / a format of another type
        for other in ('simple', 'dag', 'bipartite'):
            if other == gt:
                continue
            for c in cons[other]:
                if c not in cons[gt]:
                    yield case(fam, 'cnfgen', sub, [], host + [c, '2', '2'])
            for f in fmts[other]:
                if f not in fmts[gt]:
                    yield case(fam, 'cnfgen', sub, [], host + [f, 'x.' + f])
        # depth 2: a valid construction + one modifier with all its arguments
        names = sorted(set(list(mods['simple']) + list(mods['bipartite'])))
        legal = {'plantclique': ['2'], 'addedges': ['1'],
                 'splitedges': ['1'], 'plantbiclique': ['1', '1']}
        for bi, b in enumerate(MOD_BASES[gt]):
            full = thorough or bi == 0
            for m in names + ['bogus', 'complete', 'simple', 'dag', '-x', '--bogus']:
                if m in mods[gt]:
                    n = mods[gt][m]
                    if full:
                        alpha = NUM7 if (thorough or n <= 1) else NUM5
                        ws = words(alpha, 0, n + 1)
                    else:
                        ws = itertools.chain(words(['1', '3'], n, n), [[], ['0'] * n])
                else:
                    ws = words(NUM7 if thorough else ['1'], 0, 1)
                for w in ws:
                    yield case(fam, 'cnfgen', sub, [], host + b + [m] + w)
                for t in ('x', ''):
                    yield case(fam, 'cnfgen', sub, [], host + b + [m, t])
                    yield case(fam, 'cnfgen', sub, [], host + b + [m, '1', t])
            # two modifiers (order, repetition)
            for m1 in mods[gt]:
                for m2 in mods[gt]:
                    yield case(fam, 'cnfgen', sub, [], host + b + [m1] +
                               legal.get(m1, ['1']) + [m2] + legal.get(m2, ['1']))
            # save
            if full:
                for f in fmts[gt] + ['bogus']:
                    for target in (['g.' + f], [f, 'g.' + f], [f, 'g'], [f],
                                   ['g'], [f, 'nodir/g.' + f], [f, '{FX}/f_dir.cnf'],
                                   [f, 'g.' + f, 'extra'], [f, '']):
                        yield case(fam, 'cnfgen', sub, [], host + b + ['save'] + target)
            yield case(fam, 'cnfgen', sub, [], host + b + ['save'])
            # '-' as the target of save: whatever it means, the output stays one formula
            yield case(fam, 'cnfgen', sub, [], host + b + ['save', fmts[gt][0], '-'])
            yield case(fam, 'cnfgen', sub, ['-of', 'opb'], host + b + ['save', fmts[gt][0], '-'])
            yield case(fam, 'cnfgen', sub, [], host + b + ['save', '-'])
            yield case(fam, 'cnfgen', sub, [], host + b + ['save', 'g.gml', 'save', 'h.gml'])
            for m1 in mods[gt]:
                yield case(fam, 'cnfgen', sub, [], host + b + [m1] +
                           legal.get(m1, ['1']) + ['save', 'g.gml'])
                yield case(fam, 'cnfgen', sub, [], host + b + ['save', 'g.gml', m1] +
                           legal.get(m1, ['1']))
        # save, then an error later in the command line: no formula may appear
        b = MOD_BASES[gt][0]
        yield case(fam, 'cnfgen', sub, ['-of', 'opb'], host + b + ['save', 'g.gml', 'bogus'])


def gen_files(tier, F):
    """input files and stdin for every reader"""
    cons, mods, fmts = grammar_tables()
    fam = 'files'
    # cnfgen dimacs / pbgen dimacs
    for tool in ('cnfgen', 'pbgen'):
        for kind in FILE_KINDS:
            p = '{FX}/f_%s.cnf' % kind
            for main in ([], ['-of', 'latex'], ['-q']):
                yield case(fam, tool, 'dimacs', main, ['dimacs', p], core=(main == []))
            yield case(fam, tool, 'dimacs', [], ['dimacs', p, '-T', 'xor', '2'][:5 if tool == 'cnfgen' else 2])
        for kind in STDIN_KINDS:
            yield case(fam, tool, 'dimacs', [], ['dimacs'], stdin='cnf:' + kind, core=True)
            yield case(fam, tool, 'dimacs', [], ['dimacs', '-'], stdin='cnf:' + kind)
            yield case(fam, tool, 'dimacs', ['-of', 'opb'], ['dimacs'], stdin='cnf:' + kind)
            if kind in ('valid', 'empty', 'crlf'):
                # the formula arrives on a real pipe (not seekable) and leaves in
                # every output format: run as real processes
                for sel in (['-of', 'latex'], ['-l'], ['-o', 'o.tex'], ['-o', 'o.opb'],
                            ['-of', 'latex', '--varnames'], ['-q', '-of', 'latex']):
                    yield case(fam, tool, 'dimacs', sel, ['dimacs'], stdin='cnf:' + kind, core=True)
                    yield case(fam, tool, 'dimacs', sel, ['dimacs', '-', '-T', 'flip'],
                               stdin='cnf:' + kind, core=(kind == 'valid'))
        yield case(fam, tool, 'dimacs', [], ['dimacs', '{FX}/f_valid.cnf', '{FX}/f_valid.cnf'])
    # graph files
    for gt in ('simple', 'dag', 'bipartite'):
        host = HOST[gt]
        sub = 'graphfile:' + gt
        for f in fmts[gt]:
            if (gt, f) not in GRAPH_VALID:
                continue
            for kind in FILE_KINDS:
                p = '{FX}/%s_%s.%s' % (gt, kind, f)
                yield case(fam, 'cnfgen', sub, [], host + [p], core=(kind in ('dir', 'unread', 'empty')))
                yield case(fam, 'cnfgen', sub, [], host + [f, p])
                yield case(fam, 'cnfgen', sub, ['-of', 'opb'], host + [f, p])
                yield case(fam, 'cnfgen', sub, [], host + [f, p, 'save', 'g.' + f])
            for kind in STDIN_KINDS:
                yield case(fam, 'cnfgen', sub, [], host + [f, '-'],
                           stdin='%s/%s:%s' % (gt, f, kind), core=(kind in ('empty', 'valid')))
            # a file of another type / another format read with this format
            for (gt2, f2) in sorted(GRAPH_VALID):
                if (gt2, f2) != (gt, f):
                    yield case(fam, 'cnfgen', sub, [], host +
                               [f, '{FX}/%s_valid.%s' % (gt2, f2)])
        yield case(fam, 'cnfgen', sub, [], host + ['-'], stdin='%s/kthlist:valid' % gt)
        yield case(fam, 'cnfgen', sub, [], host + ['{FX}/simple_valid.txt'])
        yield case(fam, 'cnfgen', sub, [], host + ['{FX}/simple_valid'])
        yield case(fam, 'cnfgen', sub, [], host + ['kthlist', '{FX}/simple_valid.txt'])
        yield case(fam, 'cnfgen', sub, [], host + ['kthlist'])
        yield case(fam, 'cnfgen', sub, [], host + ['{FX}/f_dir.cnf'])
        yield case(fam, 'cnfgen', sub, [], host + ['{FX}'])
        # missing files whose names contain characters special to format strings
        for nm in ('graph{1}.gml', 'g{}.kthlist', 'p{a}%s.matrix', '{0}', '%(x)s.dot'):
            yield case(fam, 'cnfgen', sub, [], host + [nm], core=(nm == 'graph{1}.gml'))
    # every graph sub-command reading each valid / empty / directory file
    for d in F:
        gt = graph_type(d)
        if gt is None or any(k[0] == 'star' for k in d['pos']) and d['name'] not in COMPOSITE_GRAPH:
            continue
        name = d['name']
        nnum = sum(1 for k in d['pos'] if k[0] == 'num')
        pre = COMPOSITE_PREFIX.get(name, [[]])[0] if any(k[0] == 'star' for k in d['pos']) else ['2'] * nnum
        for f in fmts[gt]:
            if (gt, f) not in GRAPH_VALID:
                continue
            for kind in ('valid', 'empty', 'dir', 'trunc', 'novertices'):
                # failures of the reader are keyed on the reader, failures
                # of the family on the exception site (see judge)
                yield case(fam, 'cnfgen', 'graphfile:' + gt, [], [name] + pre +
                           [f, '{FX}/%s_%s.%s' % (gt, kind, f)])
            if any(k[0] == 'star' for k in d['pos']):
                for pre2 in COMPOSITE_PREFIX.get(name, [[]])[1:]:
                    for tool in ('cnfgen', 'pbgen'):
                        yield case(fam, tool, 'graphfile:' + gt, [], [name] + pre2 +
                                   [f, '{FX}/%s_novertices.%s' % (gt, f)])
            yield case(fam, 'pbgen', 'graphfile:' + gt, [], [name] + pre +
                       [f, '{FX}/%s_novertices.%s' % (gt, f)])


def gen_transformations(tier, T):
    thorough = tier == 'thorough'
    fam = 'transformations'
    base = ['php', '3', '2']
    for d in T:
        name, a = d['name'], d['arity']
        sub = 'T:' + name
        gt = graph_type(d)
        alpha = A8 if (thorough or a <= 1) else A6
        for w in words(alpha, 0, a):
            yield case(fam, 'cnfgen', sub, [], base + ['-T', name] + w)
        for w in words(A8 if thorough else A3, a + 1, a + 1):
            yield case(fam, 'cnfgen', sub, [], base + ['-T', name] + w)
        if gt:
            for s in SPECS[gt] + [['glrd', '6', '3', '2'], ['complete', '6', '2'],
                                  ['glrd', '6', '6', '3'], ['x'],
                                  ['kthlist', '{FX}/bipartite_valid.kthlist'],
                                  ['{FX}/bipartite_empty.matrix'],
                                  ['{FX}/bipartite_dir.gml']]:
                yield case(fam, 'cnfgen', sub, [], base + ['-T', name] + s)
            for w in [['3'], ['6'], ['7'], ['3', '3'], ['6', '2'], ['6', '3'],
                      ['6', '6'], ['6', '7'], ['7', '3'], ['2', '3']]:
                yield case(fam, 'cnfgen', sub, [], base + ['-T', name] + w)
        for (strings, kind) in d['opts']:
            for s in strings:
                yield case(fam, 'cnfgen', sub, [], base + ['-T', name, s] + ['2'] * a)
        for o in (['-h'], ['--help'], ['--bogus']):
            yield case(fam, 'cnfgen', sub, [], base + ['-T', name] + o + ['2'] * a)
            yield case(fam, 'cnfgen', sub, ['-of', 'opb'], base + ['-T', name] + ['2'] * a + o)
        # the error of a transformation under every output format: no formula
        for sel in (['-of', 'opb'], ['-of', 'latex'], ['-o', 'o.cnf'], ['-o', 'o.tex']):
            yield case(fam, 'cnfgen', sub, sel, base + ['-T', name] + ['2'] * a)
            yield case(fam, 'cnfgen', sub, sel, base + ['-T', name] + ['7'] * a)
            yield case(fam, 'cnfgen', sub, sel, base + ['-T', name] + ['x'] * (a + 1))
        # on degenerate formulas
        for b in (['true'], ['false'], ['or', '0', '0'], ['and', '0', '0'], ['or', '1', '1']):
            yield case(fam, 'cnfgen', sub, [], b + ['-T', name] + ['2'] * a)
            if a:
                yield case(fam, 'cnfgen', sub, [], b + ['-T', name] + ['1'] * a)
                yield case(fam, 'cnfgen', sub, [], b + ['-T', name] + ['3'] + ['2'] * (a - 1))
    names = [d['name'] for d in T]
    ar = {d['name']: d['arity'] for d in T}
    for t1 in names:
        for t2 in names:
            if not thorough and not (t1 <= t2):
                continue
            yield case(fam, 'cnfgen', 'T:chain', [], ['or', '1', '1', '-T', t1] +
                       ['2'] * ar[t1] + ['-T', t2] + ['2'] * ar[t2])
    for junk in (['-T'], ['-T', '-T'], ['-T', 'bogus'], ['-T', 'bogus', '2'],
                 ['-T', ''], ['-T', 'xo'], ['-T', 'xor', '2', '-T'],
                 ['-T', 'xor', '-T', 'xor', '2'], ['-T', '2'], ['-T', '-h'],
                 ['-T', '--help'], ['-T', 'xor', '2', 'php', '2', '1']):
        for sel in ([], ['-of', 'opb'], ['-of', 'latex']):
            yield case(fam, 'cnfgen', 'T:-', sel, base + junk)


def gen_cnfshuffle(tier):
    fam = 'cnfshuffle'
    tool = 'cnfshuffle'
    flags = ['-p', '-v', '-c', '-q']
    subsets = [list(s) for n in range(5) for s in itertools.combinations(flags, n)]
    for kind in FILE_KINDS:
        p = '{FX}/f_%s.cnf' % kind
        for s in (subsets if kind in ('valid', 'trunc') else subsets[:2]):
            yield case(fam, tool, '-', [], s + ['-i', p], core=(s == []))
        yield case(fam, tool, '-', ['-o', 'o.cnf'], ['-i', p])
        yield case(fam, tool, '-', [], ['--input', p, '--seed', 'x'])
    for kind in STDIN_KINDS:
        for s in (subsets if kind == 'valid' else subsets[:2]):
            yield case(fam, tool, '-', [], s, stdin='cnf:' + kind, core=(s == []))
        yield case(fam, tool, '-', [], ['-i', '-'], stdin='cnf:' + kind)
        yield case(fam, tool, '-', ['-o', 'o.cnf'], [], stdin='cnf:' + kind)
    ok = ['-i', '{FX}/f_valid.cnf']
    for t in A8 + ['-x', '--bogus', '-h', '--help', '-T', 'php', '-i', '-o', '-S',
                   '--seed', '--no-polarity-flips', '--no-variables-permutation',
                   '--no-clauses-permutation', '--quiet', '--', '-pvc', '-qq']:
        yield case(fam, tool, '-', [], [t], stdin='cnf:valid')
        yield case(fam, tool, '-', [], ok + [t])
        yield case(fam, tool, '-', [], [t] + ok)
    for v in A8:
        yield case(fam, tool, '-', [], ['-S', v] + ok)
        yield case(fam, tool, '-', [], ['--seed', v], stdin='cnf:valid')
    for o in (['-o', 'nodir/o.cnf'], ['-o', '{FX}/f_dir.cnf'], ['-o', ''],
              ['-o', 'o.opb'], ['-o', 'o.tex'], ['-o', '-']):
        c = case(fam, tool, '-', [], o + ok)
        c['out'] = o[1] if o[1] in ('o.opb', 'o.tex') else None
        yield c
    # special formulas
    for text_kind in ('cnf:valid',):
        yield case(fam, tool, '-', [], ['-i', '{FX}/f_valid.cnf', '-i', '{FX}/f_empty.cnf'])


def gen_kthlist2pebbling(tier, T):
    thorough = tier == 'thorough'
    fam = 'kthlist2pebbling'
    tool = 'kthlist2pebbling'
    for kind in FILE_KINDS:
        p = '{FX}/dag_%s.kthlist' % kind
        yield case(fam, tool, '-', [], ['-i', p], core=True)
        yield case(fam, tool, '-', [], ['-q', '-i', p])
        yield case(fam, tool, '-', ['-o', 'o.cnf'], ['-i', p])
        yield case(fam, tool, '-', [], ['-i', p, 'xor', '2'])
        yield case(fam, tool, '-', [], ['-i', p, 'xor', 'x'])
    for kind in STDIN_KINDS:
        yield case(fam, tool, '-', [], [], stdin='dag/kthlist:' + kind, core=True)
        yield case(fam, tool, '-', [], ['-i', '-'], stdin='dag/kthlist:' + kind)
        yield case(fam, tool, '-', [], ['xor', '2'], stdin='dag/kthlist:' + kind)
    # other graph files are not kthlist
    for (gt, f) in sorted(GRAPH_VALID):
        yield case(fam, tool, '-', [], ['-i', '{FX}/%s_valid.%s' % (gt, f)])
    ok = ['-i', '{FX}/dag_valid.kthlist']
    for t in A8 + ['-x', '--bogus', '-h', '--help', '-T', 'php', '-i', '-o',
                   '--quiet', '--', 'bogus', 'xo']:
        yield case(fam, tool, '-', [], [t], stdin='dag/kthlist:valid')
        yield case(fam, tool, '-', [], ok + [t])
        yield case(fam, tool, '-', [], [t] + ok)
    for d in T:
        name, a = d['name'], d['arity']
        sub = 'T:' + name
        for w in words(A8 if (thorough or a <= 1) else A3, 0, a):
            yield case(fam, tool, sub, [], ok + [name] + w)
        for w in words(A3 if thorough else A2, a + 1, a + 1):
            yield case(fam, tool, sub, [], ok + [name] + w)
        yield case(fam, tool, sub, [], ok + [name, '-h'])
        # arguments argparse accepts and the transformation itself may refuse:
        # the tool's own error path, in a process of its own (in-process the
        # parsers of the other tools have been built before)
        yield case(fam, tool, sub, [], ok + [name] + ['4'] * a, core=True)
        yield case(fam, tool, sub, [], ['-i', '{FX}/dag_empty.kthlist', name] + ['2'] * a, core=True)
        if a == 2:
            yield case(fam, tool, sub, [], ok + [name, '2', '3'], core=True)
            yield case(fam, tool, sub, [], ok + [name, '3', '7'], core=True)
        if graph_type(d):
            for s in SPECS['bipartite'][:4] + [['glrd', '3', '2', '1'], ['x']]:
                yield case(fam, tool, sub, [], ok + [name] + s)
    for o in (['-o', 'nodir/o.cnf'], ['-o', '{FX}/f_dir.cnf'], ['-o', '']):
        yield case(fam, tool, '-', [], o + ok)


def gen_extra(tier, seed, F, T):
    """a few mid-size vectors rotated by the seed (appended to the core)"""
    n = 4 + (int(seed) % 2)
    m = n + 1 + (int(seed) // 2) % 2
    for d in F:
        gt = graph_type(d)
        name = d['name']
        if gt is None:
            for vals in ([n] * d['arity'], [m, n, 2, 2, 2][:d['arity']],
                         [n, m, 3, 3, 4][:d['arity']]):
                yield case('extra', 'cnfgen', name, [], [name] + [str(v) for v in vals])
        elif not any(k[0] == 'star' for k in d['pos']):
            nnum = sum(1 for k in d['pos'] if k[0] == 'num')
            spec = {'simple': ['gnp', str(m), '.5'], 'dag': ['pyramid', '3'],
                    'bipartite': ['glrd', str(m), str(n), '2']}[gt]
            yield case('extra', 'cnfgen', name, [], [name] + ['2'] * nnum + spec)
            yield case('extra', 'cnfgen', name, [], [name] + ['3'] * nnum + spec)
        else:
            yield case('extra', 'cnfgen', name, [], [name, str(m)])
            yield case('extra', 'cnfgen', name, [], [name, str(2 * n), '3'])
            yield case('extra', 'cnfgen', name, [], [name, str(m), str(n)])
    for d in T:
        yield case('extra', 'cnfgen', 'T:' + d['name'], [],
                   ['php', str(n), '3', '-T', d['name']] + ['3', '2'][:d['arity']])


LARGE_COMMANDS = [['and', '35', '0'], ['and', '36', '0'], ['and', '35', '1'], ['and', '70', '1'],
                  ['and', '1025', '0'], ['php', '20', '18'], ['php', '6', '5', '--functional'],
                  ['op', '6'], ['kcolor', '3', 'grid', '4', '4'], ['parity', '9'],
                  ['php', '5', '4', '-T', 'xor', '2'], ['tseitin', 'first', 'grid', '4', '5']]
LARGE_SELECTORS = [['-of', 'dimacs'], ['-of', 'opb'], ['-of', 'latex'], ['-l'], ['-o', 'o.tex'],
                   ['-o', 'o.opb'], ['--varnames', '-of', 'latex'], ['-q', '-of', 'latex'],
                   ['--varnames', '-of', 'opb']]


def gen_large_outputs(tier):
    """formulas with more rows than a LaTeX page (35) or a writer block
    (1024), in every output format of both tools"""
    for tool in ('cnfgen', 'pbgen'):
        for sel in LARGE_SELECTORS:
            if tool == 'pbgen' and sel[:2] == ['-of', 'dimacs']:
                continue
            for cmd in LARGE_COMMANDS:
                if tool == 'pbgen' and '-T' in cmd:
                    continue
                yield case('large-output', tool, cmd[0], sel, cmd, core=True)


def all_cases(tier, seed):
    """the complete, ordered, duplicate-free list of cases of a tier"""
    F, T = registry()
    gens = [gen_large_outputs(tier), gen_main(tier, F), gen_tokens(tier, F), gen_box(tier, F),
            gen_graph_hosts(tier, F),
            gen_options(tier, F), gen_formats(tier, F),
            gen_graph_grammar(tier), gen_files(tier, F),
            gen_transformations(tier, T), gen_tokens(tier, F, 'pbgen'),
            gen_cnfshuffle(tier), gen_kthlist2pebbling(tier, T),
            gen_extra(tier, seed, F, T)]
    seen = {}
    out = []
    for g in gens:
        for c in g:
            k = (c['tool'], tuple(c['args']), c['stdin'])
            if k in seen:
                if c['core']:
                    seen[k]['core'] = True
                continue
            seen[k] = c
            out.append(c)
    return out


# =========================================================================
# oracle
# =========================================================================
def accept_formula(text, fmt):
    """None when the strict reader of `fmt` accepts `text`, else a short
    (kind, detail)."""
    from ref import c06_dimacs_ref, c12_readers
    if fmt == 'dimacs':
        O = c06_dimacs_ref.classify_output(text)
        if O.problems:
            return O.problems[0]
        P = c06_dimacs_ref.parse(text)
        if not P.ok:
            return (P.primary() or P.issues[0], '')
        if (P.n, P.m) != (O.n, O.m) or len(O.clauses) != O.m:
            return ('clause-count', 'header %r, %d clause lines' % ((O.n, O.m), len(O.clauses)))
        return None
    if fmt == 'opb':
        try:
            c12_readers.read_opb(text)
        except c12_readers.FormatError as e:
            return (e.kind, e.message[:120])
        return None
    if fmt == 'latex':
        try:
            doc = c12_readers.read_latex_document(text)
        except c12_readers.FormatError as e:
            return (e.kind, e.message[:120])
        rows = sum(0 if b == 'top' else len(b) for b in doc['blocks'])
        if doc['counts'] is not None and doc['counts'][1] != rows:
            return ('latex-count', 'document announces %d, body has %d rows'
                    % (doc['counts'][1], rows))
        return None
    raise KeyError(fmt)


_TAG = re.compile(r'^([A-Z][A-Z ]*[A-Z])\b')


def line_shielded(line, fmt):
    m = MARK[fmt]
    return line == m or line.startswith(m + ' ')


def _graph_layer(where):
    return where[0].startswith('clitools/graph_') or where[0] == 'graphs.py'


def _no_formula(sub, detail, o, probe):
    """exit status 0 without a formula.  When nothing at all was printed,
    main() has swallowed an exception: `probe()` re-runs the command line
    through cli() (the function main() wraps) to name it."""
    if probe is not None and o.stdout == '' and o.stderr == '':
        q = probe()
        if q is not None and q.exc is not None:
            s = 'graphspec' if _graph_layer(q.exc_where) else sub
            return (s, 'exit0:swallowed:%s@%s' % (q.exc, q.exc_where[1]),
                    'exit status 0, nothing on stdout/stderr: main() swallowed %s: %s (in %s)'
                    % (q.exc, q.exc_msg[:120], '/'.join(q.exc_where)))
    return (sub, 'exit0:no-formula', detail)


def judge(c, o, stage='parse', probe=None):
    """(class, [(sub-for-key, symptom, detail)]) for the outcome of a case."""
    fmts = c['fmt']
    sub = c['sub']
    bad = []
    if o.timeout:
        return 'timeout', []
    if o.exc is not None:
        where = o.exc_where
        s = sub
        if _graph_layer(where):
            s = 'graphspec'
        elif where[0].startswith('transformations/') and not sub.startswith('T:'):
            s = 'transformation'
        bad.append((s, 'exception:%s@%s' % (o.exc, where[1]),
                    '%s: %s (in %s)' % (o.exc, o.exc_msg[:160], '/'.join(where))))
        return 'violation', bad
    if 'Traceback (most recent call last)' in o.stderr:
        bad.append((sub, 'traceback-on-stderr', o.stderr[-200:]))
        return 'violation', bad
    helpish = any(t in HELP_TOKENS or
                  (len(t) > 3 and t.startswith('--') and
                   any(h.startswith(t) for h in HELP_TOKENS))
                  for t in c['args'])
    if o.exit == 0:
        out = c['out']
        if out is not None and out in o.files and not (helpish and o.stdout):
            text = o.files[out]
            why = None
            for f in fmts:
                why = accept_formula(text, f)
                if why is None:
                    break
            if why is None and o.stdout == '':
                return 'success:file:' + f, []
            if why is None:
                bad.append((sub, 'success:stdout-not-empty-with-o', o.stdout[:120]))
                return 'violation', bad
            if text == '':
                bad.append(_no_formula(sub, 'exit status 0, output file empty, '
                                       'stdout %r stderr %r' % (o.stdout[:80], o.stderr[:120]),
                                       o, probe))
            else:
                bad.append((sub, 'formula-rejected:%s:%s' % (fmts[0], why[0]), why[1]))
            return 'violation', bad
        text = o.stdout
        why = None
        for f in fmts:
            why = accept_formula(text, f)
            if why is None:
                return 'success:stdout:' + f, []
        if helpish and text.strip():
            return 'help', []
        if text == '':
            bad.append(_no_formula(sub, 'exit status 0 and nothing on stdout; '
                                   'stderr %r' % o.stderr[:160], o, probe))
        else:
            bad.append((sub, 'formula-rejected:%s:%s' % (fmts[0], why[0]),
                        '%s | stdout starts %r' % (why[1], text[:80])))
        return 'violation', bad
    # ---- exit status != 0: must be a clean, shielded command line error ----
    if o.stdout != '':
        looks = any(l.startswith(('p cnf ', '* #variable', '\\documentclass', '\\begin',
                                  'c description', '* description', '% description'))
                    or re.match(r'^(-?[0-9]+ )+0$', l)
                    for l in o.stdout.split('\n'))
        bad.append((sub, 'error:partial-formula-on-stdout' if looks else
                    'error:text-on-stdout', 'exit %s with stdout %r'
                    % (o.exit, o.stdout[:120])))
    for name, text in sorted(o.files.items()):
        if name == c['out'] and text != '':
            bad.append((sub, 'error:partial-output-file', 'exit %s, %s holds %r'
                        % (o.exit, name, text[:80])))
    lines = o.stderr.split('\n')
    if lines and lines[-1] == '':
        lines.pop()
    if not lines:
        bad.append((sub, 'error:silent', 'exit %s and nothing on stderr' % o.exit))
    else:
        okfmt = [f for f in fmts if all(line_shielded(l, f) for l in lines)]
        if not okfmt:
            others = [f for f in MARK if f not in fmts and
                      all(line_shielded(l, f) for l in lines)]
            if others:
                bad.append(('*', 'error-prefix:%s-stage:want=%s:got=%s'
                            % (stage, '|'.join(fmts), others[0]),
                            'every line of the message starts with %r, the chosen '
                            'format is %s; first line %r'
                            % (MARK[others[0]] + ' ', '|'.join(fmts), lines[0][:100])))
            else:
                first = [l for l in lines if not any(line_shielded(l, f) for f in fmts)][0]
                m = _TAG.match(first)
                tag = m.group(1) if m else ('' if first else 'empty-line')
                nshield = sum(1 for l in lines if any(line_shielded(l, f) for f in fmts))
                s = sub if c['tool'] in ('cnfgen', 'pbgen') else '-'
                bad.append((s, 'error-unshielded:' + tag.replace(' ', '_'),
                            '%d of %d stderr lines lack the comment marker %r; first: %r'
                            % (len(lines) - nshield, len(lines), MARK[fmts[0]] + ' ', first[:100])))
    return ('violation', bad) if bad else ('cli-error', [])


def public_case(c, how):
    return {'tool': c['tool'], 'sub': c['sub'], 'args': c['args'],
            'stdin': c['stdin'], 'fmt': c['fmt'], 'out': c['out'],
            'fam': c['fam'], 'how': how}


def violations_of(c, verdicts):
    """verdicts: {how: (class, bad)} -> list of violation dicts"""
    merged = {}
    for how, (cls, bad) in sorted(verdicts.items()):
        for (s, symptom, detail) in bad:
            key = '%s:%s:%s' % (c['tool'], s, symptom)
            merged.setdefault(key, [detail, []])[1].append(how)
    out = []
    for key, (detail, hows) in sorted(merged.items()):
        how = '+'.join(hows)
        cmd = ' '.join([c['tool']] + [repr(a) if (a == '' or ' ' in a) else a
                                      for a in c['args']])
        what = '`%s`%s [%s]: %s' % (cmd, '' if c['stdin'] == 'none' else
                                    ' <stdin:%s' % c['stdin'], how, detail)
        out.append({'key': key, 'what': what, 'case': public_case(c, how)})
    return out


def cli_probe(c, sandbox):
    """lazy, memoised in-process run of cli() (not main()) for a case"""
    memo = []

    def probe():
        if not memo:
            from engine import cli
            saved = list(STAGE)
            memo.append(cli.run_inproc(c['tool'], c['args'], stdin_bytes(c['stdin']),
                                       sandbox, entry='cli'))
            STAGE[:] = saved
        return memo[0]
    return probe


def execute(c, sandbox, process=False):
    from engine import cli
    data = stdin_bytes(c['stdin'])
    if process:
        return cli.run_process(c['tool'], c['args'], data, sandbox)
    del STAGE[:]
    return cli.run_inproc(c['tool'], c['args'], data, sandbox)


# =========================================================================
# shards
# =========================================================================
NSHARDS = {'quick': 64, 'thorough': 64}
PROCESS_TARGET = {'quick': 300, 'thorough': 2000}


def shards(tier, seed):
    n = NSHARDS.get(tier, 48)
    return [('slice%02d' % k, 'run_slice',
             {'tier': tier, 'seed': seed, 'k': k, 'n': n}) for k in range(n)]


def run_slice(args, R):
    from engine import cli
    preload()
    tier = args['tier']
    cases = all_cases(tier, args['seed'])
    total = len(cases)
    ncore = sum(1 for c in cases if c['core'])
    stride = max(1, total // max(1, PROCESS_TARGET.get(tier, 300) - ncore))
    stride |= 1     # odd: the selected indices visit all slices evenly
    k, n = args['k'], args['n']
    if k == 0:
        R.stats['cases_total'] += total
        fams = {}
        for c in cases:
            fams[c['fam']] = fams.get(c['fam'], 0) + 1
        for f, v in fams.items():
            R.stats['cases_family_' + f] += v
    with cli.Sandbox(fixtures()) as sb:
        for i in range(k, total, n):
            c = cases[i]
            o = execute(c, sb)
            stage = stage_reached()
            R.stats['inproc_calls'] += 1
            R.stats['stage_' + stage] += 1
            probe = cli_probe(c, sb)
            verdicts = {'inproc': judge(c, o, stage, probe)}
            if c['core'] or i % stride == 0:
                p = execute(c, sb, process=True)
                R.stats['process_calls'] += 1
                verdicts['process'] = judge(c, p, stage, probe)
                agree = (o.exit == p.exit and o.exc == p.exc and
                         verdicts['inproc'][0] == verdicts['process'][0] and
                         [b[:2] for b in verdicts['inproc'][1]] ==
                         [b[:2] for b in verdicts['process'][1]])
                viol = verdicts['inproc'][0].startswith('violation') or \
                    verdicts['process'][0].startswith('violation') or \
                    verdicts['inproc'][1] or verdicts['process'][1]
                if not agree and viol:
                    # the real process is the behaviour a user sees (real pipes,
                    # real exit status): both verdicts are reported below
                    R.stats['process_differs_from_inproc_with_violation'] += 1
                elif not agree:
                    raise RuntimeError(
                        'in-process and out-of-process runs of %r disagree: %r / %r'
                        % (c, (o.brief(), verdicts['inproc']),
                           (p.brief(), verdicts['process'])))
                R.stats['process_agrees_with_inproc'] += 1
                if o.stdout == p.stdout and o.stderr == p.stderr:
                    R.stats['process_output_identical'] += 1
            account(c, o, verdicts, R)
            R.extend(violations_of(c, verdicts))


def account(c, o, verdicts, R):
    cls = verdicts['inproc'][0]
    R.case(sample=None, nontrivial=bool(c['args']))
    if len(R.samples) < R.MAX_SAMPLES and cls.startswith('success'):
        R.samples.append({'argv': [c['tool']] + c['args'], 'class': cls})
    if cls == 'timeout':
        R.stats['cap_hit'] += 1
        R.stats['timeouts'] += 1
    top = cls.split(':')[0]
    R.outcomes['%s:%s' % (c['tool'], top)] += 1
    R.outcomes['family:%s:%s' % (c['fam'], top)] += 1
    if top == 'success':
        _, where, fmt = cls.split(':')
        R.stats['accepted_' + fmt] += 1
        if where == 'file':
            R.stats['accepted_output_file'] += 1
        if c['fam'] == 'files' and c['sub'].startswith('graphfile'):
            R.stats['graph_files_read_ok'] += 1
    elif top in ('cli-error', 'violation') and o.exit not in (0, None):
        R.stats['error_lines_checked'] += o.stderr.count('\n')
    if o.exc:
        R.outcomes['exception:' + o.exc] += 1


# =========================================================================
# replay
# =========================================================================
def replay(case_):
    from engine import cli
    preload()
    c = dict(case_)
    c.setdefault('core', False)
    hows = c.get('how', 'inproc').split('+')
    verdicts = {}
    with cli.Sandbox(fixtures()) as sb:
        o = execute(c, sb)        # always: tells the stage reached
        stage = stage_reached()
        probe = cli_probe(c, sb)
        if 'inproc' in hows:
            verdicts['inproc'] = judge(c, o, stage, probe)
        if 'process' in hows:
            verdicts['process'] = judge(c, execute(c, sb, process=True), stage, probe)
    return violations_of(c, verdicts)
