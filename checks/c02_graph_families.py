"""C02  Graph-problem families are satisfiable exactly when the graph has the
property.

Every labelled simple graph of a small scope (all edge sets on 0..5 vertices,
6 in the thorough tier where the variable count allows) is crossed with every
parameter value of every family and the formula built by the real generator
is evaluated on ALL 2^n assignments (engine.tt bitmaps).  Three independent
things must agree:

  (a) the model bitmap of the produced formula,
  (b) the bitmap of the documented meaning, stated on the *published variable
      names* (ref.sem.Sem over all_variable_labels()),
  (c) brute-force facts about the graph computed by plain Python loops over
      the combinatorial objects themselves (components and charge parity,
      proper colourings, balanced edge splits, dominating sets, tilings,
      isomorphisms, embeddings, cliques, independent sets): satisfiability
      and, where the documented variables are exactly the witness, the number
      of witnesses.

(a)==(b) is the "model-set" symptom, (a) vs (c) the "sat" / "count" /
"projection" symptoms.  (b) vs (c) cross-validates the harness itself.
"""
import itertools
import os
from functools import lru_cache
from math import factorial

from engine import tt, scope
from engine.common import setup_paths
from ref.sem import Sem

PROPERTY = 'C02'
SECOND_PASS = ('run_stripe',)    # see engine/common._run_shard
LEVEL = 'exploration'
EXHAUSTIVE = True
RULE = ('every labelled simple graph with 0..5 vertices crossed with every parameter value of '
        'every family whose formula has <= 20 variables (thorough: <= 22, plus all graphs on 6 '
        'vertices for the families with <= 19 variables and all ordered isomorphism pairs up to '
        '5x4 / 5x5-class-representatives): Tseitin x all 2^n charge vectors + default / short / '
        'long / tuple / integer / non-numeric charge lists; k-colouring k in 0..3(4) x functional; '
        'even colouring on every graph (ValueError demanded on odd degrees); dominating set '
        'd in 0..3(4) x alternative; tiling; isomorphism for all ordered pairs of graphs with <= 4 '
        'vertices x nontrivial; automorphism; subgraph G<=4(5) x H<=3(4) x induced x symbreak '
        '(symmetric H only); k-clique k in 0..4(5) x symbreak; binary k-clique k in 0..3(4) x '
        'symbreak on orders 0..5(6); Ramsey witness (k,s) in [0..3]^2 ([0..4]^2, n(k+s) <= 30) x symbreak; '
        'variants OPB class / networkx input / reversed edge insertion on graphs with <= 3(4) '
        'vertices.  Each instance is evaluated on all 2^n assignments; it is non-trivial when it '
        'has at least one variable and one constraint; instances are distinct by construction '
        '(each tuple enumerated once)')
ASSUMPTIONS = [
    'bounded scope: graphs with <= 5 vertices (6 in the thorough tier where the formula has '
    '<= 19 variables), formulas with <= 20 (22) variables, parameters <= 3 (4)',
    'variable meaning is taken from the published names (all_variable_labels); the Ramsey '
    'witness variables are undocumented, so only satisfiability is judged there',
    'the reference predicates and brute-force graph oracles of checks/c02 are the documented '
    'meaning (they are cross-checked against each other on every case)',
    'symmetry breaking of SubgraphFormula is documented only for symmetric H (complete or '
    'empty): other H are not combined with symbreak',
    'formulas with more than 22 variables (automorphism / isomorphism on 5 vertices, thorough) '
    'are enumerated by the exhaustive backtracking enumerator of engine.tt instead of a bitmap',
]
VACUITY = {'sat_instances': 2000, 'unsat_instances': 2000,
           'documented_error_raised': 50,
           'family:tseitin': 1000, 'family:kcolor': 100, 'family:ec': 100,
           'family:domset': 100, 'family:tiling': 100, 'family:iso': 100,
           'family:auto': 50, 'family:subgraph': 100, 'family:kclique': 100,
           'family:kcliquebin': 100, 'family:ramsey': 100,
           'cls:OPB': 100, 'src:nx': 100, 'src:rev': 100}
ENGINE = 'tt+scope'
TECHNIQUE = ('bounded exhaustive model checking of the generators: every graph of a small '
             'scope x every parameter value x all 2^n assignments, compared with a reference '
             'predicate on named atoms and with brute-force graph oracles')
LEVEL_TEXT = ('Every labelled simple graph of the stated scope and every parameter tuple is fed '
              'to the real generator; the complete model set (all 2^n assignments, bit-parallel) '
              'is compared with the documented meaning stated on the published variable names, '
              'and satisfiability / witness counts / projections are compared with brute-force '
              'enumeration of the graph objects. Exhaustive inside the scope; nothing is sampled.')
LEVEL_NOTE = ('Trusted: the reference predicates and graph oracles of checks/c02 (cross-checked '
              'against each other on every case) and engine/tt. Not covered: graphs beyond the '
              'scope; the Ramsey-witness variables are undocumented, so only its satisfiability '
              'is judged.')

BITMAP_LIMIT = 22


def tune_malloc():
    """Truth tables of 18..22 variables are Python ints of 32..512 KiB; glibc
    serves such blocks with mmap/munmap (one page-fault storm per temporary).
    Raising the mmap/trim thresholds keeps them on the heap: 3x faster, no
    effect on any verdict."""
    try:
        import ctypes
        libc = ctypes.CDLL('libc.so.6')
        libc.mallopt(-3, 1 << 30)     # M_MMAP_THRESHOLD
        libc.mallopt(-1, 1 << 30)     # M_TRIM_THRESHOLD
    except Exception:
        pass


def preload():
    setup_paths()
    tune_malloc()
    import cnfgen  # noqa
    import networkx  # noqa


# ===================================================================== graphs
def E(case, key='E'):
    return tuple(sorted((min(u, v), max(u, v)) for u, v in case[key]))


def mk_input_graph(n, edges, src):
    """The graph object handed to the generator.
    cnfgen: cnfgen.Graph, edges added as (u<v) in sorted order;
    rev   : cnfgen.Graph, edges added as (v,u) in reverse order;
    nx    : networkx.Graph whose nodes are 10,20,..,10n (inserted in reverse
            order); Graph.normalize documents that the sorted order of the
            labels is kept, i.e. node 10*i becomes vertex i."""
    if src == 'nx':
        import networkx
        G = networkx.Graph()
        for v in range(n, 0, -1):
            G.add_node(10 * v)
        for u, v in reversed(edges):
            G.add_edge(10 * v, 10 * u)
        return G
    if src == 'nxt':
        # networkx graph with tuple labels (what networkx's own grid generators
        # give), coordinates with one and two digits: the documented order of
        # non-numeric labels is their sorted order, (0, 9) before (0, 10)
        import networkx
        G = networkx.Graph()
        lab = {v: (0, 7 + v) for v in range(1, n + 1)}
        for v in range(n, 0, -1):
            G.add_node(lab[v])
        for u, v in reversed(edges):
            G.add_edge(lab[v], lab[u])
        return G
    if src == 'rev':
        from cnfgen.graphs import Graph
        G = Graph(n)
        for u, v in reversed(edges):
            G.add_edge(v, u)
        return G
    if src == 'grown':
        # a graph object with a history: created smaller, grown by two (or
        # more) vertices in one step, an extra edge added and removed again
        from cnfgen.graphs import Graph
        G = Graph(max(0, n - 2) if len(edges) % 2 else 0)     # grown by two, or from nothing
        G.update_vertex_number(n)
        if n >= 2:
            G.add_edge(1, n)
        for u, v in edges:
            G.add_edge(u, v)
        if n >= 2 and (1, n) not in edges:
            G.remove_edge(n, 1)
        return G
    return scope.mk_graph(n, edges)


@lru_cache(maxsize=4096)
def adj_of(n, edges):
    return scope.adjacency(n, edges)


@lru_cache(maxsize=4096)
def edgeset_of(n, edges):
    s = set()
    for u, v in edges:
        s.add((u, v))
        s.add((v, u))
    return frozenset(s)


# ------------------------------------------------ brute-force graph oracles --
def tseitin_oracle(n, edges, eff):
    comps = scope.components(n, edges)
    sat = all(sum(1 for v in comp if eff[v - 1]) % 2 == 0 for comp in comps)
    return sat, (1 << (len(edges) - n + len(comps))) if sat else 0


@lru_cache(maxsize=4096)
def count_colourings(n, edges, k, functional):
    """number of maps vertex -> colour (functional) / vertex -> non-empty set
    of colours with adjacent vertices receiving different colours / disjoint
    sets; vertices are coloured one after the other, a choice is kept only if
    it is disjoint from the choices of the earlier neighbours."""
    if functional:
        choices = [1 << c for c in range(k)]
    else:
        choices = list(range(1, 1 << k))
    earlier = [[u for (u, w) in edges if w == v] for v in range(n + 1)]   # u < v
    col = [0] * (n + 1)

    def rec(v):
        if v > n:
            return 1
        tot = 0
        for ch in choices:
            if all(not (col[u] & ch) for u in earlier[v]):
                col[v] = ch
                tot += rec(v + 1)
        col[v] = 0
        return tot
    return rec(1)


@lru_cache(maxsize=4096)
def count_even_splits(n, edges):
    m = len(edges)
    cnt = 0
    for bits in range(1 << m):
        bal = [0] * (n + 1)
        for i, (u, v) in enumerate(edges):
            s = 1 if (bits >> i) & 1 else -1
            bal[u] += s
            bal[v] += s
        if not any(bal):
            cnt += 1
    return cnt


def even_split_closed_form(n, edges):
    """documented: satisfiable only (and, by Euler tours, exactly) when every
    connected component has an even number of edges."""
    for comp in scope.components(n, edges):
        cs = set(comp)
        if sum(1 for u, v in edges if u in cs) % 2:
            return False
    return True


@lru_cache(maxsize=4096)
def dominating_sets(n, edges):
    """list of (bitmask, size) of all dominating sets"""
    adj = adj_of(n, edges)
    out = []
    for mask in range(1 << n):
        D = {v for v in range(1, n + 1) if (mask >> (v - 1)) & 1}
        if all(v in D or (adj[v] & D) for v in range(1, n + 1)):
            out.append((mask, len(D)))
    return tuple(out)


@lru_cache(maxsize=4096)
def count_tilings(n, edges):
    adj = adj_of(n, edges)
    cnt = 0
    for mask in range(1 << n):
        D = {v for v in range(1, n + 1) if (mask >> (v - 1)) & 1}
        if all(len((adj[v] | {v}) & D) == 1 for v in range(1, n + 1)):
            cnt += 1
    return cnt


@lru_cache(maxsize=4096)
def isomorphisms(n1, e1, n2, e2):
    """all bijections p (as tuples, p[i-1] = image of i) with
    {u,v} in E1 <=> {p(u),p(v)} in E2"""
    if n1 != n2:
        return ()
    s1 = edgeset_of(n1, e1)
    s2 = edgeset_of(n2, e2)
    out = []
    for p in itertools.permutations(range(1, n2 + 1)):
        ok = True
        for u in range(1, n1 + 1):
            for v in range(u + 1, n1 + 1):
                if ((u, v) in s1) != ((p[u - 1], p[v - 1]) in s2):
                    ok = False
                    break
            if not ok:
                break
        if ok:
            out.append(p)
    return tuple(out)


@lru_cache(maxsize=4096)
def embeddings(N, eG, k, eH, induced):
    """(number of injective maps [k]->[N] sending edges of H to edges of G
    (and, if induced, non-edges to non-edges), number of increasing ones)"""
    sG = edgeset_of(N, eG)
    sH = edgeset_of(k, eH)
    tot = inc = 0
    for p in itertools.permutations(range(1, N + 1), k):
        ok = True
        for a in range(1, k + 1):
            for b in range(a + 1, k + 1):
                h = (a, b) in sH
                g = (p[a - 1], p[b - 1]) in sG
                if (h and not g) or (induced and g and not h):
                    ok = False
                    break
            if not ok:
                break
        if ok:
            tot += 1
            if all(p[i] < p[i + 1] for i in range(k - 1)):
                inc += 1
    return tot, inc


@lru_cache(maxsize=4096)
def count_cliques(n, edges, k, complement=False):
    s = edgeset_of(n, edges)
    cnt = 0
    for c in itertools.combinations(range(1, n + 1), k):
        if all((((u, v) in s) != complement) for u, v in itertools.combinations(c, 2)):
            cnt += 1
    return cnt


def is_symmetric(k, eH):
    """every permutation of the vertices is an automorphism: complete or
    empty graph"""
    return len(eH) in (0, k * (k - 1) // 2)


# ====================================================================== build
def formula_class(case):
    from cnfgen.formula.cnf import CNF
    from cnfgen.formula.opb import OPB
    return {'CNF': CNF, 'OPB': OPB}[case.get('cls', 'CNF')]


def tseitin_charges(case):
    ch = case.get('charges')
    if ch is None:
        return None
    ch = [None if c == 'None' else c for c in ch]
    if case.get('ctype') == 'tuple':
        return tuple(ch)
    return list(ch)


_REUSED = {}
CLI_FAMS = ('iso', 'auto', 'ec', 'tiling', 'kclique', 'kcliquebin', 'domset', 'kcolor', 'subgraph')


def build_cli(case):
    """The same case through the command line: the graphs are written to
    files (DIMACS edge format, the graph without vertices included) and the
    sub-command is run in-process; flags select the variants."""
    import inspect
    import random
    import shutil
    import tempfile
    import cnfgen
    import cnfgen.clitools.msg as msgmod
    from cnfgen.clitools.cnfgen import cli
    fam = case['fam']
    d = tempfile.mkdtemp(prefix='c02_')
    try:
        return _build_cli_in(case, fam, d, cli, msgmod)
    finally:
        shutil.rmtree(d, ignore_errors=True)


def _build_cli_in(case, fam, d, cli, msgmod):
    import inspect
    import random
    import cnfgen

    def gfile(name, n, edges):
        path = os.path.join(d, name)
        with open(path, 'w') as f:
            f.write('c graph of the case\np edge %d %d\n' % (n, len(edges)) +
                    ''.join('e %d %d\n' % (u, v) for (u, v) in edges))
        return ['dimacs', path]
    g1 = gfile('g1.txt', case['n'], E(case))
    if fam == 'iso':
        argv = ['iso'] + g1 + ['-e'] + gfile('g2.txt', case['n2'], E(case, 'E2'))
        if case.get('nontrivial'):
            raise Unsupported()
    elif fam == 'auto':
        argv = ['iso'] + g1
    elif fam == 'ec':
        argv = ['ec'] + g1
    elif fam == 'tiling':
        argv = ['tiling'] + g1
    elif fam == 'kclique':
        argv = ['kclique', str(case['k'])] + g1 + ([] if case['symbreak'] else ['--no-symmetry-breaking'])
    elif fam == 'kcliquebin':
        dflt = inspect.signature(cnfgen.BinaryCliqueFormula).parameters['symbreak'].default
        if case['symbreak'] != dflt:
            raise Unsupported()
        argv = ['kcliquebin', str(case['k'])] + g1
    elif fam == 'domset':
        argv = ['domset'] + (['--alternative'] if case['alternative'] else []) + [str(case['d'])] + g1
    elif fam == 'kcolor':
        dflt = inspect.signature(cnfgen.GraphColoringFormula).parameters['functional'].default
        if case['functional'] != dflt or case['k'] < 1:
            raise Unsupported()
        argv = ['kcolor', str(case['k'])] + g1
    elif fam == 'subgraph':
        sig = inspect.signature(cnfgen.SubgraphFormula).parameters
        if case['induced'] != sig['induced'].default or case['symbreak'] != sig['symbreak'].default:
            raise Unsupported()
        argv = ['subgraph', '-G'] + g1 + ['-H'] + gfile('g2.txt', case['n2'], E(case, 'E2'))
    else:
        raise Unsupported()
    st = random.getstate()
    try:
        if hasattr(msgmod, '_prefix'):
            msgmod._prefix = ''
        return cli(['cnfgen', '-q'] + argv, mode='formula')
    finally:
        random.setstate(st)
        if hasattr(msgmod, '_prefix'):
            msgmod._prefix = ''


class Unsupported(Exception):
    """the case has no command line form"""


def build(case):
    import cnfgen
    fc = formula_class(case)
    fam = case['fam']
    src = case.get('src', 'cnfgen')
    if src == 'cli':
        return build_cli(case)
    if src == 'reused' and 'G' not in _REUSED:
        # The graph object was already used: the same generator was run on it
        # when it differed by one edge, then the object was edited through
        # its public interface into the graph of this case.  What is built
        # now must be the formula of the graph as it is now.
        edges = [tuple(e) for e in E(case)]
        n = case['n']
        if edges:
            first, op = edges[:-1], ('add', edges[-1])
        elif n >= 2:
            first, op = [(1, n)], ('remove', (n, 1))     # larger endpoint first
        else:
            first, op = [], None
        G0 = mk_input_graph(n, first, 'cnfgen')
        _REUSED['G'] = G0
        try:
            try:
                build(case)
            except Exception:      # noqa: the first formula is only a past
                pass
            if op is not None:
                if op[0] == 'add':
                    G0.add_edge(op[1][1], op[1][0])
                else:
                    G0.remove_edge(*op[1])
            return build(case)
        finally:
            _REUSED.clear()
    if 'G' in _REUSED:
        src = 'cnfgen'
    if fam in ('iso',):
        G1 = _REUSED['G'] if 'G' in _REUSED else mk_input_graph(case['n'], E(case), src)
        G2 = mk_input_graph(case['n2'], E(case, 'E2'), src)
        if 'nontrivial' in case:
            return cnfgen.GraphIsomorphism(G1, G2, nontrivial=case['nontrivial'], formula_class=fc)
        return cnfgen.GraphIsomorphism(G1, G2, formula_class=fc)
    G = _REUSED['G'] if 'G' in _REUSED else mk_input_graph(case['n'], E(case), src)
    if case.get('flagrepr') == 'int':
        case = dict(case)
        for fl_ in ('functional', 'alternative', 'induced', 'symbreak'):
            if fl_ in case and isinstance(case[fl_], bool):
                case[fl_] = 1 if case[fl_] else 0
    if fam == 'tseitin':
        ch = tseitin_charges(case)
        if ch is None:
            return cnfgen.TseitinFormula(G, formula_class=fc)
        return cnfgen.TseitinFormula(G, ch, formula_class=fc)
    if fam == 'kcolor':
        return cnfgen.GraphColoringFormula(G, case['k'], functional=case['functional'], formula_class=fc)
    if fam == 'ec':
        return cnfgen.EvenColoringFormula(G, formula_class=fc)
    if fam == 'domset':
        return cnfgen.DominatingSet(G, case['d'], alternative=case['alternative'], formula_class=fc)
    if fam == 'tiling':
        return cnfgen.Tiling(G, formula_class=fc)
    if fam == 'auto':
        return cnfgen.GraphAutomorphism(G, formula_class=fc)
    if fam == 'subgraph':
        H = mk_input_graph(case['n2'], E(case, 'E2'), src)
        return cnfgen.SubgraphFormula(G, H, induced=case['induced'], symbreak=case['symbreak'],
                                      formula_class=fc)
    if fam == 'kclique':
        return cnfgen.CliqueFormula(G, case['k'], symbreak=case['symbreak'], formula_class=fc)
    if fam == 'kcliquebin':
        return cnfgen.BinaryCliqueFormula(G, case['k'], symbreak=case['symbreak'], formula_class=fc)
    if fam == 'ramsey':
        return cnfgen.RamseyWitnessFormula(G, case['k'], case['s'], symbreak=case['symbreak'],
                                           formula_class=fc)
    raise KeyError(fam)


# ================================================================== reference
class Expect:
    """What the documentation promises for one case."""
    def __init__(self):
        self.error = None      # None | ('required', types, why) | ('allowed', types, why)
        self.nv = None         # documented number of variables (None: not documented)
        self.ref = None        # function(S) -> bitmap of the documented meaning
        self.sat = None        # brute-force satisfiability
        self.cnt = None        # brute-force number of witnesses (variables == witness)
        self.proj = None       # (list of (prefix, idx) kept, expected bitmap over them)
        self.witnesses = None  # for n > BITMAP_LIMIT: list of sets of true atoms


def mapping_constraints(S, p, k, N, increasing=False):
    """atoms p(i,j), i in [k], j in [N]: a total injective function (strictly
    increasing if asked)"""
    cons = []
    for i in range(1, k + 1):
        cons.append(S.card([S.col(p, i, j) for j in range(1, N + 1)], '==', 1))
    for j in range(1, N + 1):
        cons.append(S.card([S.col(p, i, j) for i in range(1, k + 1)], '<=', 1))
    if increasing:
        for i1 in range(1, k + 1):
            for i2 in range(i1 + 1, k + 1):
                for j1 in range(1, N + 1):
                    for j2 in range(1, j1 + 1):
                        cons.append(S.NOT(S.col(p, i1, j1) & S.col(p, i2, j2)))
    return cons


def embedding_constraints(S, p, k, sH, N, sG, induced):
    cons = []
    for i1 in range(1, k + 1):
        for i2 in range(i1 + 1, k + 1):
            h = (i1, i2) in sH
            for j1 in range(1, N + 1):
                for j2 in range(1, N + 1):
                    if j1 == j2:
                        continue
                    g = (j1, j2) in sG
                    if (h and not g) or (induced and g and not h):
                        cons.append(S.NOT(S.col(p, i1, j1) & S.col(p, i2, j2)))
    return cons


def expectation(case):
    fam = case['fam']
    X = Expect()
    n = case['n']
    edges = E(case)
    m = len(edges)
    adj = adj_of(n, edges)
    es = edgeset_of(n, edges)

    if fam == 'tseitin':
        ch = tseitin_charges(case)
        if ch is None:
            eff = ([True] + [False] * n)[:n]       # odd charge on the first vertex
        else:
            eff = ([bool(c) for c in ch] + [False] * n)[:n]   # bool cast, pad, truncate
        X.nv = m
        X.sat, X.cnt = tseitin_oracle(n, edges, eff)

        def ref(S):
            cons = []
            for v in range(1, n + 1):
                inc = [S.col('E', min(u, v), max(u, v)) for u in sorted(adj[v])]
                cons.append(S.parity(inc, eff[v - 1]))
            return S.AND(cons)
        X.ref = ref

    elif fam == 'kcolor':
        k = case['k']
        fun = case['functional']
        X.nv = n * k
        X.cnt = count_colourings(n, edges, k, fun)
        X.sat = count_colourings(n, edges, k, True) > 0

        def ref(S):
            # published names are x_{<vertex><colour>} (digits concatenated)
            def x(v, c):
                return S.col('x', int('%d%d' % (v, c)))
            cons = []
            for v in range(1, n + 1):
                cons.append(S.card([x(v, c) for c in range(1, k + 1)], '==' if fun else '>=', 1))
            for u, v in edges:
                for c in range(1, k + 1):
                    cons.append(S.NOT(x(u, c) & x(v, c)))
            return S.AND(cons)
        X.ref = ref

    elif fam == 'ec':
        if any(len(adj[v]) % 2 for v in adj):
            X.error = ('required', (ValueError,), 'a vertex has odd degree')
            return X
        X.nv = m
        X.cnt = count_even_splits(n, edges)
        X.sat = even_split_closed_form(n, edges)

        def ref(S):
            cons = []
            for v in range(1, n + 1):
                inc = [S.col('e', min(u, v), max(u, v)) for u in sorted(adj[v])]
                cons.append(S.card(inc, '==', len(inc) // 2))
            return S.AND(cons)
        X.ref = ref

    elif fam == 'domset':
        d = case['d']
        if d < 1:
            X.error = ('allowed', (ValueError,), 'd is documented as a positive int')
        X.nv = n + n * d
        ds = dominating_sets(n, edges)
        X.sat = any(size <= d for _, size in ds)
        X.proj = ([('x', (v,)) for v in range(1, n + 1)],
                  tt.bitmap_from_assignments(mask for mask, size in ds if size <= d))

    elif fam == 'tiling':
        X.nv = n
        X.cnt = count_tilings(n, edges)
        X.sat = X.cnt > 0

        def ref(S):
            cons = []
            for v in range(1, n + 1):
                cons.append(S.card([S.col('x', u) for u in sorted(adj[v] | {v})], '==', 1))
            return S.AND(cons)
        X.ref = ref

    elif fam in ('iso', 'auto'):
        if fam == 'auto':
            n2, e2 = n, edges
            nontrivial = True
        else:
            n2, e2 = case['n2'], E(case, 'E2')
            nontrivial = bool(case.get('nontrivial', False))
        s2 = edgeset_of(n2, e2)
        isos = isomorphisms(n, edges, n2, e2)
        if nontrivial:
            ident = tuple(range(1, n + 1))
            isos = tuple(p for p in isos if p != ident)
        X.nv = n * n2
        X.cnt = len(isos)
        X.sat = X.cnt > 0
        X.witnesses = [frozenset(('x', (i, p[i - 1])) for i in range(1, n + 1)) for p in isos]

        def ref(S):
            cons = []
            for i in range(1, n + 1):
                cons.append(S.card([S.col('x', i, j) for j in range(1, n2 + 1)], '==', 1))
            for j in range(1, n2 + 1):
                cons.append(S.card([S.col('x', i, j) for i in range(1, n + 1)], '==', 1))
            for u1 in range(1, n + 1):
                for u2 in range(u1 + 1, n + 1):
                    a = (u1, u2) in es
                    for v1 in range(1, n2 + 1):
                        for v2 in range(1, n2 + 1):
                            if v1 != v2 and a != ((v1, v2) in s2):
                                cons.append(S.NOT(S.col('x', u1, v1) & S.col('x', u2, v2)))
            if nontrivial and n == n2:
                cons.append(S.NOT(S.AND([S.col('x', i, i) for i in range(1, n + 1)])))
            return S.AND(cons)
        X.ref = ref

    elif fam == 'subgraph':
        k, eH = case['n2'], E(case, 'E2')
        sH = edgeset_of(k, eH)
        induced, symbreak = case['induced'], case['symbreak']
        tot, inc = embeddings(n, edges, k, eH, induced)
        X.nv = k * n
        X.sat = tot > 0          # H is an (induced) subgraph of G
        X.cnt = inc if symbreak else tot

        def ref(S):
            cons = mapping_constraints(S, 's', k, n, increasing=symbreak)
            cons += embedding_constraints(S, 's', k, sH, n, es, induced)
            return S.AND(cons)
        X.ref = ref

    elif fam == 'kclique':
        k, symbreak = case['k'], case['symbreak']
        c = count_cliques(n, edges, k)
        X.nv = k * n
        X.sat = c > 0
        X.cnt = c if symbreak else c * factorial(k)
        sK = edgeset_of(k, tuple(scope.all_pairs(k)))

        def ref(S):
            cons = mapping_constraints(S, 's', k, n, increasing=symbreak)
            cons += embedding_constraints(S, 's', k, sK, n, es, False)
            return S.AND(cons)
        X.ref = ref

    elif fam == 'kcliquebin':
        k, symbreak = case['k'], case['symbreak']
        c = count_cliques(n, edges, k)
        bits = 0
        while (1 << bits) < n:
            bits += 1
        X.nv = k * bits
        X.sat = c > 0
        X.cnt = c if symbreak else c * factorial(k)

        def ref(S):
            # y_{i,b} is bit b of the 0-based code of the image of i
            eq = {}
            for i in range(1, k + 1):
                for j in range(n):
                    x = S.mask
                    for b in range(bits):
                        col = S.col('y', i, b)
                        x &= col if (j >> b) & 1 else S.NOT(col)
                    eq[i, j] = x
            cons = []
            for i in range(1, k + 1):
                cons.append(S.OR([eq[i, j] for j in range(n)]))
            for i1 in range(1, k + 1):
                for i2 in range(i1 + 1, k + 1):
                    for j1 in range(n):
                        for j2 in range(n):
                            bad = (j1 == j2) or ((j1 + 1, j2 + 1) not in es) or \
                                (symbreak and j1 > j2)
                            if bad:
                                cons.append(S.NOT(eq[i1, j1] & eq[i2, j2]))
            return S.AND(cons)
        X.ref = ref

    elif fam == 'ramsey':
        k, s = case['k'], case['s']
        X.sat = count_cliques(n, edges, k) > 0 or count_cliques(n, edges, s, True) > 0
        # the variables of this formula are not documented: only satisfiability

    else:
        raise KeyError(fam)
    if X.cnt is not None and X.sat is not None and (X.cnt > 0) != bool(X.sat):
        raise RuntimeError('harness: witness count %r contradicts closed form %r: %r' %
                           (X.cnt, X.sat, case))
    return X


# ====================================================================== keys
def key_class(case):
    fam = case['fam']
    tags = []
    if fam == 'tseitin':
        kind = case.get('ckind', 'bool')
        if kind != 'bool':
            tags.append(kind + '-charges')
    elif fam == 'domset':
        if case['d'] < 1:
            tags.append('d=0')
        if case['alternative']:
            tags.append('alternative')
    elif fam == 'iso':
        if case.get('nontrivial'):
            tags.append('nontrivial')
    elif fam == 'subgraph':
        if case['induced']:
            tags.append('induced')
        if case['symbreak']:
            tags.append('symbreak')
    elif fam in ('kclique', 'kcliquebin'):
        if fam == 'kcliquebin' and case['k'] == 0:
            tags.append('k=0')
        elif fam == 'kcliquebin' and case['n'] == 0:
            tags.append('order=0')
        elif not case['symbreak']:
            tags.append('nosymbreak')
    elif fam == 'ramsey':
        if case['k'] != case['s']:
            tags.append('k!=s')
        elif not case['symbreak']:
            tags.append('nosymbreak')
    elif fam == 'kcolor':
        if not case['functional']:
            tags.append('nonfunctional')
    return ':'.join([fam] + tags)


def is_variant(case):
    return case.get('cls', 'CNF') != 'CNF' or case.get('src', 'cnfgen') != 'cnfgen'


def base_of(case):
    b = dict(case)
    b.pop('cls', None)
    b.pop('src', None)
    return b


# ====================================================================== check
def project_low(bitmap, n, keep):
    """existential projection on variables 1..keep (drop keep+1..n) by
    OR-folding the two halves of the table, highest variable first"""
    for v in range(n, keep, -1):
        half = 1 << (v - 1)
        bitmap = (bitmap | (bitmap >> half)) & ((1 << half) - 1)
    return bitmap


def clause_view(F):
    """The clauses of a CNF object, or of an OPB object all of whose
    constraints are clauses (sum of literals with coefficient 1 >= 1); None if
    some constraint is not a clause."""
    if not hasattr(F, '_constraints'):
        return [list(c) for c in F._clauses]
    out = []
    for con in F._constraints:
        terms, op, val = con[:-2], con[-2], con[-1]
        if op == '>=' and val == 1 and all(c == 1 for c, _ in terms):
            out.append([l for _, l in terms])
        else:
            return None
    return out


def symptoms(case, R=None):
    """list of (symptom, what) for one instance, judged against the
    documentation only"""
    out = _symptoms(case, R)
    if case['fam'] == 'ramsey' and case['k'] != case['s'] and out:
        # Known finding ramsey:k!=s:sat is the SPECIFIC defect "the size s is
        # ignored: the formula asks for a k-clique or a k-independent set".
        # A wrong verdict that this defect does not explain gets another key.
        n, edges = case['n'], E(case)
        k = case['k']
        defect_sat = count_cliques(n, edges, k) > 0 or count_cliques(n, edges, k, True) > 0
        fixed = []
        for sym, what in out:
            if sym == 'sat':
                observed_sat = what.startswith('formula is SAT')
                if observed_sat != defect_sat:
                    sym = 'sat-not-explained-by-ignored-s'
            fixed.append((sym, what))
        out = fixed
    return out


def tseitin_axiom_symptoms(case, R=None):
    """Tseitin on a graph too large for the assignment engines: the clause
    set must be, vertex by vertex, exactly the 2^(d-1) clauses over the
    variables of the incident edges that forbid the wrong parity (that is what
    the documented formula is; nothing else may be there).  Edges are
    recognised through the variable names."""
    from ref.sem import parse_name
    out = []
    F = build(case)
    n, edges = case['n'], [tuple(sorted(e)) for e in E(case)]
    charges = case['charges']
    names = list(F.all_variable_labels())
    if F.number_of_variables() != len(edges) or len(names) != len(edges):
        return [('nvars', 'formula declares %d variables, the graph has %d edges' %
                 (F.number_of_variables(), len(edges)))]
    var_of = {}
    for i, nm in enumerate(names, start=1):
        a = parse_name(nm)
        try:
            e = tuple(sorted(a[1]))
        except Exception:
            return [('names', 'variable %d is named %r' % (i, nm))]
        var_of[e] = i
    if sorted(var_of) != sorted(edges):
        return [('names', 'the named variables are the edges %r..., the graph has %r...' %
                 (sorted(var_of)[:5], sorted(edges)[:5]))]
    at = {v: frozenset(var_of[e] for e in edges if v in e) for v in range(1, n + 1)}
    owner = {}
    for v, vs in at.items():
        owner.setdefault(vs, []).append(v)
    seen = {v: set() for v in at}
    for cl in clause_view(F):
        vs = frozenset(abs(l) for l in cl)
        if len(vs) != len(cl) or vs not in owner:
            return [('axioms:extra', 'clause %r... is not over the edges of one vertex' % (cl[:8],))]
        neg = sum(1 for l in cl if l < 0)
        ok = False
        for v in owner[vs]:
            # the clause forbids the assignment that makes all its literals
            # false: true edges = its negated variables; forbidden iff wrong parity
            if neg % 2 != int(bool(charges[v - 1])):
                seen[v].add(tuple(sorted(l for l in cl if l < 0)))
                ok = True
        if not ok:
            return [('axioms:extra', 'clause with %d negated literals over the edges of vertex %r forbids a '
                                     'RIGHT parity' % (neg, owner[vs]))]
    for v, vs in at.items():
        want = 1 << (len(vs) - 1) if vs else (1 if charges[v - 1] else 0)
        if len(seen[v]) != want:
            return [('axioms:missing', 'vertex %d of degree %d has %d of its %d parity clauses' %
                     (v, len(vs), len(seen[v]), want))]
    if R is not None:
        R.stats['axiom_oracle_clauses'] += len(F)
        R.nt = True
    return out


def _symptoms(case, R=None):
    out = []
    if case.get('axiom_oracle'):
        return tseitin_axiom_symptoms(case, R)
    X = expectation(case)
    try:
        F = build(case)
    except Unsupported:
        if R is not None:
            R.stats['cli:case_has_no_command_line_form'] += 1
        return out
    except Exception as e:
        if case.get('src') == 'cli' and type(e).__name__ == 'CLIError':
            # the command line accepts a narrower domain than the library
            # (positive k ...) and reports the library's refusals in its own way
            if R is not None:
                R.stats['cli:refused_by_the_command_line'] += 1
            return out
        if X.error is not None and isinstance(e, X.error[1]):
            if R is not None:
                R.outcomes['documented_error_raised'] += 1
            return out
        out.append(('exception:' + type(e).__name__,
                    'building the formula raised %r although the arguments are inside the '
                    'documented domain' % (e,)))
        return out
    if X.error is not None and X.error[0] == 'required':
        out.append(('no-error', 'documented %s not raised (%s)' %
                    ('/'.join(t.__name__ for t in X.error[1]), X.error[2])))
        return out
    n = F.number_of_variables()
    names = list(F.all_variable_labels())
    if len(names) != n:
        out.append(('names', 'all_variable_labels gives %d names for %d variables' % (len(names), n)))
        return out
    if X.nv is not None and n != X.nv:
        out.append(('nvars', 'formula declares %d variables, the documented objects need %d' %
                    (n, X.nv)))
        return out

    clauses = clause_view(F) if n > BITMAP_LIMIT else None
    if n > BITMAP_LIMIT and X.witnesses is None and X.ref is None and X.proj is None \
            and clauses is not None:
        # satisfiability only (undocumented variables): complete backtracking
        # search of the assignment tree, stopped at the first model
        try:
            ms, nodes = tt.enumerate_models(n, clauses, limit_models=1)
        except ValueError as e:
            out.append(('literal-range', str(e)))
            return out
        if R is not None:
            R.stats['backtracking_nodes'] += nodes
            R.stats['sat_instances' if ms else 'unsat_instances'] += 1
            R.nt = n > 0 and len(F) > 0
        if bool(ms) != bool(X.sat):
            out.append(('sat', 'formula is %s but such an object %s' %
                        ('SAT' if ms else 'UNSAT', 'exists' if X.sat else 'does not exist')))
        return out
    if n > BITMAP_LIMIT and (clauses is None or X.witnesses is None):
        # no exhaustive engine for this shape: counted, never reported as covered
        if R is not None:
            R.stats['cap_hit'] += 1
        return out
    if n > BITMAP_LIMIT:
        # exhaustive backtracking enumeration (CNF only), compared with the
        # encodings of the brute-force witnesses
        S = None
        atom = {}
        from ref.sem import parse_name
        for i, nm in enumerate(names, start=1):
            atom[parse_name(nm)] = i
        try:
            ms, nodes = tt.enumerate_models(n, clauses)
        except ValueError as e:
            out.append(('literal-range', str(e)))
            return out
        if R is not None:
            R.stats['assignments_backtracking'] += 1 << n
            R.stats['backtracking_nodes'] += nodes
            R.stats['sat_instances' if ms else 'unsat_instances'] += 1
            R.nt = n > 0 and len(F) > 0
        got = set(ms)
        try:
            exp = set(tuple(sorted(atom[a] for a in w)) for w in X.witnesses)
        except KeyError as e:
            out.append(('names', 'documented variable %r does not exist among %r' % (e.args, names[:6])))
            return out
        if got != exp:
            d = sorted(got ^ exp)[0]
            out.append(('model-set', 'models=%d witnesses=%d; assignment with true atoms %r is %s' %
                        (len(got), len(exp), [names[v - 1] for v in d],
                         'accepted but not a witness' if d in got else 'a witness but rejected')))
        if bool(got) != bool(X.sat):
            out.append(('sat', 'formula is %s but such an object %s' %
                        ('SAT' if got else 'UNSAT', 'exists' if X.sat else 'does not exist')))
        return out

    try:
        got = tt.formula_models(F)
    except ValueError as e:
        out.append(('literal-range', str(e)))
        return out
    if R is not None:
        R.nt = n > 0 and len(F) > 0
        R.stats['assignments'] += 1 << n
        R.stats['sat_instances' if got else 'unsat_instances'] += 1

    model_set_ok = True
    S = None
    if X.ref is not None or X.proj is not None:
        S = Sem(names)
        if S.bad_names:
            out.append(('names', 'unparsable or duplicate names %r' % (S.bad_names[:3],)))
            return out
    if X.ref is not None:
        try:
            exp = X.ref(S)
        except KeyError as e:
            out.append(('names', 'documented variable %r does not exist among %r' % (e.args, names[:6])))
            return out
        # harness self-check: reference predicate vs brute-force oracle
        if X.cnt is not None and tt.count(exp) != X.cnt:
            raise RuntimeError('harness: reference predicate has %d models, brute force finds %d '
                               'witnesses: %r' % (tt.count(exp), X.cnt, case))
        if got != exp:
            model_set_ok = False
            a = next(tt.models(got ^ exp))
            side = 'accepted by the formula but not a witness' if (got >> a) & 1 else \
                'a witness but rejected by the formula'
            out.append(('model-set', 'models=%d expected=%d; assignment with true atoms %r is %s' %
                        (tt.count(got), tt.count(exp), [names[v - 1] for v in tt.true_vars(a, n)], side)))
    if X.proj is not None:
        keep, expp = X.proj
        try:
            ids = [S.atom[a] for a in keep]
        except KeyError as e:
            out.append(('names', 'documented variable %r does not exist among %r' % (e.args, names[:6])))
            return out
        if ids == list(range(1, len(ids) + 1)):
            gotp = project_low(got, n, len(ids))
        else:
            gotp = tt.project(got, n, ids)
        if gotp != expp:
            model_set_ok = False
            a = next(tt.models(gotp ^ expp))
            chosen = [keep[j][1][0] for j in range(len(keep)) if (a >> j) & 1]
            side = 'is the projection of a model but not a witness' if (gotp >> a) & 1 else \
                'is a witness but no model extends it'
            out.append(('projection', 'projected models=%d witnesses=%d; vertex set %r %s' %
                        (tt.count(gotp), tt.count(expp), chosen, side)))
    # a model-set mismatch already covers its corollaries (one defect, one key)
    if X.sat is not None and model_set_ok and bool(got) != bool(X.sat):
        out.append(('sat', 'formula is %s but such an object %s' %
                    ('SAT' if got else 'UNSAT', 'exists' if X.sat else 'does not exist')))
    if X.cnt is not None and model_set_ok and tt.count(got) != X.cnt:
        out.append(('count', 'formula has %d models but there are %d witnesses' %
                    (tt.count(got), X.cnt)))
    return out


def check_case(case, R=None):
    """Violations of one instance.  A variant case (OPB class, networkx input,
    reversed edge insertion) is judged by the same oracle; symptoms it shares
    with its base case (CNF class, cnfgen.Graph input) belong to the base
    case, which is itself part of the enumeration, and are not repeated."""
    sy = symptoms(case, R)
    klass = key_class(case)
    if sy and is_variant(case):
        base = set(s for s, _ in symptoms(base_of(case)))
        sy = [(s, w) for s, w in sy if s not in base]
        tag = '+'.join(t for t in (case.get('cls', 'CNF'), case.get('src', 'cnfgen'))
                       if t not in ('CNF', 'cnfgen'))
        klass = '%s[%s]' % (klass, tag)
    return [{'key': '%s:%s' % (klass, s), 'what': w, 'case': dict(case)} for s, w in sy]


replay = check_case


# ===================================================================== cases
def L(es):
    return [list(e) for e in es]


NONBOOL_INT = [[2, 0, 3, 0, -1, 0], [0, 2, 0, 5, 0, 0], [1, 1, 0, 0, 7, 0]]
NONNUMERIC = [['a', '', 'None', 'b', '', 'None'], ['None', 'x', 'y', '', 'z', '']]


def tseitin_cases(n, es, full=True):
    """every boolean charge vector of length n + the documented irregular ones"""
    e = L(es)
    out = []
    for ch in itertools.product([False, True], repeat=n):
        out.append({'fam': 'tseitin', 'n': n, 'E': e, 'charges': list(ch)})
    out.append({'fam': 'tseitin', 'n': n, 'E': e, 'charges': None, 'ckind': 'default'})
    if not full:
        return out
    out.append({'fam': 'tseitin', 'n': n, 'E': e, 'charges': [True] * n, 'ckind': 'tuple',
                'ctype': 'tuple'})
    # too short (padded with False): every proper prefix of all-True, as list and tuple
    for l in range(n):
        out.append({'fam': 'tseitin', 'n': n, 'E': e, 'charges': [True] * l, 'ckind': 'short'})
        out.append({'fam': 'tseitin', 'n': n, 'E': e, 'charges': [True] * l, 'ckind': 'short',
                    'ctype': 'tuple'})
    # too long (excess ignored)
    for extra in ([True], [False, True, True]):
        for base in ([False] * n, [True] * n):
            out.append({'fam': 'tseitin', 'n': n, 'E': e, 'charges': base + extra, 'ckind': 'long'})
    # non-boolean values (cast with bool): integers, then non-numeric objects
    for pat in NONBOOL_INT:
        out.append({'fam': 'tseitin', 'n': n, 'E': e, 'charges': pat[:n], 'ckind': 'int'})
    if n >= 1:
        for pat in NONNUMERIC:
            out.append({'fam': 'tseitin', 'n': n, 'E': e, 'charges': pat[:n], 'ckind': 'nonnumeric'})
    return out


def family_cases(fam, n, es, pmax, vmax):
    """all parameter tuples (0..pmax) of one family on one graph whose formula
    has at most vmax variables"""
    e = L(es)
    if fam == 'kcolor':
        for k in range(0, pmax + 1):
            if n * k <= vmax:
                for fun in (True, False):
                    yield {'fam': fam, 'n': n, 'E': e, 'k': k, 'functional': fun}
    elif fam in ('ec', 'tiling', 'auto'):
        if fam != 'auto' or n * n <= vmax:
            yield {'fam': fam, 'n': n, 'E': e}
    elif fam == 'domset':
        for d in range(0, pmax + 1):
            if n + n * d <= vmax:
                for alt in (False, True):
                    yield {'fam': fam, 'n': n, 'E': e, 'd': d, 'alternative': alt}
    elif fam == 'kclique':
        for k in range(0, pmax + 2):
            if n * k <= vmax:
                for sb in (True, False):
                    yield {'fam': fam, 'n': n, 'E': e, 'k': k, 'symbreak': sb}
    elif fam == 'kcliquebin':
        for k in range(0, pmax + 1):
            if k * max(0, (n - 1).bit_length()) <= vmax:
                for sb in (True, False):
                    yield {'fam': fam, 'n': n, 'E': e, 'k': k, 'symbreak': sb}
    elif fam == 'ramsey':
        for k in range(0, pmax + 1):
            if 1 + n * k <= vmax:
                for s in range(0, pmax + 1):
                    if n * (k + s) > 30:
                        # scope bound: an encoding with one witness map per
                        # size would exceed what the exhaustive enumerator
                        # can refute (pigeonhole-like) in the time budget
                        continue
                    for sb in (True, False):
                        yield {'fam': fam, 'n': n, 'E': e, 'k': k, 's': s, 'symbreak': sb}
    else:
        raise KeyError(fam)


SINGLE = ['kcolor', 'ec', 'domset', 'tiling', 'auto', 'kclique', 'kcliquebin', 'ramsey']


def even_graphs(n):
    """all graphs on n vertices with all degrees even: any graph on n-1
    vertices, vertex n joined to its odd-degree vertices"""
    if n == 0:
        yield ()
        return
    for es in scope.simple_graphs(n - 1):
        deg = [0] * (n + 1)
        for u, v in es:
            deg[u] += 1
            deg[v] += 1
        yield tuple(sorted(list(es) + [(u, n) for u in range(1, n) if deg[u] % 2]))


@lru_cache(maxsize=8)
def class_representatives(n):
    """one labelled graph per isomorphism class (the lexicographically least
    edge list of the class), by brute force over all relabellings"""
    perms = list(itertools.permutations(range(1, n + 1)))
    reps = []
    for es in scope.simple_graphs(n):
        best = min(tuple(sorted((min(p[u - 1], p[v - 1]), max(p[u - 1], p[v - 1])) for u, v in es))
                   for p in perms)
        if best == es:
            reps.append(es)
    return tuple(reps)


def pair_cases(tier):
    thorough = tier == 'thorough'
    graphs = list(scope.simple_graphs_upto(4))
    # isomorphism: all ordered pairs of graphs with <= 4 vertices, sizes may differ
    for n1, e1 in graphs:
        for n2, e2 in graphs:
            yield {'fam': 'iso', 'n': n1, 'E': L(e1), 'n2': n2, 'E2': L(e2)}
            if max(n1, n2) <= 3 or n1 == n2:
                yield {'fam': 'iso', 'n': n1, 'E': L(e1), 'n2': n2, 'E2': L(e2), 'nontrivial': False}
                yield {'fam': 'iso', 'n': n1, 'E': L(e1), 'n2': n2, 'E2': L(e2), 'nontrivial': True}
    if thorough:
        # 5-vertex graphs against every graph with <= 3 vertices (both orders)
        # and against one representative of every class of 4-vertex graphs
        small = [(n2, e2) for n2, e2 in graphs if n2 <= 3] + \
            [(4, e2) for e2 in class_representatives(4)]
        for e1 in scope.simple_graphs(5):
            for n2, e2 in small:
                yield {'fam': 'iso', 'n': 5, 'E': L(e1), 'n2': n2, 'E2': L(e2)}
                if n2 <= 3:
                    yield {'fam': 'iso', 'n': n2, 'E': L(e2), 'n2': 5, 'E2': L(e1), 'nontrivial': True}
        # every 5-vertex graph against one representative of every isomorphism
        # class of 5-vertex graphs (25 variables: exhaustive backtracking)
        for e1 in scope.simple_graphs(5):
            for e2 in class_representatives(5):
                yield {'fam': 'iso', 'n': 5, 'E': L(e1), 'n2': 5, 'E2': L(e2)}
    # subgraph: G x H x induced (x symbreak for symmetric H)
    gmax = 5 if thorough else 4
    hmax = 4 if thorough else 3
    for N, eG in scope.simple_graphs_upto(gmax):
        for k, eH in scope.simple_graphs_upto(hmax):
            if k * N > (16 if thorough else 12):
                continue
            for induced in (False, True):
                yield {'fam': 'subgraph', 'n': N, 'E': L(eG), 'n2': k, 'E2': L(eH),
                       'induced': induced, 'symbreak': False}
                if is_symmetric(k, eH):
                    yield {'fam': 'subgraph', 'n': N, 'E': L(eG), 'n2': k, 'E2': L(eH),
                           'induced': induced, 'symbreak': True}


def cases(tier, seed):
    thorough = tier == 'thorough'
    # ---- base scope: CNF class, cnfgen.Graph input ----------------------
    pmax = 4 if thorough else 3
    vmax = 22 if thorough else 20
    for n, es in scope.simple_graphs_upto(5):
        for c in tseitin_cases(n, es):
            yield c
        for fam in SINGLE:
            for c in family_cases(fam, n, es, pmax, vmax):
                yield c
    for c in pair_cases(tier):
        yield c
    if thorough:
        for es in scope.simple_graphs(6):
            e = L(es)
            for c in tseitin_cases(6, es, full=False):      # all 64 charge vectors + default
                yield c
            yield {'fam': 'tiling', 'n': 6, 'E': e}
            for k in (1, 2, 3):
                for sb in (True, False):
                    yield {'fam': 'kcliquebin', 'n': 6, 'E': e, 'k': k, 'symbreak': sb}
                    yield {'fam': 'kclique', 'n': 6, 'E': e, 'k': k, 'symbreak': sb}
            for fun in (True, False):
                yield {'fam': 'kcolor', 'n': 6, 'E': e, 'k': 2, 'functional': fun}
            yield {'fam': 'kcolor', 'n': 6, 'E': e, 'k': 3, 'functional': True}
            for d in (1, 2):
                for alt in (False, True):
                    yield {'fam': 'domset', 'n': 6, 'E': e, 'd': d, 'alternative': alt}
            for k in (0, 1, 2):
                for s in (0, 1, 2, 3):
                    for sb in (True, False):
                        yield {'fam': 'ramsey', 'n': 6, 'E': e, 'k': k, 's': s, 'symbreak': sb}
            yield {'fam': 'ec', 'n': 6, 'E': e}     # ValueError unless all degrees are even
        for es in even_graphs(7):
            if len(es) <= 14:
                yield {'fam': 'ec', 'n': 7, 'E': L(es)}
        for es in scope.simple_graphs(5):      # automorphisms on 5 vertices: 25 variables
            yield {'fam': 'auto', 'n': 5, 'E': L(es)}
    # ---- variants: OPB class / networkx input / reversed insertion ------
    vn = 4 if thorough else 3
    variants = [{'cls': 'OPB'}, {'src': 'nx'}, {'src': 'rev'}, {'cls': 'OPB', 'src': 'nx'},
                {'src': 'grown'}, {'src': 'reused'}, {'src': 'nxt'}, {'src': 'cli'}]
    small = list(scope.simple_graphs_upto(3))
    for var in variants:
        for n, es in scope.simple_graphs_upto(4 if var == {'cls': 'OPB'} else vn):
            for c in tseitin_cases(n, es, full=(n <= 3)):
                c.update(var)
                yield c
            for fam in SINGLE:
                for c in family_cases(fam, n, es, 3, 12 if n <= 3 else 16):
                    c.update(var)
                    yield c
        for n1, e1 in small:
            for n2, e2 in small:
                for nt in (False, True):
                    c = {'fam': 'iso', 'n': n1, 'E': L(e1), 'n2': n2, 'E2': L(e2), 'nontrivial': nt}
                    c.update(var)
                    yield c
                for induced in (False, True):
                    for sb in ((False, True) if is_symmetric(n2, e2) else (False,)):
                        c = {'fam': 'subgraph', 'n': n1, 'E': L(e1), 'n2': n2, 'E2': L(e2),
                             'induced': induced, 'symbreak': sb}
                        c.update(var)
                        yield c
    # ---- VERIF_SEED rotates a few extra mid-size instances --------------
    extra = [
        {'fam': 'tseitin', 'n': 7, 'E': [[1, 2], [2, 3], [3, 4], [4, 5], [5, 6], [6, 7], [1, 7], [1, 4]],
         'charges': [True, False, False, True, False, False, False]},
        {'fam': 'tseitin', 'n': 7, 'E': [[1, 2], [2, 3], [1, 3], [4, 5], [5, 6], [6, 7], [4, 7]],
         'charges': [True, False, False, True, False, False, False]},
        {'fam': 'kclique', 'n': 6, 'E': L(scope.all_pairs(6)[:-3]), 'k': 3, 'symbreak': False},
        {'fam': 'kcolor', 'n': 6, 'E': [[1, 2], [2, 3], [3, 4], [4, 5], [5, 6], [1, 6], [1, 3]],
         'k': 3, 'functional': False},
        {'fam': 'tiling', 'n': 7, 'E': [[1, 2], [2, 3], [3, 4], [4, 5], [5, 6], [6, 7]]},
        {'fam': 'kcliquebin', 'n': 7, 'E': L(scope.all_pairs(7)[2:]), 'k': 3, 'symbreak': True},
    ]
    for i in range(2):
        c = dict(extra[(seed + i) % len(extra)])
        c['extra'] = True
        yield c
    # ---- two-digit vertex numbers: closed neighbourhoods whose members, written
    # without a separator, read the same ([1,2,13] / [12,13], [1,2] / [12], [1,3] / [13])
    for n, es in ((13, [[1, 2], [1, 13], [12, 13], [3, 4], [4, 5], [6, 7], [8, 9], [10, 11]]),
                  (12, [[1, 2], [3, 4], [5, 6], [7, 8], [9, 10]]),
                  (13, [[1, 3], [2, 4], [5, 6], [7, 8], [9, 10], [11, 12]]),
                  (12, [[1, 2], [2, 12], [3, 4], [5, 6], [7, 8], [9, 10], [10, 11]])):
        yield {'fam': 'tiling', 'n': n, 'E': es}
    # ---- a vertex of degree 16, 17, 18 (one parity over more literals than a
    # 16-bit mask holds); the leaves force every edge, so the instances are easy
    for leaves in (16, 17):
        n = leaves + 1
        star = [[1, v] for v in range(2, n + 1)]
        for charges in (None, [True] * n, [False] + [True] * leaves,
                        [(v % 3 == 0) for v in range(n)], [True] + [False] * leaves):
            c = {'fam': 'tseitin', 'n': n, 'E': star}
            if charges is not None:
                c['charges'] = charges
            yield c
        # the centre is the LAST vertex
        star2 = [[v, n] for v in range(1, n)]
        yield {'fam': 'tseitin', 'n': n, 'E': star2, 'charges': [True] * leaves + [leaves % 2 == 1]}
        yield {'fam': 'tseitin', 'n': n, 'E': star2, 'charges': [True] * leaves + [leaves % 2 == 0]}
    # ---- a vertex with 20 higher-numbered neighbours FOLLOWED by another vertex
    # with a higher-numbered neighbour (adjacency lists long enough for a
    # binary search; a tree, so propagation decides it): 2^19 clauses
    hub = [[1, v] for v in range(2, 22)] + [[2, 22]]
    yield {'fam': 'tseitin', 'n': 22, 'E': hub, 'charges': [True] + [False] * 20 + [True], 'axiom_oracle': True}
    # ---- the boolean options given as 1 / 0 (truthy, but not the object True)
    for n, es in scope.simple_graphs_upto(4):
        if n < 2:
            continue
        for fam in ('kclique', 'kcliquebin', 'ramsey', 'domset', 'kcolor'):
            for c in family_cases(fam, n, es, 3, 16):
                if 'src' in c or c.get('cls', 'CNF') != 'CNF':
                    continue
                c = dict(c)
                c['flagrepr'] = 'int'
                yield c


# ==================================================================== shards
def shards(tier, seed):
    k = 64 if tier == 'thorough' else 48
    return [('s%03d' % i, 'run_stripe', {'tier': tier, 'seed': seed, 'i': i, 'k': k})
            for i in range(k)]


def run_stripe(args, R):
    tune_malloc()
    it = itertools.islice(cases(args['tier'], args['seed']), args['i'], None, args['k'])
    if args.get('reverse'):
        it = reversed(list(it))
    per_key = {}
    for case in it:
        R.nt = False
        vs = check_case(case, R)
        R.case(sample=case if R.evals % 997 == 0 else None, nontrivial=R.nt)
        R.outcomes['family:' + case['fam']] += 1
        if 'cls' in case:
            R.outcomes['cls:' + case['cls']] += 1
        if 'src' in case:
            R.outcomes['src:' + case['src']] += 1
        for v in vs:
            # the collector keeps 40 violations per shard: report each key at
            # most twice per shard so that no key is crowded out by another
            per_key[v['key']] = per_key.get(v['key'], 0) + 1
            if per_key[v['key']] <= 2:
                R.extend([v])
            else:
                R.stats['violations_not_listed_same_key'] += 1
