"""C14  Graph files round-trip in every supported format; bad files are rejected.

Bounded exhaustive exploration of cnfgen's graph file I/O
(`writeGraph`, `readGraph`, `<Class>.from_file`, the `<file>` / `save <file>`
graph arguments of the command line):

(a) ROUND TRIP.  Every graph of a small scope (all simple graphs, digraphs
    with loops, DAGs, bipartite graphs with sides of size 0 included, and the
    graphs on 10, 11, 12 vertices whose few edges live on the vertices
    {1,2,9,10,11,12}: the label-sorting boundary '10' < '2') is written in every
    format legal for its type and read back through three routes (StringIO,
    file name with autodetected format, open file + `from_file`).  The graph
    read must have the same number of vertices, the same left/right split, the
    same numbering and exactly the same edges.  For the in-house formats the
    written text must also denote the graph under an independent strict reader.
(b) READER.  For each in-house format (kthlist for each type, dimacs, matrix):
    every text of <= 4 lines over a line alphabet (valid lines, boundary lines,
    malformed, blank, comment), every text `header + <= k body lines`, every
    single fault (truncation at every byte, line deletion / duplication / swap /
    insertion, token substitution / deletion / duplication) of every written
    file of the small graphs -- also for gml and dot --, every written file read
    as each other graph type, and every digraph read as 'dag'.
    Outcome must be `ValueError` or a graph; an accepted graph must equal the
    strict reference reading, or, when the strict reading rejects the text, be
    consistent with its lenient content (declared vertices, all mentioned
    edges); for gml/dot an accepted result must be a well-formed graph of the
    requested type and, when the text is a plain GML file / a file of the
    line-oriented DOT dialect the writers use (ref/c14_gmldot.py, independent of
    networkx and pydot), equal to its reading; 'dag' is accepted only if all
    edges go from a lower to a higher vertex.
"""
import io
import os
import sys
import shutil
import random
import tempfile
import itertools
import contextlib

from engine import scope
from engine import faults as F
from engine.common import setup_paths
from ref import c14_graphref as ref
from ref import c14_gmldot as gd

PROPERTY = 'C14'
LEVEL = 'fault_enumeration'
EXHAUSTIVE = True
RULE = ('round trip: every labelled graph of the scope (simple<=5 [quick 4], digraphs with '
        'loops<=3, DAGs<=4, bipartite<=3x3 incl. empty sides, 10/11/12-vertex graphs with <=2 '
        'edges on the boundary vertices {1,2,9,10,11,12}) x every legal format x 3 I/O routes; '
        'reader: every text of <=4 lines over a per-format line alphabet, every header+body text, '
        'every single fault of every written file of the <=3-vertex graphs in all five formats, '
        'every pair of faults of the written in-house files of the <=2-vertex graphs, '
        'every written file read as every other graph type, every digraph read as dag; texts are '
        'distinct by construction inside one enumeration (faults de-duplicated per file); a case '
        'is non-trivial when the graph has a vertex / the text has a non-blank line')
ASSUMPTIONS = [
    'bounded scope: see RULE; thorough adds simple<=6, loopless digraphs on 4, DAGs<=5, '
    'bipartite 3x4/4x3 (in-house formats and gml), larger line alphabets, 5 body lines',
    'reference readers in ref/c14_graphref.py are written from www/KTHlistFormat.txt, '
    'www/graphformats.org, the DIMACS edge format and the readers\' docstrings',
    'gml/dot: corrupted texts are judged for exception class, well-formedness and vertex count of '
    'the result; the accepted graph is compared with an independent reading only when the text '
    'is plain GML / inside the line-oriented DOT dialect of ref/c14_gmldot.py (other accepted '
    'texts are counted as accepted_unjudged_*); round trips are judged exactly',
    'text is ASCII with \\n line ends; vertex names / graph names are not part of the property',
]
ENGINE = 'faults+scope'
TECHNIQUE = ('fault enumeration and bounded exhaustive text enumeration against a strict reference '
             'reader; exhaustive write->read round trips of all small graphs in all formats')
LEVEL_TEXT = ('Every small graph x format x route is written and read back by the real code and '
              'compared exactly; every text of a bounded line language and every single fault of '
              'every written file is read by the real readers and judged against an independent '
              'strict reader (in-house formats, plain GML, DOT dialect) or for exception class / '
              'well-formedness (other gml, dot texts).')
LEVEL_NOTE = ('Trusted: ref/c14_graphref.py, ref/c14_gmldot.py. Not covered: graphs beyond the scope, '
              'double faults of gml/dot files, non-ASCII text, \\r line ends, the meaning of gml/dot '
              'texts outside the plain fragment.')


def VACUITY(tier):
    return {'rt_identical': 3000, 'text_accepted': 2000, 'text_rejected_ValueError': 20000,
            'accepted_equal_to_strict_reference': 1500, 'accepted_lenient_consistent': 50,
            'dag_accepted': 20, 'dag_rejected': 100, 'fault_texts': 100000,
            'double_fault_texts': 100000, 'language_texts': 1000000, 'structured_texts': 100000,
            'cross_type_reads': 3000, 'cli_roundtrips': 300, 'rt_ten_or_more_vertices': 500,
            'accepted_equal_to_plain_gml_reading': 1000, 'accepted_equal_to_plain_dot_reading': 200}


FORMATS = {
    'simple': ['kthlist', 'gml', 'dot', 'dimacs'],
    'digraph': ['kthlist', 'gml', 'dot', 'dimacs'],
    'dag': ['kthlist', 'gml', 'dot', 'dimacs'],
    'bipartite': ['kthlist', 'gml', 'dot', 'matrix'],
}
GTYPES = ['simple', 'digraph', 'dag', 'bipartite']
COST = {'dot': 12.0, 'gml': 0.6, 'kthlist': 0.08, 'dimacs': 0.08, 'matrix': 0.08}   # ms


def preload():
    setup_paths()
    import cnfgen  # noqa
    import cnfgen.graphs  # noqa
    import cnfgen.clitools.graph_args  # noqa
    try:
        import pydot  # noqa
    except ImportError:
        pass


def group(gtype):
    return 'bipartite' if gtype == 'bipartite' else 'nonbipartite'


# ------------------------------------------------------------ graph sources --
BOUNDARY = (1, 2, 9, 10, 11, 12)


def _bset(k):
    return sorted(set(v for v in (1, 2, k - 1, k) + BOUNDARY[2:] if 1 <= v <= k))


def source(spec):
    """Deterministic enumeration of graph descriptions for a source spec."""
    kind = spec[0]
    if kind == 'simple' or kind == 'dag':
        n = spec[1]
        for es in scope.simple_graphs(n):
            yield {'n': n, 'edges': [list(e) for e in es]}
    elif kind == 'digraph':
        n, loops = spec[1], spec[2]
        for es in scope.digraphs(n, loops=loops):
            yield {'n': n, 'edges': [list(e) for e in es]}
    elif kind == 'bip':
        L, Rr = spec[1], spec[2]
        for es in scope.bipartite_graphs(L, Rr):
            yield {'L': L, 'R': Rr, 'edges': [list(e) for e in es]}
    elif kind == 'bsimple' or kind == 'bdag':
        n, maxe = spec[1], spec[2]
        vs = [v for v in BOUNDARY if v <= n]
        pairs = [(u, v) for u in vs for v in vs if u < v]
        for m in range(maxe + 1):
            for es in itertools.combinations(pairs, m):
                yield {'n': n, 'edges': [list(e) for e in es]}
    elif kind == 'bdigraph':
        n, maxe = spec[1], spec[2]
        vs = [v for v in BOUNDARY if v <= n]
        pairs = [(u, v) for u in vs for v in vs]
        for m in range(maxe + 1):
            for es in itertools.combinations(pairs, m):
                yield {'n': n, 'edges': [list(e) for e in es]}
    elif kind == 'bbip':
        L, Rr, maxe = spec[1], spec[2], spec[3]
        pairs = [(u, v) for u in _bset(L) for v in _bset(Rr)]
        for m in range(maxe + 1):
            for es in itertools.combinations(pairs, m):
                yield {'L': L, 'R': Rr, 'edges': [list(e) for e in es]}
    elif kind == 'large':
        # one structured graph per type beyond the sizes code can depend on
        # (three-digit labels, CPython's small-integer cache at 256)
        gtype, n = spec[1], spec[2]
        hot = [v for v in (1, 2, 9, 10, 11, 99, 100, 101, 255, 256, 257, 258, n - 1, n)
               if 1 <= v <= n]
        if gtype == 'bipartite':
            L, Rr = n, n + 3
            es = set((u, v) for u in hot for v in hot + [Rr] if (u * 7 + v * 3) % 4 == 0)
            es |= set((i, (i * 5) % Rr + 1) for i in range(1, L + 1))
            yield {'L': L, 'R': Rr, 'edges': [list(e) for e in sorted(es)]}
        else:
            es = set((i, i + 1) for i in range(1, n))
            es |= set((u, v) for u in hot for v in hot if u < v and (u + v) % 3 != 0)
            if gtype == 'digraph':
                es |= set([(n, 1), (257, 257), (258, 256), (256, 255), (100, 99)])
            yield {'n': n, 'edges': [list(e) for e in sorted(es)]}
    elif kind == 'extra':
        # a few seeded mid-size graphs appended to the exhaustive core
        gtype, seed = spec[1], spec[2]
        rnd = random.Random('c14-%s-%d' % (gtype, seed))
        for _ in range(4):
            if gtype == 'bipartite':
                L, Rr = rnd.randint(4, 13), rnd.randint(4, 13)
                es = sorted(set((rnd.randint(1, L), rnd.randint(1, Rr)) for _ in range(L + Rr)))
                yield {'L': L, 'R': Rr, 'edges': [list(e) for e in es]}
            else:
                n = rnd.randint(7, 14)
                es = set()
                for _ in range(2 * n):
                    u, v = rnd.randint(1, n), rnd.randint(1, n)
                    if gtype in ('simple', 'dag'):
                        if u == v:
                            continue
                        u, v = min(u, v), max(u, v)
                    es.add((u, v))
                yield {'n': n, 'edges': [list(e) for e in sorted(es)]}
    else:
        raise KeyError(kind)


def source_size(spec):
    return sum(1 for _ in source(spec))


def striped(spec, i, k):
    for idx, g in enumerate(source(spec)):
        if idx % k == i:
            yield idx, g


# --------------------------------------------------- real objects <-> data --
def build(gtype, g):
    from cnfgen.graphs import Graph, DirectedGraph, BipartiteGraph
    if gtype == 'bipartite':
        if g['L'] >= 1 and g['R'] >= 1 and len(set(map(tuple, g['edges']))) == g['L'] * g['R'] \
                and (g['L'] + g['R']) % 2 == 0:
            # the object the construction `complete L R` delivers: a
            # CompleteBipartiteGraph keeps no explicit edge set
            from cnfgen.graphs import CompleteBipartiteGraph
            return CompleteBipartiteGraph(g['L'], g['R'])
        G = BipartiteGraph(g['L'], g['R'])
    elif gtype == 'simple':
        if len(g['edges']) % 3 == 2 and g['n'] >= 2:
            # a graph object with a history: all vertices but one added by a
            # single update_vertex_number call (as `splitedges k` does)
            G = Graph(1)
            G.update_vertex_number(g['n'])
        else:
            G = Graph(g['n'])
    else:
        G = DirectedGraph(g['n'])
    for u, v in g['edges']:
        G.add_edge(u, v)
    if gtype == 'simple' and len(g['edges']) % 2 == 1:
        # ... or edited: every edge removed and put back with its endpoints
        # named in the other order (both ways round); the graph is the same
        for i, (u, v) in enumerate(g['edges']):
            a_, b_ = min(u, v), max(u, v)
            if i % 2 == 0:
                G.remove_edge(a_, b_)
                G.add_edge(b_, a_)
            else:
                G.remove_edge(b_, a_)
                G.add_edge(a_, b_)
    elif gtype == 'bipartite' and len(g['edges']) % 2 == 1 and hasattr(G, 'remove_edge'):
        for (u, v) in g['edges'][:2]:
            G.remove_edge(u, v)
            G.add_edge(u, v)
    return G


def canon(gtype, g):
    """Normal form of a graph description (sorted tuples)."""
    if gtype == 'bipartite':
        return {'L': g['L'], 'R': g['R'], 'edges': sorted(tuple(e) for e in g['edges'])}
    if gtype == 'simple':
        return {'n': g['n'], 'edges': sorted((min(e), max(e)) for e in g['edges'])}
    return {'n': g['n'], 'edges': sorted(tuple(e) for e in g['edges'])}


def observe(G, gtype):
    """(description, problems) of a cnfgen graph object, through its public
    interface only; problems lists the ways the object is not a well-formed
    graph of the requested type."""
    from cnfgen.graphs import Graph, DirectedGraph, BipartiteGraph
    pb = []
    want = {'simple': Graph, 'digraph': DirectedGraph, 'dag': DirectedGraph,
            'bipartite': BipartiteGraph}[gtype]
    if not isinstance(G, want):
        return None, ['result is a %s, not a %s' % (type(G).__name__, want.__name__)]
    try:
        if gtype == 'bipartite':
            L, Rr = G.left_order(), G.right_order()
            es = [tuple(e) for e in G.edges()]
            d = {'L': L, 'R': Rr, 'edges': sorted(es)}
            if not (isinstance(L, int) and isinstance(Rr, int) and L >= 0 and Rr >= 0):
                pb.append('sides %r,%r' % (L, Rr))
                return d, pb
            if G.number_of_vertices() != L + Rr:
                pb.append('number_of_vertices %r != %d+%d' % (G.number_of_vertices(), L, Rr))
            if len(set(es)) != len(es):
                pb.append('edge listed twice')
            if any(not (1 <= u <= L and 1 <= v <= Rr) for u, v in es):
                pb.append('edge outside %dx%d: %r' % (L, Rr, es[:4]))
            if G.number_of_edges() != len(es):
                pb.append('number_of_edges %r != %d' % (G.number_of_edges(), len(es)))
            S = set(es)
            for u in range(1, L + 1):
                if list(G.right_neighbors(u)) != sorted(v for (a, v) in S if a == u):
                    pb.append('right_neighbors(%d) disagrees with edges()' % u)
            for v in range(1, Rr + 1):
                if list(G.left_neighbors(v)) != sorted(u for (u, b) in S if b == v):
                    pb.append('left_neighbors(%d) disagrees with edges()' % v)
            return d, pb
        n = G.number_of_vertices()
        es = [tuple(e) for e in G.edges()]
        if not (isinstance(n, int) and n >= 0):
            return {'n': n, 'edges': sorted(es)}, ['number_of_vertices %r' % (n,)]
        if gtype == 'simple':
            es2 = [(min(e), max(e)) for e in es]
            d = {'n': n, 'edges': sorted(es2)}
            if any(u == v for u, v in es2):
                pb.append('loop in a simple graph')
            if len(set(es2)) != len(es2):
                pb.append('edge listed twice')
            S = set(es2)
            for u in range(1, n + 1):
                nb = sorted([b for (a, b) in S if a == u] + [a for (a, b) in S if b == u])
                if list(G.neighbors(u)) != nb:
                    pb.append('neighbors(%d) disagrees with edges()' % u)
            if any(not (G.has_edge(u, v) and G.has_edge(v, u)) for u, v in S):
                pb.append('has_edge disagrees with edges()')
        else:
            d = {'n': n, 'edges': sorted(es)}
            if len(set(es)) != len(es):
                pb.append('edge listed twice')
            S = set(es)
            for u in range(1, n + 1):
                if list(G.successors(u)) != sorted(b for (a, b) in S if a == u):
                    pb.append('successors(%d) disagrees with edges()' % u)
                if list(G.predecessors(u)) != sorted(a for (a, b) in S if b == u):
                    pb.append('predecessors(%d) disagrees with edges()' % u)
            if bool(G.is_dag()) != all(u < v for u, v in S):
                pb.append('is_dag() is %r' % (G.is_dag(),))
        if any(not (1 <= u <= n and 1 <= v <= n) for u, v in es):
            pb.append('edge outside 1..%d: %r' % (n, es[:4]))
        if G.number_of_edges() != len(es):
            pb.append('number_of_edges %r != %d' % (G.number_of_edges(), len(es)))
        return d, pb
    except Exception as e:   # the object cannot even be inspected
        return None, ['inspecting the result raised %s: %s' % (type(e).__name__, e)]


def order_of(g):
    return g['n'] if 'n' in g else g['L'] + g['R']


def sizeclass(g):
    return 'n>=10' if order_of(g) >= 10 else 'n<10'


class Quiet(object):
    """pydot prints its parse errors; keep the run output clean."""

    def __enter__(self):
        self.buf = io.StringIO()
        self.cm = contextlib.redirect_stdout(self.buf)
        self.cm2 = contextlib.redirect_stderr(self.buf)
        self.cm.__enter__()
        self.cm2.__enter__()

    def __exit__(self, *a):
        self.cm2.__exit__(*a)
        self.cm.__exit__(*a)
        return False


def read_text(text, gtype, fmt):
    from cnfgen.graphs import readGraph
    try:
        if fmt == 'dot':
            with Quiet():
                return 'graph', readGraph(io.StringIO(text), gtype, fmt)
        return 'graph', readGraph(io.StringIO(text), gtype, fmt)
    except Exception as e:
        return 'exc', e


def write_text(G, gtype, fmt):
    from cnfgen.graphs import writeGraph
    buf = io.StringIO()
    writeGraph(G, buf, gtype, fmt)
    return buf.getvalue()


class Scratch(object):
    """private temporary directory of a shard / replay"""

    def __init__(self):
        self.dir = None

    def path(self, name):
        if self.dir is None:
            self.dir = tempfile.mkdtemp(prefix='verif_c14_')
        return os.path.join(self.dir, name)

    def close(self):
        if self.dir is not None:
            shutil.rmtree(self.dir, ignore_errors=True)
            self.dir = None


def viol(key, what, case):
    return {'key': key, 'what': what, 'case': case}


# ------------------------------------------------------------- (a) round trip
def check_rt(case, tmp, stats=None):
    """write -> read of one graph, one format, one route."""
    from cnfgen.graphs import readGraph, writeGraph, Graph, DirectedGraph, BipartiteGraph
    gtype, fmt, via, g = case['gtype'], case['fmt'], case['via'], case['g']
    out = []
    want = canon(gtype, g)
    G = build(gtype, g)
    before, pb = observe(G, gtype)
    if pb or before != want:
        # the constructors are not under test here; stop (reported once)
        out.append(viol('build:%s:constructor' % gtype,
                        'building the graph gives %r %r' % (before, pb), case))
        return out
    grp = group(gtype)
    sc = sizeclass(g)
    cls = {'simple': Graph, 'digraph': DirectedGraph, 'dag': DirectedGraph,
           'bipartite': BipartiteGraph}[gtype]
    # file names: plain, or with other dots in the name and in the directory
    # (the format is what follows the LAST dot of the file name)
    if (len(repr(g)) + len(via)) % 2:
        path = tmp.path('g%s.%s' % (via, fmt))
    else:
        os.makedirs(tmp.path('run.1.d'), exist_ok=True)
        path = tmp.path(os.path.join('run.1.d', 'g.%s.v2.%s' % (via, fmt)))
    # ---- write
    try:
        with Quiet():
            if via == 'sio':
                text = write_text(G, gtype, fmt)
            elif via == 'path':
                writeGraph(G, path, gtype)          # format from the extension
                with open(path) as f:
                    text = f.read()
            else:
                with open(path, 'w') as f:
                    writeGraph(G, f, gtype, fmt)
                with open(path) as f:
                    text = f.read()
    except Exception as e:
        out.append(viol('write:%s:%s:exception:%s' % (fmt, grp, type(e).__name__),
                        'writeGraph raised %r' % (e,), case))
        return out
    after, pb = observe(G, gtype)
    if after != want or pb:
        out.append(viol('write:%s:%s:mutates-graph' % (fmt, grp),
                        'graph after writing: %r %r' % (after, pb), case))
    if fmt in ref.INHOUSE:
        P = ref.parse(fmt, gtype, text)
        if P.strict is None:
            why = P.fatal or P.reason
            out.append(viol('write:%s:%s:text-not-well-formed:%s' % (fmt, grp, why),
                            'written file %r is not a well-formed %s file (%s)'
                            % (text, fmt, why), case))
        else:
            sym = ref.diff(want, P.strict)
            if sym:
                out.append(viol('write:%s:%s:text-denotes-other-graph:%s' % (fmt, grp, sym),
                                'written file %r denotes %r, graph is %r' % (text, P.strict, want),
                                case))
    else:
        S = gd.read_gml(text) if fmt == 'gml' else gd.read_dot(text)
        exp = gd.expected(S, gtype)
        if exp is None:
            out.append(viol('write:%s:%s:text-not-plain' % (fmt, grp),
                            'written file %r is not a plain %s file of a %s graph' % (text, fmt, gtype),
                            case))
        else:
            sym = ref.diff(want, exp)
            if sym:
                out.append(viol('write:%s:%s:text-denotes-other-graph:%s' % (fmt, grp, sym),
                                'written file %r denotes %r, graph is %r' % (text, exp, want), case))
    # ---- read
    try:
        with Quiet():
            if via == 'sio':
                H = readGraph(io.StringIO(text), gtype, fmt)
            elif via == 'path':
                H = readGraph(path, gtype)
            elif case.get('handle'):
                with open(path) as f:
                    H = cls.from_file(f, fmt)
            else:
                H = cls.from_file(path)
    except Exception as e:
        sym = 'rejected' if isinstance(e, ValueError) else 'read-exception'
        out.append(viol('roundtrip:%s:%s:%s:%s:%s' % (fmt, grp, sc, sym, type(e).__name__),
                        'reading back the written file raised %r; file=%r' % (e, text[:300]), case))
        return out
    obs, pb = observe(H, gtype)
    if pb:
        out.append(viol('roundtrip:%s:%s:%s:malformed-result' % (fmt, grp, sc),
                        'graph read back is malformed: %r' % (pb,), case))
        return out
    sym = ref.diff(want, obs)
    if sym:
        out.append(viol('roundtrip:%s:%s:%s:%s' % (fmt, grp, sc, sym),
                        'wrote %r, read back %r' % (want, obs), case))
    elif stats is not None:
        stats['rt_identical'] += 1
        if order_of(g) >= 10:
            stats['rt_ten_or_more_vertices'] += 1
    if not sym and via == 'sio' and fmt in ('dimacs', 'kthlist') and len(repr(g)) % 2 == 0:
        # second generation: the same text with several comment lines before
        # the data (as people write them) is read, and the graph obtained is
        # written again in every format and read back
        text2 = 'c a graph written by hand\nc edges of the graph follow\nc p edge 9 9 is not the header\n' + text
        try:
            with Quiet():
                H2 = readGraph(io.StringIO(text2), gtype, fmt)
                for f2 in FORMATS[gtype]:
                    t3 = write_text(H2, gtype, f2)
                    H3 = readGraph(io.StringIO(t3), gtype, f2)
                    o3, pb3 = observe(H3, gtype)
                    s3 = 'malformed-result' if pb3 else ref.diff(want, o3)
                    if s3:
                        out.append(viol('second-generation:%s->%s:%s:%s' % (fmt, f2, grp, s3),
                                        'file with three comment lines read, written as %s, read back: %r %r'
                                        % (f2, o3, pb3), case))
                        break
                    if stats is not None:
                        stats['second_generation_roundtrips'] += 1
        except Exception as e:
            out.append(viol('second-generation:%s:%s:exception:%s' % (fmt, grp, type(e).__name__),
                            'a %s file with three comment lines, read and written again: %r' % (fmt, e), case))
    return out


# ------------------------------------------------------------- (b) one text --
def textclass(fmt, text):
    """Input class of a gml/dot text for violation keys (never for verdicts):
    what the third-party parser makes of it."""
    import networkx
    try:
        with Quiet():
            if fmt == 'gml':
                G = networkx.read_gml((ln.encode('ascii') for ln in io.StringIO(text)), label='id')
            else:
                G = networkx.nx_pydot.read_dot(io.StringIO(text))
        return 'directed-text' if G.is_directed() else 'undirected-text'
    except Exception:
        return 'unparsable-text'


def exc_origin(e):
    """package in which the exception was raised (innermost frame)"""
    tb = e.__traceback__
    last = ''
    while tb is not None:
        last = tb.tb_frame.f_code.co_filename
        tb = tb.tb_next
    for name in ('networkx', 'pydot', 'pyparsing'):
        if '/%s/' % name in last:
            return name
    return 'cnfgen' if '/cnfgen/' in last else 'other'


def asclass(gtype):
    return {'simple': 'as-simple', 'bipartite': 'as-bipartite'}.get(gtype, 'as-directed')


def check_text(case, tmp=None, stats=None):
    """Read one text with the real reader and judge the outcome."""
    gtype, fmt, text = case['gtype'], case['fmt'], case['text']
    out = []
    kind, val = read_text(text, gtype, fmt)
    inhouse = fmt in ref.INHOUSE
    P = ref.parse(fmt, gtype, text) if inhouse else None
    grp = group(gtype)

    def st(name):
        if stats is not None:
            stats[name] += 1

    if kind == 'exc':
        if isinstance(val, ValueError):
            st('text_rejected_ValueError')
            if inhouse and P.strict is not None:
                st('valid_text_rejected_ValueError(allowed)')
            return out
        if inhouse:
            rgroup = ':' + grp if fmt == 'kthlist' else ''
            klass = P.klass()
            if fmt == 'dimacs' and any(ln.strip() == '' for ln in ref.lines_of(text)):
                klass = 'blank-line'     # wherever it is: the reader works line by line
            key = 'read:%s%s:%s:exception:%s' % (fmt, rgroup, klass, type(val).__name__)
        else:
            org = exc_origin(val)
            if org in ('networkx', 'pydot', 'pyparsing'):
                # the third-party parser chokes on the text and cnfgen lets it through
                key = 'read:%s:malformed-text:exception:%s(%s)' % (fmt, type(val).__name__, org)
            else:
                key = 'read:%s:%s-%s:exception:%s' % (fmt, textclass(fmt, text), asclass(gtype),
                                                      type(val).__name__)
        out.append(viol(key, 'reading %r as %s/%s raised %s: %s (only ValueError is allowed)'
                        % (text[:200], gtype, fmt, type(val).__name__, val), case))
        return out
    st('text_accepted')
    obs, pb = observe(val, gtype)
    if pb:
        out.append(viol('read:%s:%s:malformed-result' % (fmt, grp),
                        'reading %r as %s/%s gives a malformed graph: %r' % (text[:200], gtype, fmt, pb),
                        case))
        return out
    if gtype == 'dag' and any(u >= v for u, v in obs['edges']):
        out.append(viol('read:%s:dag:nonincreasing-edge:accepted' % fmt,
                        'text %r accepted as dag with edges %r' % (text[:200], obs['edges']), case))
        return out
    if not inhouse:
        S = gd.read_gml(text) if fmt == 'gml' else gd.read_dot(text)
        exp = gd.expected(S, gtype)
        if exp is None:
            st('accepted_unjudged_' + fmt)
        else:
            sym = ref.diff(exp, obs)
            if sym:
                out.append(viol('read:%s:%s:plain-text:%s' % (fmt, grp, sym),
                                'plain %s text %r denotes %r but was read as %r'
                                % (fmt, text, exp, obs), case))
                return out
            st('accepted_equal_to_plain_%s_reading' % fmt)
        exp_n = case.get('expect_n')
        if exp_n is not None and order_of(obs) != exp_n:
            out.append(viol('read:%s:%s-%s:vertex-count' % (fmt, textclass(fmt, text), asclass(gtype)),
                            'file declares %d vertices, graph read has %d' % (exp_n, order_of(obs)),
                            case))
        return out
    if P.strict is not None:
        sym = ref.diff(P.strict, obs)
        if sym:
            out.append(viol('read:%s:%s:valid-text:%s' % (fmt, grp, sym),
                            'well-formed text %r denotes %r but was read as %r' % (text, P.strict, obs),
                            case))
        else:
            st('accepted_equal_to_strict_reference')
    elif P.content is None:
        tg = 'dag' if P.fatal == 'nonincreasing-edge' else grp
        out.append(viol('read:%s:%s:%s:accepted' % (fmt, tg, P.fatal),
                        'text %r is not a %s file for a %s graph (%s) but was read as %r'
                        % (text, fmt, gtype, P.fatal, obs), case))
    else:
        sym = ref.consistent(fmt, gtype, P.content, obs)
        if sym:
            out.append(viol('read:%s:%s:%s:%s' % (fmt, grp, P.reason, sym),
                            'text %r (%s) mentions %r but was read as %r'
                            % (text, P.reason, P.content, obs), case))
        else:
            st('accepted_lenient_consistent')
            st('lenient:' + str(P.reason))
    return out


# ---------------------------------------------------- (b) digraph read as dag
def check_dagread(case, tmp=None, stats=None):
    fmt, g = case['fmt'], case['g']
    out = []
    want = canon('digraph', g)
    G = build('digraph', g)
    try:
        with Quiet():
            text = write_text(G, 'digraph', fmt)
    except Exception:
        return out             # reported by the round-trip part
    kind, val = read_text(text, 'dag', fmt)
    increasing = all(u < v for u, v in want['edges'])
    if kind == 'exc':
        if not isinstance(val, ValueError):
            out.append(viol('dag:%s:exception:%s' % (fmt, type(val).__name__),
                            'reading %r as dag raised %r' % (text[:200], val), case))
        elif increasing:
            out.append(viol('dag:%s:increasing-edges:rejected' % fmt,
                            'all edges of %r increase, yet the file %r is rejected as dag: %s'
                            % (want, text[:200], val), case))
        elif stats is not None:
            stats['dag_rejected'] += 1
        return out
    obs, pb = observe(val, 'dag')
    if not increasing:
        out.append(viol('dag:%s:nonincreasing-edge:accepted' % fmt,
                        'digraph %r written to %r is accepted as dag: %r' % (want, text[:200], obs),
                        case))
        return out
    if pb or ref.diff(want, obs):
        out.append(viol('dag:%s:increasing-edges:wrong-graph' % fmt,
                        'wrote %r read %r %r' % (want, obs, pb), case))
    elif stats is not None:
        stats['dag_accepted'] += 1
    return out


# ------------------------------------------- (a') command line: <file> save --
def check_cli(case, tmp, stats=None):
    from cnfgen.graphs import readGraph, writeGraph
    from cnfgen.clitools.graph_args import make_graph_from_spec
    gtype, g, fin, fout = case['gtype'], case['g'], case['fin'], case['fout']
    out = []
    want = canon(gtype, g)
    G = build(gtype, g)
    pin = tmp.path('in.' + fin)
    pout = tmp.path('out.' + (fout if not case['explicit'] else 'txt'))
    try:
        with Quiet():
            writeGraph(G, pin, gtype)
    except Exception:
        return out             # reported by the round-trip part
    if fin in ('dimacs', 'kthlist') and len(g['edges']) % 2 == 0:
        # a file with several comment lines before the data, as people write
        # them (the second one starts like a data line of the format)
        with open(pin) as f_:
            body_ = f_.read()
        with open(pin, 'w') as f_:
            f_.write('c a graph written by hand\nc edges of the graph follow\nc p edge 9 9 is not the header\n' + body_)
    if case['explicit']:
        spec = [fin, pin, 'save', fout, pout]
    else:
        spec = [pin, 'save', pout]
    grp = group(gtype)
    try:
        with Quiet():
            H = make_graph_from_spec(gtype, spec)
    except Exception as e:
        out.append(viol('cli:file-argument:%s:%s:exception:%s' % (fin, grp, type(e).__name__),
                        'graph argument %r raised %r' % (spec, e), case))
        return out
    obs, pb = observe(H, gtype)
    sym = 'malformed-result' if pb else ref.diff(want, obs)
    if sym:
        out.append(viol('cli:file-argument:%s:%s:%s' % (fin, grp, sym),
                        'graph %r through argument %r is %r %r' % (want, spec, obs, pb), case))
        return out
    try:
        with Quiet():
            K = readGraph(pout, gtype, fout)
    except Exception as e:
        out.append(viol('cli:save:%s:%s:unreadable:%s' % (fout, grp, type(e).__name__),
                        'file saved by %r cannot be read back: %r' % (spec, e), case))
        return out
    obs, pb = observe(K, gtype)
    sym = 'malformed-result' if pb else ref.diff(want, obs)
    if sym:
        out.append(viol('cli:save:%s:%s:%s' % (fout, grp, sym),
                        'graph %r saved by %r reads back as %r %r' % (want, spec, obs, pb), case))
    elif stats is not None:
        stats['cli_roundtrips'] += 1
    return out


def replay(case):
    if case.get('kind') == 'nodot':
        from engine.common import R as _R
        r = _R('replay')
        run_nodot({}, r)
        return r.violations
    setup_paths()
    tmp = Scratch()
    try:
        k = case['kind']
        if k == 'rt':
            return check_rt(case, tmp)
        if k == 'text':
            return check_text(case, tmp)
        if k == 'dagread':
            return check_dagread(case, tmp)
        if k == 'cli':
            return check_cli(case, tmp)
        raise KeyError(k)
    finally:
        tmp.close()


# ------------------------------------------------------------ line alphabets
ALPHA = {
    'kthlist-nonbip': (
        ['', 'c comment', '3', '2', '0', 'x', '1 : 0', '2 : 1 0', '3 : 1 2 0', '3 : 2 0',
         '1 : 2 0', '1 : 3 0', '2 : 2 0', '3 : 4 0', '4 : 1 0', '2 : 1', '2 : 0 1 0', '1 2 0',
         '2 : x 0', '2:1 0'],
        [' ', '-1', 'c', '0 : 1 0', ': 1 0', '2 : 1 1 0', '3 : 2 1 0', '2 : 3 0', '+3',
         '2 : 1 0 3', '1 : 2 : 3 0']),
    'kthlist-bip': (
        ['', 'c comment', '4', '3', '0', 'x', '1 : 0', '2 : 0', '1 : 3 0', '1 : 3 4 0',
         '1 : 4 3 0', '2 : 3 0', '2 : 4 0', '3 : 4 0', '1 : 2 0', '3 : 1 0', '1 : 5 0', '1 : 3',
         '1 : 3 3 0', '1 : 1 0'],
        [' ', '-1', '2 : 3 4 0', '1 : 4 0', '3 : 0', '4 : 0', '0 : 3 0', '1 : x 0', '1:3 0',
         '2', '+4']),
    'dimacs': (
        ['', 'c comment', 'p edge 3 0', 'p edge 3 1', 'p edge 3 2', 'p edge 2 1', 'p col 3 1',
         'p edge 3', 'p edge x 1', 'e 1 2', 'e 2 1', 'e 2 3', 'e 1 3', 'e 1 1', 'e 3 4',
         'e 0 1', 'e 1', 'e 1 x', 'x 1 2', ' e 1 2'],
        [' ', 'c', 'p edge 0 0', 'p edge -1 0', 'p edge 3 -1', 'e 1 2 3', 'e 3 2', 'e 3 1',
         'p edge 3 3', 'n 1 2', 'edge 1 2', 'p  edge  3  1']),
    'matrix': (
        ['', '# comment', '2 2', '2', '0 0', '1 2', '2 1', '0 2', '-1 2', 'x', '0', '1', '0 1',
         '1 0', '1 1', '0 0 1', '1 1 1 1', '2 2 1 0 0 1', '1 2 0', '0 # x'],
        [' ', '3 1', '1 3', '1 0 1', '2 0', '#', '+1', '1 -1', '2 2 2', '0 0 0 0']),
}


def alphabet(name, tier):
    q, t = ALPHA[name]
    return q + t if tier == 'thorough' else q


def alpha_name(gtype, fmt):
    if fmt == 'kthlist':
        return 'kthlist-bip' if gtype == 'bipartite' else 'kthlist-nonbip'
    return fmt


def struct_language(gtype, fmt):
    """(headers, body alphabet) of the `header + body` texts."""
    if fmt == 'kthlist' and gtype != 'bipartite':
        rows = []
        for u in (1, 2, 3):
            for k in range(4):
                for S in itertools.combinations((1, 2, 3), k):
                    rows.append('%d :%s 0' % (u, ''.join(' %d' % v for v in S)))
        return ['3'], rows + ['', 'c x']
    if fmt == 'kthlist':
        rows = []
        for u in (1, 2, 3):
            for k in range(4):
                for S in itertools.combinations((2, 3, 4), k):
                    rows.append('%d :%s 0' % (u, ''.join(' %d' % v for v in S)))
        return ['4'], rows + ['', 'c x']
    if fmt == 'dimacs':
        rows = ['e %d %d' % (u, v) for u in (1, 2, 3) for v in (1, 2, 3)]
        return ['p edge 3 %d' % m for m in range(5)], rows + ['', 'c x']
    if fmt == 'matrix':
        return ['2 2', '2', '1 2'], ['0', '1', '0 0', '0 1', '1 0', '1 1', '', '# c', '0 0 0', '2 1']
    raise KeyError(fmt)


TOKENS = {
    'kthlist': ('0', '1', '2', '3', '4', '-1', 'x', ':', 'c'),
    'dimacs': ('0', '1', '2', '3', '4', '-1', 'x', 'e', 'p', 'c', 'edge'),
    'matrix': ('0', '1', '2', '3', '-1', 'x', '#'),
    'gml': ('0', '1', '3', 'x', '[', ']', 'node', 'edge', 'graph', '"1"'),
    'dot': ('1', '2', '4', '--', '->', '{', '}', 'graph', 'digraph', ';', '1;', 'x'),
}
INSERT = {
    'kthlist': ('', 'c comment'), 'dimacs': ('', 'c comment'), 'matrix': ('', '# comment'),
    'gml': ('', '# comment'), 'dot': ('', '// comment'),
}


# I/O routes of a round trip, by index of the graph in its enumeration: the
# cheap formats always go through StringIO and, in turn, through one of the
# two file routes; dot (slow) goes through one route per graph
ROUTES = {
    'all': (('sio', 'path', 'file'),) * 3,
    'most': (('sio',), ('sio', 'path'), ('sio', 'file')),
    'one': (('sio',), ('path',), ('file',)),
}


# -------------------------------------------------------------------- shards
class Rep(object):
    """Per-shard reporting: at most 3 cases per key are kept (a frequent known
    defect must not crowd the other keys out of the shard's violation list)."""

    def __init__(self, R):
        self.R = R
        self.perkey = {}

    def report(self, vs):
        for v in vs:
            k = v['key']
            self.perkey[k] = self.perkey.get(k, 0) + 1
            self.R.outcomes['violation:' + k] += 1
            if self.perkey[k] <= 3:
                self.R.bad(v['key'], v['what'], v['case'])
            else:
                self.R.stats['violating_cases_not_listed'] += 1


def run_units(units, R):
    setup_paths()
    tmp = Scratch()
    rep = Rep(R)
    try:
        for u in units:
            globals()['unit_' + u[0]](u, R, rep, tmp)
    finally:
        tmp.close()


def unit_rt(u, R, rep, tmp):
    _, gtype, fmt, spec, i, k, vias = u
    for idx, g in striped(spec, i, k):
        for j, via in enumerate(ROUTES[vias][idx % 3]):
            case = {'kind': 'rt', 'gtype': gtype, 'fmt': fmt, 'via': via, 'g': g,
                    'handle': bool(idx % 2)}
            vs = check_rt(case, tmp, R.stats)
            R.case(sample=case if idx % 211 == 0 and j == 0 else None, nontrivial=order_of(g) > 0)
            R.outcomes['roundtrip:%s:%s' % (gtype, fmt)] += 1
            rep.report(vs)


def _text_case(R, rep, gtype, fmt, text, origin=None, sample=False, expect_n=None):
    case = {'kind': 'text', 'gtype': gtype, 'fmt': fmt, 'text': text}
    if origin is not None:
        case['origin'] = origin
    if expect_n is not None:
        case['expect_n'] = expect_n
    vs = check_text(case, None, R.stats)
    R.case(sample=case if sample else None, nontrivial=text.strip() != '')
    rep.report(vs)


def unit_lang(u, R, rep, tmp):
    """all texts of <= maxlines lines whose first line is alphabet[first];
    first == -1: the empty text; texts end with a newline, and every text of
    <= maxlines-1 lines is also tried without the final newline"""
    _, gtype, fmt, tier, maxlines, first = u
    alpha = alphabet(alpha_name(gtype, fmt), tier)
    R.outcomes['language:%s:%s' % (gtype, fmt)] += 0
    if first < 0:
        _text_case(R, rep, gtype, fmt, '', sample=True)
        R.stats['language_texts'] += 1
        return
    head = alpha[first]
    cnt = 0
    for k in range(0, maxlines):
        for rest in itertools.product(alpha, repeat=k):
            lines = (head,) + rest
            body = '\n'.join(lines)
            _text_case(R, rep, gtype, fmt, body + '\n', sample=(cnt % 50021 == 7))
            cnt += 1
            if k < maxlines - 1 and lines[-1] != '':
                _text_case(R, rep, gtype, fmt, body)
                cnt += 1
    R.stats['language_texts'] += cnt
    R.outcomes['language:%s:%s' % (gtype, fmt)] += cnt


def unit_struct(u, R, rep, tmp):
    """header line + <= maxbody body lines, first body line fixed"""
    _, gtype, fmt, maxbody, first = u
    headers, body = struct_language(gtype, fmt)
    cnt = 0
    for h in headers:
        if first < 0:
            _text_case(R, rep, gtype, fmt, h + '\n')
            cnt += 1
            continue
        for k in range(0, maxbody):
            for rest in itertools.product(body, repeat=k):
                text = '\n'.join((h, body[first]) + rest) + '\n'
                _text_case(R, rep, gtype, fmt, text, sample=(cnt % 50021 == 11))
                cnt += 1
    R.stats['structured_texts'] += cnt
    R.outcomes['structured:%s:%s' % (gtype, fmt)] += cnt


def unit_faults(u, R, rep, tmp):
    _, gtype, fmt, spec, i, k, tokens = u
    seen = set()
    for idx, g in striped(spec, i, k):
        G = build(gtype, g)
        try:
            with Quiet():
                text = write_text(G, gtype, fmt)
        except Exception:
            continue           # reported by the round-trip part
        toks = TOKENS[fmt] if tokens else ()
        n = 0
        for kind, pos, new in F.faults(text, token_alphabet=toks, insert_lines=INSERT[fmt]):
            if new in seen:    # the same faulty text from another file of this unit
                continue
            seen.add(new)
            _text_case(R, rep, gtype, fmt, new, origin={'g': g, 'fault': kind, 'at': pos},
                       sample=(n == 5 and idx % 37 == 0))
            n += 1
        R.stats['fault_texts'] += n
        R.outcomes['faults:%s:%s' % (gtype, fmt)] += n


def unit_faults2(u, R, rep, tmp):
    """every pair of faults of the written files (in-house formats)"""
    _, gtype, fmt, spec, i, k, tokens = u
    seen = set()
    for idx, g in striped(spec, i, k):
        G = build(gtype, g)
        try:
            text = write_text(G, gtype, fmt)
        except Exception:
            continue
        toks = TOKENS[fmt] if tokens else ()
        n = 0
        for kind, pos, new in F.double_faults(text, token_alphabet=toks, insert_lines=INSERT[fmt]):
            if new in seen:
                continue
            seen.add(new)
            _text_case(R, rep, gtype, fmt, new, origin={'g': g, 'fault': kind, 'at': pos},
                       sample=(n == 977 and idx % 5 == 0))
            n += 1
        R.stats['double_fault_texts'] += n
        R.outcomes['faults2:%s:%s' % (gtype, fmt)] += n


def unit_cross(u, R, rep, tmp):
    _, gtype, fmt, spec, i, k = u
    for idx, g in striped(spec, i, k):
        G = build(gtype, g)
        try:
            with Quiet():
                text = write_text(G, gtype, fmt)
        except Exception:
            continue
        for other in GTYPES:
            if other == gtype or fmt not in FORMATS[other]:
                continue
            _text_case(R, rep, other, fmt, text, origin={'g': g, 'written_as': gtype},
                       sample=(idx % 101 == 0), expect_n=order_of(g))
            R.stats['cross_type_reads'] += 1
            R.outcomes['cross:%s->%s:%s' % (gtype, other, fmt)] += 1


def unit_dagread(u, R, rep, tmp):
    _, fmt, spec, i, k = u
    for idx, g in striped(spec, i, k):
        case = {'kind': 'dagread', 'fmt': fmt, 'g': g}
        vs = check_dagread(case, None, R.stats)
        R.case(sample=case if idx % 173 == 0 else None, nontrivial=g['n'] > 0)
        R.outcomes['dagread:%s' % fmt] += 1
        rep.report(vs)


def unit_cli(u, R, rep, tmp):
    _, gtype, spec, i, k = u
    for idx, g in striped(spec, i, k):
        fs = FORMATS[gtype]
        for a, fin in enumerate(fs):
            for b, fout in enumerate(fs):
                case = {'kind': 'cli', 'gtype': gtype, 'g': g, 'fin': fin, 'fout': fout,
                        'explicit': bool((idx + a + b) % 2)}
                vs = check_cli(case, tmp, R.stats)
                R.case(sample=case if (idx + a + b) % 67 == 0 else None, nontrivial=order_of(g) > 0)
                R.outcomes['cli:%s' % gtype] += 1
                rep.report(vs)


def small_sources(gtype, nmax):
    """sources of all graphs of a type with at most nmax vertices"""
    if gtype == 'simple':
        return [('simple', n) for n in range(nmax + 1)]
    if gtype == 'dag':
        return [('dag', n) for n in range(nmax + 1)]
    if gtype == 'digraph':
        return [('digraph', n, True) for n in range(nmax + 1)]
    return [('bip', L, Rr) for L in range(nmax + 1) for Rr in range(nmax + 1) if L + Rr <= nmax]


# estimated CPU cost (ms) of one case, used only to balance the shards
RT_MS = {'dot': 17.0, 'gml': 1.0, 'kthlist': 0.35, 'dimacs': 0.35, 'matrix': 0.4}
READ_MS = {'dot': 9.0, 'gml': 0.4, 'kthlist': 0.015, 'dimacs': 0.015, 'matrix': 0.025}
UNIT_MS = 1200.0      # target size of a work unit


def plan(tier, seed):
    """list of (estimated cost in ms, unit)"""
    th = tier == 'thorough'
    units = []

    def add_graph_units(kind, gtype, fmt, spec, per_graph_ms, extra=()):
        n = source_size(spec)
        if n == 0:
            return
        k = max(1, min(n, int(n * per_graph_ms / UNIT_MS) + 1))
        for i in range(k):
            cnt = len(range(i, n, k))
            if kind == 'dagread':
                unit = (kind, fmt, spec, i, k)
            elif kind == 'cli':
                unit = (kind, gtype, spec, i, k)
            else:
                unit = (kind, gtype, fmt, spec, i, k) + tuple(extra)
            units.append((cnt * per_graph_ms, unit))

    # ---- (a) round trips --------------------------------------------------
    core = {
        'simple': [('simple', n) for n in range(0, (5 if th else 4) + 1)],
        'digraph': [('digraph', n, True) for n in range(0, 4)],
        'dag': [('dag', n) for n in range(0, 5)],
        'bipartite': [('bip', L, Rr) for L in range(4) for Rr in range(4)],
    }
    big = {       # thorough only, formats other than dot
        'simple': [('simple', 6)],
        'digraph': [('digraph', 4, False)],
        'dag': [],
        'bipartite': [('bip', 3, 4), ('bip', 4, 3)],
    }
    for gtype in GTYPES:
        for fmt in FORMATS[gtype]:
            routes = 'one' if fmt == 'dot' else 'most'
            srcs = [(s, routes) for s in core[gtype]]
            if th and gtype == 'dag':
                srcs.append((('dag', 5), routes))
            if th and fmt != 'dot':
                srcs += [(s, 'most') for s in big[gtype]]
            maxe = 1 if (fmt == 'dot' and not th and gtype in ('digraph', 'bipartite')) else 2
            if gtype == 'simple':
                srcs += [(('bsimple', n, 2), routes) for n in (10, 11, 12)]
            elif gtype == 'dag':
                srcs += [(('bdag', n, 2), routes) for n in (10, 11, 12)]
            elif gtype == 'digraph':
                srcs += [(('bdigraph', n, maxe), routes) for n in (10, 11, 12)]
            else:
                srcs += [(('bbip', L, Rr, maxe), routes) for (L, Rr) in
                         ((1, 9), (9, 1), (5, 5), (2, 10), (10, 2), (11, 12), (12, 12))]
                # wide right sides (rows long enough for a writer to wrap them)
                srcs += [(('bbip', L, Rr, 1), routes) for (L, Rr) in ((2, 50), (2, 51), (1, 101), (2, 52), (51, 2))]
            srcs.append((('extra', gtype, seed), 'all' if fmt != 'dot' else 'one'))
            srcs.append((('large', gtype, 300), 'one' if fmt == 'dot' else 'most'))
            for spec, rts in srcs:
                per = RT_MS[fmt] * {'one': 1.0, 'most': 1.7, 'all': 3.0}[rts]
                add_graph_units('rt', gtype, fmt, spec, per, extra=(rts,))
    # ---- (a') command line: <file> save <file> over all format pairs ------------
    for gtype in GTYPES:
        for spec in small_sources(gtype, 3 if (th and gtype != 'digraph') else 2):
            add_graph_units('cli', gtype, None, spec, 70.0)
    # ---- (b) languages -------------------------------------------------------
    for gtype in GTYPES:
        for fmt in FORMATS[gtype]:
            if fmt not in ref.INHOUSE:
                continue
            alpha = alphabet(alpha_name(gtype, fmt), tier)
            A = len(alpha)
            per_first = sum(A ** k for k in range(0, 4)) * 1.06 * READ_MS[fmt]
            units.append((0.1, ('lang', gtype, fmt, tier, 4, -1)))
            for first in range(A):
                units.append((per_first, ('lang', gtype, fmt, tier, 4, first)))
            headers, body = struct_language(gtype, fmt)
            maxbody = 4
            if th and fmt in ('dimacs', 'matrix'):
                maxbody = 5
            if not th and fmt == 'kthlist':
                maxbody = 3
            B = len(body)
            per_first = len(headers) * sum(B ** k for k in range(0, maxbody)) * READ_MS[fmt]
            units.append((0.1, ('struct', gtype, fmt, maxbody, -1)))
            for first in range(B):
                units.append((per_first, ('struct', gtype, fmt, maxbody, first)))
    # ---- (b) faults of written files ---------------------------------------
    for gtype in GTYPES:
        for fmt in FORMATS[gtype]:
            tokens = True
            if fmt in ref.INHOUSE:
                per = 12.0
                srcs = small_sources(gtype, 3)
                if gtype == 'bipartite':
                    srcs = [('bip', L, Rr) for L in range(3) for Rr in range(3)]
                # two-digit vertex numbers (10, 11, 12): a fault next to a token
                # that ends in 0, a number that loses a digit...
                srcs = srcs + [{'simple': ('bsimple', 12, 2), 'dag': ('bdag', 12, 2),
                                'digraph': ('bdigraph', 12, 1), 'bipartite': ('bbip', 11, 12, 1)}[gtype]]
            else:
                # dot faults of the 512 digraphs on 3 vertices: thorough tier only,
                # and without the token faults
                nmax = 3 if (th or gtype != 'digraph' or fmt == 'gml') else 2
                srcs = small_sources(gtype, nmax)
                if gtype == 'bipartite':     # 2x2: node lines of both sides can be swapped
                    srcs = srcs + [('bip', 2, 2)]
                per = 100.0 if fmt == 'gml' else 1100.0
            for spec in srcs:
                if fmt == 'dot' and spec == ('digraph', 3, True):
                    add_graph_units('faults', gtype, fmt, spec, 450.0, extra=(False,))
                else:
                    add_graph_units('faults', gtype, fmt, spec, per, extra=(tokens,))
    # ---- (b) pairs of faults, in-house formats, graphs with <= 2 vertices
    #          (thorough: simple, dag and bipartite graphs with 3 vertices too)
    for gtype in GTYPES:
        for fmt in FORMATS[gtype]:
            if fmt not in ref.INHOUSE:
                continue
            for spec in small_sources(gtype, 2):
                add_graph_units('faults2', gtype, fmt, spec, 800.0, extra=(True,))
            if th and gtype != 'digraph':
                for spec in small_sources(gtype, 3):
                    if spec not in small_sources(gtype, 2):
                        add_graph_units('faults2', gtype, fmt, spec, 1500.0, extra=(True,))
    # ---- (b) written files read as another type; digraphs read as dag ----------
    for gtype in GTYPES:
        for fmt in FORMATS[gtype]:
            for spec in small_sources(gtype, 3):
                add_graph_units('cross', gtype, fmt, spec, READ_MS[fmt] * 3 + 0.3)
    for fmt in FORMATS['digraph']:
        for spec in small_sources('digraph', 3):
            add_graph_units('dagread', 'digraph', fmt, spec, READ_MS[fmt] + 0.3)
    return units


def run_nodot(args, R):
    """An installation without the optional package pydot (fresh interpreter,
    see engine/c14_nodot.py): the other documented formats of every graph
    type are offered and round-trip."""
    import json
    import subprocess
    from engine.common import VERIF
    env = dict(os.environ)
    env['VERIF_REPO_PATH'] = os.environ.get('VERIF_REPO', '/repo')
    env.pop('PYTHONPATH', None)
    p = subprocess.run([sys.executable, os.path.join(VERIF, 'engine', 'c14_nodot.py')],
                       stdout=subprocess.PIPE, stderr=subprocess.PIPE, env=env, timeout=300)
    if p.returncode != 0:
        raise RuntimeError('c14_nodot failed: %s' % p.stderr.decode()[-1500:])
    res = json.loads(p.stdout.decode())
    if res['has_dot_library']:
        raise RuntimeError('pydot could not be hidden from the interpreter')
    R.stats['roundtrips_without_pydot'] += res['roundtrips']
    for sym, gtype, what in res['problems']:
        R.bad('no-pydot:%s:%s' % (group(gtype), sym), '%s graphs without pydot: %s' % (gtype, what),
              {'kind': 'nodot'})
    R.case(sample={'kind': 'nodot'}, nontrivial=True, n=res['roundtrips'])


def big_texts():
    """Hand-made texts on 300 vertices (numbers beyond the small-integer cache
    of the interpreter, three digits): a valid one and single corruptions at
    high-numbered vertices, for the in-house formats."""
    out = []
    for gtype in ('simple', 'digraph', 'dag'):
        base = [(1, 2), (257, 299), (258, 300), (299, 300)]
        variants = {'valid': base, 'loop-high': base + [(299, 299)], 'loop-257': base + [(257, 257)],
                    'loop-low': base + [(2, 2)], 'out-of-range': base + [(300, 301)],
                    'repeated': base + [(257, 299)], 'reversed-repeat': base + [(299, 257)]}
        for nm, es in sorted(variants.items()):
            text = 'c %s\np edge 300 %d\n' % (nm, len(es)) + ''.join('e %d %d\n' % e for e in es)
            out.append({'kind': 'text', 'gtype': gtype, 'fmt': 'dimacs', 'text': text, 'big': nm})
            if nm in ('repeated', 'reversed-repeat'):
                # ... and the header announcing the number of DISTINCT edges
                # instead of the number of edge lines
                text = 'c %s\np edge 300 %d\n' % (nm, len(es) - 1) + ''.join('e %d %d\n' % e for e in es)
                out.append({'kind': 'text', 'gtype': gtype, 'fmt': 'dimacs', 'text': text, 'big': nm + '-undercount'})
            adj = {}
            for (u, v) in es:
                if gtype == 'simple':
                    adj.setdefault(u, []).append(v)
                    if u != v:
                        adj.setdefault(v, []).append(u)
                else:
                    adj.setdefault(v, []).append(u)      # predecessors of v
            lines = ['c %s' % nm, '300']
            for v in range(1, 301):
                lines.append('%d : %s0' % (v, ''.join('%d ' % u for u in adj.get(v, []))))
            out.append({'kind': 'text', 'gtype': gtype, 'fmt': 'kthlist', 'text': '\n'.join(lines) + '\n', 'big': nm})
    for gtype in ('simple', 'digraph', 'dag'):
        for text in ('p edge 2 1\ne 1 2\ne 1 2\n', 'p edge 3 2\ne 1 2\ne 2 3\ne 1 2\n',
                     'p edge 3 2\ne 1 2\ne 1 3\ne 2 1\n', 'p edge 2 2\ne 1 2\ne 1 2\n',
                     'p edge 4 3\ne 1 2\ne 3 4\ne 2 1\n', 'p edge 4 2\ne 1 2\ne 3 4\ne 2 1\n'):
            out.append({'kind': 'text', 'gtype': gtype, 'fmt': 'dimacs', 'text': text, 'big': 'small-repeat'})
    return out


def run_bigtexts(args, R):
    for case in big_texts():
        vs = check_text(case, None, R.stats)
        R.case(sample={k_: v_ for k_, v_ in case.items() if k_ != 'text'}, nontrivial=True)
        R.outcomes['bigtext:%s' % case['fmt']] += 1
        for v in vs[:2]:
            R.bad(v['key'], v['what'], v['case'])


def shards(tier, seed):
    units = plan(tier, seed)
    k = 64
    # longest-processing-time packing (deterministic)
    order = sorted(range(len(units)), key=lambda j: (-units[j][0], j))
    loads = [0.0] * k
    bins = [[] for _ in range(k)]
    for j in order:
        b = min(range(k), key=lambda x: (loads[x], x))
        bins[b].append(units[j][1])
        loads[b] += units[j][0]
    # heaviest shards first so that the pool ends evenly
    idx = sorted(range(k), key=lambda b: (-loads[b], b))
    return [('s%03d' % n, 'run_units', bins[b]) for n, b in enumerate(idx) if bins[b]] + \
        [('nodot', 'run_nodot', {}), ('bigtexts', 'run_bigtexts', {})]
