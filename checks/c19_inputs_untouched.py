"""C19  Transformations leave their inputs untouched and record provenance.

Part A (explicit-state search).  States are real CNF objects.  From every
formula of a start catalogue (engine.scope.small_cnf_catalogue, header
variants, family instances with named variables) every chain of
transformations of bounded length over the alphabet of ALL transformations
exported by cnfgen/__init__.py is executed.  At every transition T(F):

  * the complete state of F (clauses, variable count, names, header and the
    whole object graph below F) is the same before and after the call, also
    when the call raises; the same holds for every list / graph argument;
  * the result is a distinct formula object;
  * the header of the result = the entries of F in order (the description may
    only be extended, never replaced) + exactly one new entry whose key is
    'transformation <k+1>' (k = numbered entries already present), also in
    the comment lines of the DIMACS output, and after n steps the header is
    the start header + n consecutively numbered entries;
  * aliasing probes, all on a private deep copy Fa of F so that the explored
    state is never touched: (a) a result of T(Fa) is mutated through the
    public API (add_clause, header entries, new variables) and through its
    clause lists -> Fa and the arguments must not move; then every mutable
    container reachable from both sides is mutated -> same; (b) Fa is mutated
    in the same way -> another result of T(Fa) must not move.  A bare
    reference from one formula to the other is not counted as state.
  * a state involved in a violation is never built upon (one defect, one
    key), and an input changed by the real call is rebuilt from its history.

Part B (bounded exhaustive).  Every family generator that takes a graph over
all graphs of a small scope (cnfgen and networkx objects), every constraint
builder of CNF and OPB over all literal lists of a small scope, Tseitin
charges, bipartite_shift patterns, planted assignments, Shuffle's explicit
lists and VariableCompression's graph: the argument is bit-for-bit the same
after the call, also when the call raises, and the formula holds copies.

Part T.  Two different exported transformations applied with the same
arguments must not record the same provenance text.
"""
import re
import copy
import random
import hashlib
import itertools
from io import StringIO

from engine import scope
from engine.common import setup_paths
from ref import c19_state as st

PROPERTY = 'C19'
SECOND_PASS = ('run_G', 'run_L', 'run_O')     # see engine/common._run_shard
LEVEL = 'model_checking'
EXHAUSTIVE = True
RULE = ('A: from each of 31 start formulas, every chain of <=2 (quick; <=3 from two tiny starts) / <=3 '
        '(thorough) transformations of the core alphabet (17 entries: every transformation exported by '
        'cnfgen/__init__.py at a fixed rank, Shuffle with explicit lists and with "fixed", VariableCompression '
        'xor/maj on a fixed graph) and every chain of <=1 (quick) / <=2 (thorough) steps with exactly one step from the '
        'extended alphabet (55 more entries: other ranks, boundary constants, tuples, ranges, keyword '
        'arguments, seeded random shuffle, networkx / complete graphs, refused arguments); a transition is '
        'executed when its a-priori size bound sum(fanout^|C| * width * |C|) is <= 3000 literals; states are '
        'merged only on equality of the complete object graph and of the remaining budget. '
        'B: every graph of the scope x every graph-taking generator x option sets x {CNF,OPB} x '
        '{cnfgen object, networkx object}; every literal list of the scope x every builder x every operator '
        'x every constant -1..n+1 x check on/off; all explicit Shuffle argument triples for 5 small formulas '
        '(288 for 3 variables x 3 clauses) plus all refused variants; all Tseitin charge vectors on all '
        'graphs <= 3 vertices; all arrangements of <= 3 offsets out of 0..3 for bipartite_shift.  '
        'A case is non-trivial when the formula has a clause and a variable (A) / the argument is non-empty '
        '(B); cases are distinct by construction of the enumerators')
ASSUMPTIONS = [
    'bounded scope: start catalogue of 31 formulas (<= 6 variables, <= 12 clauses); chain length <= 3; '
    'transitions whose a-priori size bound exceeds 3000 literals are outside the scope (counted as '
    'A:outside_size_bound, not as a cap hit)',
    'graphs: simple graphs <= 3 (4 thorough) vertices, DAGs <= 3 (4) vertices, all digraphs with loops <= 2 '
    'vertices, bipartite graphs <= 2x2 (3x2, 2x3, 3x1, 1x3 thorough); literal lists over <= 4 (5) variables',
    'the complete state of an object is what is reachable through __dict__, items and elements '
    '(ref/c19_state.deep_state); for networkx graphs the documented data structures (graph, _node, _adj, '
    '_pred, _succ), not the memoised views',
    'a list / dict / set reachable from both the result and the input (or an argument) whose mutation is '
    'visible on the other side counts as aliasing (key ...:aliasing:shared-container:...), in addition to '
    'the mutations possible through the public API (add_clause, header, new variables) and _clauses',
    'the description entry may be extended by a transformation (Shuffle appends " (reshuffled)") but must '
    'keep the original text as its beginning; counted as A:description_extended',
    'transformations are documented for cnfgen.CNF inputs only; OPB inputs are not explored in part A',
    'literal lists that contain non-literals passed with check=False are outside the documented domain '
    '(recorded as L:observation outcomes, not as violations)',
    'states are counted per shard (a state reached in two shards would be counted twice); VERIF_SEED only '
    'selects 2 of 6 additional mid-size start formulas explored for one step',
]


def VACUITY(tier):
    t = tier == 'thorough'
    return {'states': 60000 if t else 8000, 'transitions': 80000 if t else 9000,
            'executions': 250000 if t else 40000,
            'A:result_ok': 60000 if t else 8000, 'A:call_raised': 300,
            'A:chains_len2': 30000 if t else 4000, 'A:chains_len3': 20000 if t else 2000,
            'A:description_extended': 1000, 'A:mutable_arguments_checked': 3000,
            'A:start_states': 31, 'T:distinct_texts': 10,
            'G:calls_ok': 5000, 'G:calls_raised': 500, 'G:graphs_with_edges': 4000,
            'L:calls_ok': 8000, 'L:calls_raised': 800,
            'O:calls_ok': 1000, 'O:calls_raised': 400}


ENGINE = 'bfs+scope'
TECHNIQUE = ('explicit-state search over chains of real transformation calls with complete before/after '
             'snapshots and aliasing probes; bounded exhaustive enumeration of graph and list arguments')
LEVEL_TEXT = ('Every chain of transformations up to the stated length from every start formula is executed '
              'on the real objects; at every transition the complete object graph of the input and of every '
              'argument is compared before/after, the result header is compared with the provenance model, '
              'and both sides are mutated to expose aliasing.  Every graph / literal list of a small scope '
              'is passed to every generator / builder and compared before/after.')
LEVEL_NOTE = ('Trusted: ref/c19_state (generic snapshots) and copy.deepcopy for the input->result probe. '
              'Not covered: formulas larger than the size bound, chains longer than 3.')

SIZE_LIMIT = 3000
NUMBERED = re.compile(r'^transformation [1-9][0-9]*$')


PER_KEY = 3      # violations reported per key and shard (a known defect must not crowd out others)


def report(R, vs):
    seen = R.__dict__.setdefault('_c19_keys', {})
    for v in vs:
        seen[v['key']] = seen.get(v['key'], 0) + 1
        if seen[v['key']] <= PER_KEY:
            R.bad(v['key'], v['what'], v['case'])
        else:
            R.nviol += 1


def preload():
    setup_paths()
    import cnfgen  # noqa
    import networkx  # noqa


# ===================================================================== A ==
# ------------------------------------------------------- start formulas ----
def _path_graph(n):
    return scope.mk_graph(n, [(i, i + 1) for i in range(1, n)])


def _starts():
    """Ordered dict sid -> builder of a fresh formula."""
    import cnfgen
    from cnfgen.graphs import dag_pyramid
    out = {}
    cat = scope.small_cnf_catalogue()
    for i, (nv, cls) in enumerate(cat):
        out['cat%02d' % i] = (lambda nv=nv, cls=cls: scope.mk_cnf(nv, cls))

    def hdr_custom():
        F = scope.mk_cnf(*cat[12], description='my "formula" over {x}, 100% hand made')
        F.header['author'] = 'A. U. Thor'
        F.header['note 7'] = 'seven'
        return F

    def hdr_prior():
        F = scope.mk_cnf(*cat[7], description='already transformed once')
        F.header['transformation 1'] = 'done by hand'
        return F

    def hdr_prior2():
        F = scope.mk_cnf(*cat[6])
        F.header['transformation 1'] = 'first'
        F.header['transformation 2'] = 'second'
        F.header['trailer'] = 'after the numbered entries'
        return F

    def hdr_empty():
        F = scope.mk_cnf(*cat[12])
        F.header.clear()
        return F

    def hdr_nodesc():
        F = scope.mk_cnf(*cat[7])
        del F.header['description']
        F.header['transformation'] = 'a key without a number'
        return F

    def hdr_desclast():
        F = scope.mk_cnf(*cat[13], description='description moved last')
        F.header.move_to_end('description')
        return F
    def hdr_tool():
        # the entries the command line tools write themselves, as a formula
        # produced by `cnfgen --seed 42 ...` and handed to the library carries them
        F = scope.mk_cnf(*cat[12], description='made by the command line')
        F.header['random seed'] = 42
        F.header['command line'] = 'cnfgen --seed 42 php 3 2'
        F.header['seed'] = 'another spelling'
        return F
    out['hdr:tool'] = hdr_tool
    out['hdr:custom'] = hdr_custom
    out['hdr:prior1'] = hdr_prior
    out['hdr:prior2'] = hdr_prior2
    out['hdr:empty'] = hdr_empty
    out['hdr:nodesc'] = hdr_nodesc
    out['hdr:desclast'] = hdr_desclast

    def fam_php_hdr():
        F = cnfgen.PigeonholePrinciple(2, 1)
        F.header['comment'] = 'hello'
        return F

    def fam_named():
        F = cnfgen.CNF(description='hand made groups')
        x = F.new_variable('X')
        z = F.new_block(2, label='z_{{{}}}')
        F.update_variable_number(5)
        F.add_clause([x, -z(1)])
        F.add_clause([z(2), 4, -5])
        F.add_clause([-x, -4])
        return F

    def fam_ramsey():
        return cnfgen.RamseyWitnessFormula(scope.mk_graph(3, [(1, 2)]), 2, 2)
    out['fam:php22'] = lambda: cnfgen.PigeonholePrinciple(2, 2)
    out['fam:php21hdr'] = fam_php_hdr
    out['fam:kcolor'] = lambda: cnfgen.GraphColoringFormula(_path_graph(3), 2)
    out['fam:tseitin'] = lambda: cnfgen.TseitinFormula(scope.mk_graph(3, [(1, 2), (1, 3), (2, 3)]))
    out['fam:peb'] = lambda: cnfgen.PebblingFormula(dag_pyramid(1))
    out['fam:op3'] = lambda: cnfgen.OrderingPrinciple(3)
    out['fam:ramsey'] = fam_ramsey
    out['fam:bphp'] = lambda: cnfgen.BinaryPigeonholePrinciple(3, 2)
    out['fam:gphp'] = lambda: cnfgen.GraphPigeonholePrinciple(
        scope.mk_bipartite(2, 2, [(1, 1), (1, 2), (2, 2)]))
    out['fam:named'] = fam_named
    return out


def _extra_starts():
    """Mid-size instances appended to the exhaustive core; VERIF_SEED only
    selects which two of them are explored (one step of the core alphabet)."""
    import cnfgen
    from cnfgen.graphs import dag_pyramid
    return {
        'extra:php32': lambda: cnfgen.PigeonholePrinciple(3, 2),
        'extra:op4': lambda: cnfgen.OrderingPrinciple(4),
        'extra:tseitin-k4': lambda: cnfgen.TseitinFormula(scope.mk_graph(4, scope.all_pairs(4))),
        'extra:peb2': lambda: cnfgen.PebblingFormula(dag_pyramid(2)),
        'extra:count52': lambda: cnfgen.CountingPrinciple(5, 2),
        'extra:kcolor-c4': lambda: cnfgen.GraphColoringFormula(
            scope.mk_graph(4, [(1, 2), (2, 3), (3, 4), (1, 4)]), 3),
    }


def all_starts():
    d = _starts()
    d.update(_extra_starts())
    return d


TINY_STARTS = ('cat03', 'hdr:prior1')


# ------------------------------------------------------------- alphabet ----
def _vc_graph(N, deg, extra_left=0):
    L = N + extra_left
    Rr = max(deg, (L + 1) // 2 + 1)
    edges = sorted({(u, 1 + (u - 1 + j) % Rr) for u in range(1, L + 1) for j in range(deg)})
    return L, Rr, edges


def _vc_nx(N, deg):
    import networkx
    L, Rr, edges = _vc_graph(N, deg)
    G = networkx.Graph()
    G.add_nodes_from(range(1, L + 1), bipartite=0)
    G.add_nodes_from(range(L + 1, L + Rr + 1), bipartite=1)
    G.add_edges_from((u, L + v) for (u, v) in edges)
    G.name = 'a networkx bipartite graph'
    return G


def _shuf_lists(F):
    N = F.number_of_variables()
    M = len(F)
    flips = [-1 if i % 2 == 0 else 1 for i in range(N)]
    perm = list(range(2, N + 1)) + [1] if N else []
    cperm = list(range(M - 1, -1, -1))
    return flips, perm, cperm


def _alphabet():
    """name -> (function name, argument maker F -> (args, kwargs), fanout,
    width, core?).  fanout / width bound the clauses a literal is replaced by
    (used only for the a-priori size bound)."""
    from cnfgen.graphs import CompleteBipartiteGraph
    A = {}

    def reg(name, fn, mk, fan, wid, core=False):
        A[name] = (fn, mk, fan, wid, core)

    def const(*a, **kw):
        return lambda F: (list(a), dict(kw))
    # --- core: one entry per exported transformation ---------------------
    reg('xor2', 'XorSubstitution', const(2), 2, 2, True)
    reg('or2', 'OrSubstitution', const(2), 2, 2, True)
    reg('maj3', 'MajoritySubstitution', const(3), 3, 2, True)
    reg('eq3', 'AllEqualSubstitution', const(3), 3, 3, True)
    reg('neq3', 'NotAllEqualSubstitution', const(3), 3, 3, True)
    reg('one2', 'ExactlyOneSubstitution', const(2), 2, 2, True)
    reg('exk21', 'ExactlyKSubstitution', const(2, 1), 2, 2, True)
    reg('alk32', 'AtLeastKSubstitution', const(3, 2), 3, 2, True)
    reg('amk21', 'AtMostKSubstitution', const(2, 1), 2, 2, True)
    reg('abk21', 'AnythingButKSubstitution', const(2, 1), 2, 2, True)
    reg('ite', 'IfThenElseSubstitution', const(), 2, 2, True)
    reg('lift2', 'FormulaLifting', const(2), 2, 2, True)
    reg('flip', 'FlipPolarity', const(), 1, 1, True)
    reg('vcx', 'VariableCompression',
        lambda F: ([scope.mk_bipartite(*_vc_graph(F.number_of_variables(), 2)), 'xor'], {}), 2, 2, True)
    reg('vcm', 'VariableCompression',
        lambda F: ([scope.mk_bipartite(*_vc_graph(F.number_of_variables(), 3)), 'maj'], {}), 3, 2, True)
    reg('shuf', 'Shuffle', lambda F: (list(_shuf_lists(F)), {}), 1, 1, True)
    reg('shuffix', 'Shuffle', const('fixed', 'fixed', 'fixed'), 1, 1, True)
    # --- extended: other ranks / constants / argument shapes -------------
    for k in (1, 3):
        reg('xor%d' % k, 'XorSubstitution', const(k), 1 << (k - 1), k)
        reg('or%d' % k, 'OrSubstitution', const(k), k, k)
        reg('lift%d' % k, 'FormulaLifting', const(k), k, 2)
    for k in (1, 2):
        reg('maj%d' % k, 'MajoritySubstitution', const(k), 2, 2)
        reg('eq%d' % k, 'AllEqualSubstitution', const(k), 2, 2)
        reg('neq%d' % k, 'NotAllEqualSubstitution', const(k), 2, 2)
    reg('eqinv', 'AllEqualSubstitution', const(2, invert=True), 2, 2)
    reg('one1', 'ExactlyOneSubstitution', const(1), 1, 1)
    reg('one3', 'ExactlyOneSubstitution', const(3), 4, 3)
    for (n, k) in ((3, 0), (3, 1), (3, 3), (3, 4), (3, -1)):
        tag = '%d%s' % (n, str(k).replace('-', 'm'))
        reg('exk' + tag, 'ExactlyKSubstitution', const(n, k), 4, 3)
        reg('alk' + tag, 'AtLeastKSubstitution', const(n, k), 3, 3)
        reg('amk' + tag, 'AtMostKSubstitution', const(n, k), 3, 3)
        reg('abk' + tag, 'AnythingButKSubstitution', const(n, k), 4, 3)
    # the general linear substitution behind the four threshold ones, with each
    # of its six operators, and the conjunction (public functions of the module)
    for op_, tag in (('==', 'eq'), ('<', 'lt'), ('>', 'gt'), ('<=', 'le'), ('>=', 'ge'), ('!=', 'ne')):
        reg('lin' + tag, 'LinearSubstitution', const(2, op_, 1), 2, 2)
    reg('and2', 'AndSubstitution', const(2), 2, 2)
    reg('shufid', 'Shuffle',
        lambda F: ([[1] * F.number_of_variables(), list(range(1, F.number_of_variables() + 1)),
                    list(range(len(F)))], {}), 1, 1)
    reg('shuftuple', 'Shuffle', lambda F: ([tuple(x) for x in _shuf_lists(F)], {}), 1, 1)
    reg('shufrange', 'Shuffle',
        lambda F: ([_shuf_lists(F)[0], range(1, F.number_of_variables() + 1), range(len(F))], {}), 1, 1)
    reg('shufkw', 'Shuffle',
        lambda F: ([], {'polarity_flips': _shuf_lists(F)[0], 'variables_permutation': 'fixed',
                        'clauses_permutation': _shuf_lists(F)[2]}), 1, 1)
    reg('shufrandom', 'Shuffle', const(), 1, 1)     # random module seeded by the harness
    reg('vcxnx', 'VariableCompression', lambda F: ([_vc_nx(F.number_of_variables(), 2), 'xor'], {}), 2, 2)
    reg('vcmnx', 'VariableCompression', lambda F: ([_vc_nx(F.number_of_variables(), 3), 'maj'], {}), 3, 2)
    reg('vcxall', 'VariableCompression',
        lambda F: ([CompleteBipartiteGraph(F.number_of_variables(), 1), 'xor'], {}), 1, 1)
    reg('vcx1', 'VariableCompression',
        lambda F: ([scope.mk_bipartite(*_vc_graph(F.number_of_variables(), 1)), 'xor'], {}), 1, 1)
    # --- arguments that are refused: the input must stay untouched anyway --
    reg('xor0', 'XorSubstitution', const(0), 1, 1)
    reg('orm1', 'OrSubstitution', const(-1), 1, 1)
    reg('maj0', 'MajoritySubstitution', const(0), 1, 1)
    reg('lift0', 'FormulaLifting', const(0), 1, 1)
    reg('onebad', 'ExactlyOneSubstitution', const('2'), 1, 1)
    reg('shufbadlen', 'Shuffle',
        lambda F: ([[1] * (F.number_of_variables() + 1), 'fixed', 'fixed'], {}), 1, 1)
    reg('shufbadflip', 'Shuffle',
        lambda F: ([[2] + [1] * (F.number_of_variables() - 1) if F.number_of_variables() else [0],
                    'fixed', 'fixed'], {}), 1, 1)
    reg('shufbadperm', 'Shuffle',
        lambda F: (['fixed', [1] * F.number_of_variables() if F.number_of_variables() > 1 else [2, 1],
                    'fixed'], {}), 1, 1)
    reg('shufbadcl', 'Shuffle',
        lambda F: (['fixed', 'fixed', list(range(1, len(F) + 1)) if len(F) else [0]], {}), 1, 1)
    reg('vcbadside', 'VariableCompression',
        lambda F: ([scope.mk_bipartite(*_vc_graph(F.number_of_variables(), 2, extra_left=1)), 'xor'], {}),
        1, 1)
    reg('vcbadfn', 'VariableCompression',
        lambda F: ([scope.mk_bipartite(*_vc_graph(F.number_of_variables(), 2)), 'and'], {}), 1, 1)
    return A


_ALPHA = None


def alpha():
    global _ALPHA
    if _ALPHA is None:
        _ALPHA = _alphabet()
    return _ALPHA


def core_names():
    return [n for n, s in alpha().items() if s[4]]


def ext_names():
    return [n for n, s in alpha().items() if not s[4]]


def predicted_size(F, tname):
    fn, mk, fan, wid, core = alpha()[tname]
    tot = 0
    for c in F:
        w = len(c)
        tot += (fan ** w) * max(1, wid * w)
        if tot > SIZE_LIMIT:
            return tot
    return tot + 4 * F.number_of_variables()


def make_args(tname, F):
    return alpha()[tname][1](F)


def invoke(tname, F, argpack):
    """One execution of the real transformation: (result, exception)."""
    import cnfgen
    args, kwargs = argpack
    random.seed(19)               # Shuffle(...,'shuffle') draws from `random`
    name = alpha()[tname][0]
    fun = getattr(cnfgen, name, None)
    if fun is None:
        # public functions of the transformation modules that the package does
        # not re-export (LinearSubstitution, AndSubstitution)
        import cnfgen.transformations.substitutions as _subs
        fun = getattr(_subs, name)
    try:
        return fun(F, *args, **kwargs), None
    except Exception as e:        # refusals are legitimate; inputs must stay untouched anyway
        return None, e


def call(tname, F):
    argpack = make_args(tname, F)
    G, exc = invoke(tname, F, argpack)
    return G, exc, argpack


# ------------------------------------------------------------- snapshots ----
def _is_graph(x):
    return hasattr(x, 'number_of_edges') and not isinstance(x, (list, tuple, str))


def arg_snapshots(argpack):
    """[(label, snapshot)] of every argument that has state of its own."""
    args, kwargs = argpack
    out = []
    for label, a in [('arg%d' % (i + 1), a) for i, a in enumerate(args)] + sorted(kwargs.items()):
        if _is_graph(a):
            out.append((label, st.graph_snapshot(a)))
        elif isinstance(a, (list, tuple, range, dict, set)):
            out.append((label, st.typed(a)))
    return out


def mutable_args(argpack):
    args, kwargs = argpack
    return [(label, a) for label, a in
            [('arg%d' % (i + 1), a) for i, a in enumerate(args)] + sorted(kwargs.items())
            if _is_graph(a) or isinstance(a, (list, dict, set))]


def poke_formula(F):
    """Mutate a formula in every way a user (or later code) can.  Each step
    is attempted on its own: on an already wrecked object some may fail."""
    n = F.number_of_variables()
    steps = [
        lambda: F.add_clause([1] if n < 2 else [1, -2]),
        lambda: F.header.__setitem__('c19 probe', 'probe'),
        lambda: [F.header.__setitem__(k, str(F.header[k]) + ' (poked)') for k in list(F.header)],
        lambda: F.header.pop('url', None),
        lambda: [c.append(1) for c in F._clauses],
        lambda: F._clauses.append([1]),
        lambda: F._clauses.reverse(),
        lambda: F.update_variable_number(n + 3),
        lambda: F.new_variable('c19probe'),
    ]
    for step in steps:
        try:
            step()
        except Exception:
            pass


# --------------------------------------------------------- header model ----
def header_step(hF, hG):
    """Provenance model for one step: (symptom, text) or None."""
    k = sum(1 for (key, _) in hF if NUMBERED.match(str(key)))
    expected_key = 'transformation %d' % (k + 1)
    if len(hG) != len(hF) + 1:
        return ('entry-count', 'input header has %d entries, result header has %d (expected exactly one '
                'new entry %r); result keys %r' % (len(hF), len(hG), expected_key, [x[0] for x in hG]))
    for (k0, v0), (k1, v1) in zip(hF, hG):
        if k0 != k1:
            return ('earlier-entries', 'entry %r of the input is %r in the result (order/keys changed)'
                    % (k0, k1))
        if k0 == 'description':
            if not (isinstance(v1, str) and isinstance(v0, str) and v1.startswith(v0)):
                return ('description', 'description %r became %r' % (v0, v1))
        elif v0 != v1 or type(v0) is not type(v1):
            return ('earlier-entries', 'entry %r: value %r became %r' % (k0, v0, v1))
    nk, nv = hG[-1]
    if nk != expected_key:
        return ('new-key', 'the new entry has key %r, expected %r (input has %d numbered entries)'
                % (nk, expected_key, k))
    if not (isinstance(nv, str) and nv.strip()):
        return ('new-value', 'the new entry %r has value %r' % (nk, nv))
    return None


def rendered_numbers(G):
    """Numbers of the 'c transformation <i>:' comment lines of the DIMACS
    output, in order of appearance."""
    out = StringIO()
    G.to_file(out, fileformat='dimacs', export_header=True)
    nums = []
    for line in out.getvalue().splitlines():
        m = re.match(r'^c transformation ([0-9]+): ', line)
        if m:
            nums.append(int(m.group(1)))
    return nums


# ------------------------------------------------------------ transition ----
def check_transition(F, sid, chain, R=None, h0=None):
    """Execute the last step of `chain` on state F (reached from start `sid`
    by chain[:-1]).  Returns (result or None, violations)."""
    from cnfgen.formula.cnf import CNF
    tname = chain[-1]
    fn = alpha()[tname][0]
    case = {'part': 'A', 'start': sid, 'chain': list(chain)}
    out = []

    def bad(sym, what):
        out.append({'key': '%s:%s' % (fn, sym), 'what': 'start %s, chain %s: %s'
                    % (sid, '>'.join(chain), what), 'case': case})

    def stat(name, k=1):
        if R is not None:
            R.stats[name] += k

    def outcome(name):
        if R is not None:
            R.outcomes[name] += 1

    before = st.formula_snapshot(F)
    # ---- execution 1 ----------------------------------------------------
    argpack = make_args(tname, F)
    args_before = arg_snapshots(argpack)
    G, exc = invoke(tname, F, argpack)
    stat('executions')
    args_after = arg_snapshots(argpack)
    after = st.formula_snapshot(F)
    d = st.diff_formula(before, after)
    if d:
        bad('input-modified:' + d, 'the input formula changed during the call: ' +
            _where(before, after, d))
    stat('A:mutable_arguments_checked', len(args_before))
    for (la, sa), (lb, sb) in zip(args_before, args_after):
        if sa != sb:
            bad('argument-modified:' + la, 'argument %s changed during the call: %s'
                % (la, st.first_difference(sa, sb)))
    if exc is not None:
        stat('A:call_raised')
        outcome('A:raised:%s:%s' % (fn, type(exc).__name__))
        return None, out
    stat('A:result_ok')
    outcome('A:ok:' + fn)
    if G is F:
        bad('result-is-input', 'the transformation returned its input object')
        return None, out
    if not isinstance(G, CNF):
        bad('result-type', 'the result is a %s, not a formula' % type(G).__name__)
        return None, out
    pubF, pubG = before[0], st.formula_public(G)
    # ---- provenance -----------------------------------------------------
    hs = header_step(pubF['header'], pubG['header'])
    if hs:
        bad('header:' + hs[0], hs[1])
    else:
        if dict(pubF['header']).get('description') != dict(pubG['header']).get('description'):
            stat('A:description_extended')
        nums = rendered_numbers(G)
        k = sum(1 for (key, _) in pubG['header'] if NUMBERED.match(str(key)))
        if nums != list(range(1, k + 1)) and all(
                '\n' not in str(v) for _, v in pubG['header']):
            bad('header:rendered', 'comment lines of the DIMACS output carry transformation numbers %r, '
                'expected 1..%d in order' % (nums, k))
    if h0 is not None and not hs:
        k0 = sum(1 for (key, _) in h0 if NUMBERED.match(str(key)))
        tail = pubG['header'][len(h0):]
        want = ['transformation %d' % (k0 + i + 1) for i in range(len(chain))]
        if [x[0] for x in tail] != want or [x[0] for x in pubG['header'][:len(h0)]] != [x[0] for x in h0]:
            bad('header:chain', 'after %d steps the header keys are %r; expected the %d start keys + %r'
                % (len(chain), [x[0] for x in pubG['header']], len(h0), want))
    # ---- executions 2, 3 on a private deep copy of the input: the real state F
    # is never touched by the probes, whatever is aliased ----------------------
    Fa = copy.deepcopy(F)
    snap_a = st.formula_snapshot(Fa, stop=())
    pack2, pack3 = make_args(tname, Fa), make_args(tname, Fa)
    G2, exc2 = invoke(tname, Fa, pack2)
    G3, exc3 = invoke(tname, Fa, pack3)
    stat('executions', 2)
    if exc2 is not None or exc3 is not None:
        stat('A:repeated_call_raised')
        return G, out
    if st.formula_public(G2) != pubG or st.formula_public(G3) != pubG:
        stat('A:repeated_result_differs')
    # (a) mutate result 2 -> the input and the arguments must not move
    args2_before = arg_snapshots(pack2)
    shared = [('input', p, q, c) for (p, q, c) in st.shared_mutables(Fa, G2)]
    for label, a in mutable_args(pack2):
        shared += [(label, p, q, c) for (p, q, c) in st.shared_mutables(a, G2)]
    stat('A:shared_mutable_containers', len(shared))
    def watch_a(sym_input, sym_arg, how):
        after_a = st.formula_snapshot(Fa, stop=(id(G2),))
        d = st.diff_formula(snap_a, after_a)
        if d:
            bad('%s:%s' % (sym_input, d), '%s changed the input formula: %s%s'
                % (how, _where(snap_a, after_a, d),
                   '; shared containers: %r' % [(s_[0], s_[1], s_[2]) for s_ in shared[:3]] if shared else ''))
        for (la, sa), (lb, sb) in zip(args2_before, arg_snapshots(pack2)):
            if sa != sb:
                bad('%s:%s' % (sym_arg, la), '%s changed argument %s: %s'
                    % (how, la, st.first_difference(sa, sb)))
        return bool(d)
    poke_formula(G2)                      # what a user can do with the result
    moved = watch_a('aliasing:result-to-input', 'aliasing:result-to-argument', 'mutating the RESULT')
    if shared and not moved:              # any container both sides can reach
        for (_, _, _, c) in shared:
            st.poke(c)
        watch_a('aliasing:shared-container:input', 'aliasing:shared-container:argument',
                'mutating a container reachable from the result')
    # (b) mutate the input -> result 3 must not move
    snap_3 = st.formula_snapshot(G3, stop=(id(Fa),))   # a bare reference to the input is not state
    shared_c = st.shared_mutables(Fa, G3)
    poke_formula(Fa)
    after_3 = st.formula_snapshot(G3, stop=(id(Fa),))
    d = st.diff_formula(snap_3, after_3)
    if d:
        bad('aliasing:input-to-result:' + d, 'mutating the INPUT after the call changed the result: %s'
            % _where(snap_3, after_3, d))
    elif shared_c:
        for (_, _, c) in shared_c:
            st.poke(c)
        after_3 = st.formula_snapshot(G3, stop=(id(Fa),))
        d = st.diff_formula(snap_3, after_3)
        if d:
            bad('aliasing:shared-container:result:' + d, 'mutating a container reachable from the input '
                'changed the result: %s' % _where(snap_3, after_3, d))
    return G, out


def _where(b, a, part):
    if part == 'internal':
        return 'internal state: ' + st.first_difference(b[1], a[1])
    return '%s: %s' % (part, st.first_difference(b[0][part], a[0][part]))


def state_key(G):
    return hashlib.sha1(repr(st.deep_state(G)).encode()).hexdigest()


# ------------------------------------------------------------- explorer ----
def depths(tier, sid):
    """(max chain length over the core alphabet, max length of chains that
    use the extended alphabet)."""
    if sid.startswith('extra:'):
        return 1, 1
    if tier == 'thorough':
        return 3, 2
    return (3, 1) if sid in TINY_STARTS else (2, 1)


def run_A(args, R):
    tier = args['tier']
    starts = all_starts()
    core = core_names()
    ext = ext_names()
    extset = set(ext)
    seen = set()
    for sid, t1 in args['units']:
        F0 = starts[sid]()
        h0 = st.formula_public(F0)['header']
        dcore, dext = depths(tier, sid)
        if t1 == core[0]:
            R.stats['states'] += 1
            R.stats['A:start_states' if not sid.startswith('extra:') else 'A:extra_start_states'] += 1

        def explore(F, chain, used_ext):
            """Returns False when the real call changed F (the caller must
            rebuild its state before using it again)."""
            tname = chain[-1]
            if predicted_size(F, tname) > SIZE_LIMIT:
                R.stats['A:outside_size_bound'] += 1
                return True
            G, vs = check_transition(F, sid, chain, R, h0)
            R.stats['transitions'] += 1
            R.stats['A:chains_len%d' % len(chain)] += 1
            nt = F.number_of_variables() > 0 and len(F) > 0
            R.case(sample={'start': sid, 'chain': list(chain)} if R.evals % 499 == 0 else None,
                   nontrivial=nt)
            report(R, vs)
            intact = not any(':input-modified:' in v['key'] for v in vs)
            if G is None or vs:          # never build on a state involved in a violation
                return intact
            key = (state_key(G), used_ext, dcore - len(chain), dext - len(chain))  # same state, same budget
            if key in seen:
                R.stats['A:merged_states'] += 1
                return intact
            seen.add(key)
            R.stats['states'] += 1
            n = len(chain)
            for t in core + ext:
                if used_ext and t in extset:        # at most one extended step per chain
                    continue
                nu = used_ext or (t in extset)
                if n + 1 <= (dext if nu else dcore):
                    if not explore(G, chain + [t], nu):
                        R.stats['A:states_rebuilt'] += 1
                        G = rebuild(sid, chain)
                        if G is None:
                            break
            return intact
        explore(F0, [t1], t1 in extset)
        if not sid.startswith('extra:'):
            report(R, check_twins(sid, t1))
            R.stats['A:twin_checks'] += 1


def behaviour(F):
    """What a user can observe of a formula besides its clauses: renderings
    and names under other formats, in a fixed order."""
    import io
    obs = []
    for name, f in (('to_latex', lambda: F.to_latex()),
                    ('names[y_{}]', lambda: list(F.all_variable_labels(default_label_format='y_{}'))),
                    ('names', lambda: list(F.all_variable_labels())),
                    ('to_dimacs', lambda: F.to_dimacs()),
                    ('to_file[opb,varnames]', lambda: _to_text(F, 'opb')),
                    ('to_file[dimacs,varnames]', lambda: _to_text(F, 'dimacs'))):
        try:
            obs.append((name, f()))
        except Exception as e:      # noqa: part of the observable behaviour
            obs.append((name, '<%s>' % type(e).__name__))
    return obs


def _to_text(F, fmt):
    import io
    s = io.StringIO()
    F.to_file(s, fileformat=fmt, export_header=False, export_varnames=True)
    return s.getvalue()


def check_twins(sid, tname):
    """Differential oracle with no observation before the call (an observation
    could itself fill a cache): two formulas built by the same recipe, one of
    them passed through the transformation, must afterwards BEHAVE alike; and
    the transformation of a formula that was rendered before must equal the
    transformation of one that was not."""
    starts = all_starts()
    out = []
    A, B = starts[sid](), starts[sid]()
    if predicted_size(A, tname) > SIZE_LIMIT:
        return out
    GB, exc, _ = call(tname, B)
    oa, ob = behaviour(A), behaviour(B)
    for (na, va), (nb_, vb) in zip(oa, ob):
        if va != vb:
            out.append({'key': '%s:input-behaves-differently-after-the-call:%s' % (tname, na),
                        'what': 'start %s: %s of the formula that was given to %s is %r, of an identical '
                                'formula that was not: %r' % (sid, na, tname, str(vb)[:120], str(va)[:120]),
                        'case': {'part': 'twin', 'start': sid, 't': tname}})
            break
    C = starts[sid]()
    behaviour(C)                       # rendered and asked for its names first
    GC, exc_c, _ = call(tname, C)
    if exc is None and exc_c is None and GB is not None and GC is not None:
        pb, pc = st.formula_public(GB), st.formula_public(GC)
        for part in st.PUBLIC_PARTS:
            if pb[part] != pc[part]:
                out.append({'key': '%s:result-depends-on-earlier-observations-of-the-input:%s' % (tname, part),
                            'what': 'start %s: %s of the result differs when the input was rendered before: '
                                    '%s' % (sid, part, st.first_difference(pb[part], pc[part])),
                            'case': {'part': 'twin', 'start': sid, 't': tname}})
                break
    return out


def rebuild(sid, chain):
    F = all_starts()[sid]()
    for t in chain:
        F, exc, _ = call(t, F)
        if exc is not None:
            return None
    return F


def replay_A(case):
    starts = all_starts()
    F = starts[case['start']]()
    h0 = st.formula_public(F)['header']
    chain = case['chain']
    for i, t in enumerate(chain[:-1]):
        F, exc, _ = call(t, F)
        if exc is not None:
            return [{'key': 'replay:prefix-raised', 'what': repr(exc), 'case': case}]
    G, vs = check_transition(F, case['start'], chain, None, h0)
    return vs


# ---------------------------------------------------- provenance texts ----
def run_texts(args, R):
    report(R, check_texts({'part': 'T'}, R))


def check_texts(case, R=None):
    """The recorded text must tell which transformation was applied: two
    different exported transformations applied with the same arguments must
    not record the same text."""
    import cnfgen
    F = scope.mk_cnf(3, [(1, -2, 3), (-1, 2), (-3,)])
    B = scope.mk_bipartite(*_vc_graph(3, 2))
    calls = [
        ('XorSubstitution', (3,)), ('OrSubstitution', (3,)), ('MajoritySubstitution', (3,)),
        ('AllEqualSubstitution', (3,)), ('NotAllEqualSubstitution', (3,)),
        ('ExactlyOneSubstitution', (3,)), ('FormulaLifting', (3,)),
        ('ExactlyKSubstitution', (3, 2)), ('AtLeastKSubstitution', (3, 2)),
        ('AtMostKSubstitution', (3, 2)), ('AnythingButKSubstitution', (3, 2)),
        ('IfThenElseSubstitution', ()), ('FlipPolarity', ()),
        ('VariableCompression', (B, 'xor')), ('VariableCompression', (B, 'maj')),
        ('Shuffle', ('fixed', 'fixed', 'fixed')),
    ]
    texts = {}
    out = []
    for fn, a in calls:
        G = getattr(cnfgen, fn)(F, *a)
        if R is not None:
            R.stats['executions'] += 1
            R.case(nontrivial=True)
        t = G.header.get('transformation 1')
        tag = fn + ('' if fn != 'VariableCompression' else ':' + a[1])
        texts.setdefault(t, []).append(tag)
    for t, fns in sorted(texts.items(), key=lambda kv: str(kv[0])):
        if len(fns) > 1:
            out.append({'key': '%s:header:same-text-as:%s' % (fns[0], '+'.join(fns[1:])),
                        'what': 'different transformations %r (rank 3) all record the provenance text %r: '
                        'the header does not tell which one produced the formula' % (fns, t),
                        'case': case})
    if R is not None:
        R.stats['T:distinct_texts'] += len(texts)
    return out


# ===================================================================== B ==
# ------------------------------------------------------------ graph args ----
def _mk_simple(kind, n, edges):
    import networkx
    if kind == 'cnfgen':
        return scope.mk_graph(n, edges)
    if kind == 'named':
        # a name with characters special to format strings, or the empty name
        return scope.mk_graph(n, edges, name='my {graph} #1' if len(edges) % 2 else '')
    G = networkx.Graph()
    if kind == 'nx':
        G.add_nodes_from(range(1, n + 1))
        G.add_edges_from(edges)
    elif kind == 'nxloop':
        # a networkx graph with self-loops (not a simple graph): whatever the
        # generator makes of it, the caller's graph keeps them
        G.add_nodes_from(range(1, n + 1))
        G.add_edges_from(edges)
        for v in range(1, n + 1, 2):
            G.add_edge(v, v)
    elif kind == 'nxodd':
        # labels a parser or a file format may treat specially: backslash-n
        # (two characters), the empty string, blanks, a digit string, a keyword
        odd = ['\\n', '', ' ', '07', 'node', 'graph', '-1', 'None']
        lab = {i: odd[(i - 1) % len(odd)] for i in range(1, n + 1)}
        G.add_nodes_from((lab[i], {'pos': i}) for i in range(1, n + 1))
        G.add_edges_from((lab[u], lab[v]) for u, v in edges)
    else:   # 'nxs': string labels, attributes on nodes / edges / graph
        lab = {i: 'v%d' % i for i in range(1, n + 1)}
        G.add_nodes_from((lab[i], {'weight': i}) for i in range(1, n + 1))
        G.add_edges_from((lab[u], lab[v], {'w': u + v}) for u, v in edges)
        G.graph['name'] = 'labelled'
        G.graph['extra'] = [1, 2, 3]
    return G


def _mk_directed(kind, n, edges):
    import networkx
    if kind in ('cnfgen', 'named'):
        G = scope.mk_digraph(n, edges)
        if kind == 'named':
            G.name = 'my {digraph}' if len(edges) % 2 else ''
        return G
    G = networkx.DiGraph()
    if kind == 'nxodd':
        odd = ['\\n', '', ' ', '07', 'node', 'graph', '-1', 'None']
        G.add_nodes_from(odd[(i - 1) % len(odd)] for i in range(1, n + 1))
        G.add_edges_from((odd[(u - 1) % len(odd)], odd[(v - 1) % len(odd)]) for u, v in edges)
        return G
    G.add_nodes_from(range(1, n + 1))
    G.add_edges_from(edges)
    return G


def _mk_bip(kind, L, Rr, edges):
    import networkx
    from cnfgen.graphs import CompleteBipartiteGraph
    if kind in ('cnfgen', 'named'):
        G = scope.mk_bipartite(L, Rr, edges)
        if kind == 'named':
            G.name = 'my {bipartite}' if len(edges) % 2 else ''
        return G
    if kind == 'complete':
        return CompleteBipartiteGraph(L, Rr)
    if kind == 'nxstr':
        # what a dot file gives: string labels, the sides as the strings '0' / '1',
        # right vertices inserted first, further attributes on nodes and edges
        G = networkx.Graph(name='from a dot file')
        for v in range(1, Rr + 1):
            G.add_node('r%d' % v, bipartite='1', color='red')
        for u in range(1, L + 1):
            G.add_node('l%d' % u, bipartite='0')
        for (u, v) in edges:
            G.add_edge('r%d' % v, 'l%d' % u, weight='1')
        return G
    G = networkx.Graph()
    G.add_nodes_from(range(1, L + 1), bipartite=0)
    G.add_nodes_from(range(L + 1, L + Rr + 1), bipartite=1)
    G.add_edges_from((u, L + v) for (u, v) in edges)
    return G


def _graph_fams():
    """name -> (argument kinds, [option dicts], caller(graphs, opts, cls))."""
    import cnfgen
    fams = {}
    tf = (False, True)
    fams['kcolor'] = ('S', [{'colors': c, 'functional': f} for c in (0, 2) for f in tf],
                      lambda g, o, fc: cnfgen.GraphColoringFormula(g[0], o['colors'], functional=o['functional'],
                                                                   formula_class=fc))
    fams['evencolor'] = ('S', [{}], lambda g, o, fc: cnfgen.EvenColoringFormula(g[0], formula_class=fc))
    fams['matching'] = ('S', [{}], lambda g, o, fc: cnfgen.PerfectMatchingPrinciple(g[0], formula_class=fc))
    fams['domset'] = ('S', [{'d': d, 'alt': a} for d in (1, 2) for a in tf],
                      lambda g, o, fc: cnfgen.DominatingSet(g[0], o['d'], alternative=o['alt'], formula_class=fc))
    fams['tiling'] = ('S', [{}], lambda g, o, fc: cnfgen.Tiling(g[0], formula_class=fc))
    fams['auto'] = ('S', [{}], lambda g, o, fc: cnfgen.GraphAutomorphism(g[0], formula_class=fc))
    fams['gop'] = ('S', [{'total': t, 'smart': s, 'plant': p, 'knuth': k}
                         for (t, s, p, k) in ((False, False, False, 0), (True, False, True, 0),
                                              (False, True, False, 0), (False, False, False, 2),
                                              (True, False, False, 3))],
                   lambda g, o, fc: cnfgen.GraphOrderingPrinciple(g[0], total=o['total'], smart=o['smart'],
                                                                  plant=o['plant'], knuth=o['knuth'],
                                                                  formula_class=fc))
    fams['kclique'] = ('S', [{'k': k, 'sb': s} for k in (0, 2) for s in tf],
                       lambda g, o, fc: cnfgen.CliqueFormula(g[0], o['k'], symbreak=o['sb'], formula_class=fc))
    fams['bkclique'] = ('S', [{'k': k, 'sb': s} for k in (1, 2) for s in tf],
                        lambda g, o, fc: cnfgen.BinaryCliqueFormula(g[0], o['k'], symbreak=o['sb'],
                                                                    formula_class=fc))
    fams['ramlb'] = ('S', [{'k': 2, 's': 2, 'sb': s} for s in tf],
                     lambda g, o, fc: cnfgen.RamseyWitnessFormula(g[0], o['k'], o['s'], symbreak=o['sb'],
                                                                  formula_class=fc))
    fams['tseitin'] = ('S', [{'charges': None}, {'charges': [1, 0, 1]}, {'charges': [True]},
                             {'charges': [0, 1, 1, 1, 1]}],
                       lambda g, o, fc: cnfgen.TseitinFormula(g[0], charges=o['charges'], formula_class=fc))
    fams['vm:graph_edges'] = ('S', [{}], _vm_graph_edges)
    fams['iso'] = ('SS', [{'nontrivial': False}],
                   lambda g, o, fc: cnfgen.GraphIsomorphism(g[0], g[1], formula_class=fc))
    fams['subgraph'] = ('SS', [{'induced': i, 'sb': s} for i in tf for s in tf],
                        lambda g, o, fc: cnfgen.SubgraphFormula(g[0], g[1], induced=o['induced'],
                                                                symbreak=o['sb'], formula_class=fc))
    fams['peb'] = ('D', [{}], lambda g, o, fc: cnfgen.PebblingFormula(g[0], formula_class=fc))
    fams['stone'] = ('D', [{'n': 0}, {'n': 2}],
                     lambda g, o, fc: cnfgen.StoneFormula(g[0], o['n'], formula_class=fc))
    fams['vm:digraph_edges'] = ('D', [{'sortby': 'pred'}, {'sortby': 'succ'}], _vm_digraph_edges)
    fams['sparsestone'] = ('DB', [{}], lambda g, o, fc: cnfgen.SparseStoneFormula(g[0], g[1], formula_class=fc))
    fams['gphp'] = ('B', [{'f': f, 'o': on} for f in tf for on in tf],
                    lambda g, o, fc: cnfgen.GraphPigeonholePrinciple(g[0], functional=o['f'], onto=o['o'],
                                                                     formula_class=fc))
    fams['subsetcard'] = ('B', [{'eq': e} for e in tf],
                          lambda g, o, fc: cnfgen.SubsetCardinalityFormula(g[0], equalities=o['eq'],
                                                                           formula_class=fc))
    fams['vm:bipartite_edges'] = ('B', [{}], _vm_bip_edges)
    fams['vm:sparse_mapping'] = ('B', [{}], _vm_sparse_mapping)
    fams['varcompression'] = ('B', [{'fn': 'xor'}, {'fn': 'maj'}], _vc_call)
    return fams


def _vm_graph_edges(g, o, fc):
    F = fc()
    e = F.new_graph_edges(g[0], label='e_{{{},{}}}')
    list(F.all_variable_labels())
    for u in range(1, g[0].number_of_vertices() + 1):
        F.add_clause(list(e(u, None)))
    return F


def _vm_digraph_edges(g, o, fc):
    F = fc()
    e = F.new_digraph_edges(g[0], label='a_{{{},{}}}', sortby=o['sortby'])
    list(F.all_variable_labels())
    for u in range(1, g[0].number_of_vertices() + 1):
        F.add_clause(list(e(u, None)))
        F.add_clause(list(e(None, u)))
    return F


def _vm_bip_edges(g, o, fc):
    F = fc()
    e = F.new_bipartite_edges(g[0], label='b_{{{},{}}}')
    list(F.all_variable_labels())
    for u in range(1, g[0].left_order() + 1):
        F.add_clause(list(e(u, None)))
    for v in range(1, g[0].right_order() + 1):
        F.add_clause(list(e(None, v)))
    return F


def _vm_sparse_mapping(g, o, fc):
    F = fc()
    f = F.new_sparse_mapping(g[0], label='f_{{{},{}}}')
    F.force_complete_mapping(f)
    F.force_functional_mapping(f)
    F.force_surjective_mapping(f)
    F.force_injective_mapping(f)
    list(F.all_variable_labels())
    return F


def _vc_call(g, o, fc):
    import cnfgen
    B = g[0]
    L = B.left_order() if hasattr(B, 'left_order') else \
        sum(1 for _, d in B.nodes(data=True) if d.get('bipartite') == 0)
    F = scope.mk_cnf(L, [tuple(range(1, L + 1)), tuple(-v for v in range(1, L + 1))] if L else [()])
    return cnfgen.VariableCompression(F, B, o['fn'])


def _build_graphs(kinds, gkind, specs):
    out = []
    for kd, sp in zip(kinds, specs):
        if kd == 'S':
            out.append(_mk_simple(gkind, sp[0], [tuple(e) for e in sp[1]]))
        elif kd == 'D':
            out.append(_mk_directed(gkind, sp[0], [tuple(e) for e in sp[1]]))
        else:
            out.append(_mk_bip(gkind, sp[0], sp[1], [tuple(e) for e in sp[2]]))
    return out


_FAMS = None


def check_graph_case(case, R=None):
    """case = {part:'G', fam, gkind, graphs:[spec...], opt:int, cls}"""
    global _FAMS
    from cnfgen.formula.cnf import CNF
    from cnfgen.formula.opb import OPB
    if _FAMS is None:
        _FAMS = _graph_fams()
    kinds, opts, fcall = _FAMS[case['fam']]
    o = copy.deepcopy(opts[case['opt']])
    fc = {'CNF': CNF, 'OPB': OPB}[case['cls']]
    graphs = _build_graphs(kinds, case['gkind'], case['graphs'])
    before = [st.graph_snapshot(g) for g in graphs]
    o_before = st.typed(o)
    exc = None
    try:
        fcall(graphs, o, fc)
    except Exception as e:
        exc = e
    out = []
    for i, g in enumerate(graphs):
        after = st.graph_snapshot(g)
        if after != before[i]:
            out.append({'key': '%s:%s:graph-argument-modified' % (case['fam'], case['gkind']),
                        'what': 'graph argument %d of %s(%r) changed during the call%s: %s'
                        % (i + 1, case['fam'], o, ' (which raised %r)' % exc if exc else '',
                           st.first_difference(before[i], after)), 'case': case})
    if st.typed(o) != o_before:
        out.append({'key': '%s:list-argument-modified' % case['fam'],
                    'what': 'option lists %r changed: now %r' % (opts[case['opt']], o), 'case': case})
    if R is not None:
        R.stats['executions'] += 1
        if exc is None:
            R.stats['G:calls_ok'] += 1
        else:
            R.stats['G:calls_raised'] += 1
            R.outcomes['G:raised:%s:%s' % (case['fam'], type(exc).__name__)] += 1
        nt = any(len(sp[-1]) > 0 for sp in case['graphs'])
        if nt:
            R.stats['G:graphs_with_edges'] += 1
        R.outcomes['G:family:' + case['fam']] += 1
        R.case(sample=case if R.evals % 997 == 0 else None, nontrivial=nt)
    return out


def graph_cases(tier):
    thorough = tier == 'thorough'
    ns = 4 if thorough else 3
    simple = [(n, [list(e) for e in es]) for n in range(ns + 1) for es in scope.simple_graphs(n)]
    simple_small = [g for g in simple if g[0] <= 3]
    dags = list(simple)
    digr = [(n, [list(e) for e in es]) for n in range(3) for es in scope.digraphs(n, loops=True)]
    bsizes = [(L, Rr) for L in range(3) for Rr in range(3)]
    if thorough:
        bsizes += [(3, 2), (2, 3), (3, 1), (1, 3)]
    bips = [(L, Rr, [list(e) for e in es]) for (L, Rr) in bsizes for es in scope.bipartite_graphs(L, Rr)]
    skinds = ['cnfgen', 'nx', 'named', 'nxs', 'nxodd', 'nxloop']
    classes = ['CNF', 'OPB']
    fams = _graph_fams()
    cs = []
    for fam, (kinds, opts, _) in fams.items():
        for oi in range(len(opts)):
            for cls in classes:
                if fam == 'varcompression' and cls == 'OPB':
                    continue
                if kinds == 'S':
                    for gk in skinds:
                        for g in simple:
                            cs.append({'part': 'G', 'fam': fam, 'gkind': gk, 'graphs': [g], 'opt': oi, 'cls': cls})
                elif kinds == 'SS':
                    for gk in ('cnfgen', 'nx'):
                        for g1 in (simple if thorough else simple_small):
                            for g2 in simple_small:
                                cs.append({'part': 'G', 'fam': fam, 'gkind': gk, 'graphs': [g1, g2],
                                           'opt': oi, 'cls': cls})
                elif kinds == 'D':
                    for gk in ('cnfgen', 'nx', 'named', 'nxodd'):
                        for g in dags + digr:
                            cs.append({'part': 'G', 'fam': fam, 'gkind': gk, 'graphs': [g], 'opt': oi, 'cls': cls})
                elif kinds == 'DB':
                    for gk in ('cnfgen', 'nx'):
                        for g in [d for d in dags if d[0] <= 3] + [d for d in digr if d[0] == 2][:6]:
                            for b in bips:
                                if b[0] in (g[0], g[0] + 1) and b[1] <= 2:
                                    cs.append({'part': 'G', 'fam': fam, 'gkind': gk, 'graphs': [g, b],
                                               'opt': oi, 'cls': cls})
                else:
                    for gk in ('cnfgen', 'nx', 'named', 'nxstr'):
                        for b in bips:
                            cs.append({'part': 'G', 'fam': fam, 'gkind': gk, 'graphs': [b], 'opt': oi, 'cls': cls})
                    if fam in ('gphp', 'subsetcard', 'varcompression', 'vm:sparse_mapping', 'vm:bipartite_edges'):
                        for (L, Rr) in bsizes:
                            cs.append({'part': 'G', 'fam': fam, 'gkind': 'complete', 'graphs': [[L, Rr, []]],
                                       'opt': oi, 'cls': cls})
    return cs


def run_G(chunk, R):
    for case in chunk:
        report(R, check_graph_case(case, R))


# ------------------------------------------------------ literal lists ------
SPECIAL_LISTS = [[1, 1], [1, -1], [2, -2, 2], [3, 1, 2], [-4, 2], [5]]
INVALID_LISTS = [[0], [1, 0, 2], [1, 2, None], [1, 2, 'a'], [1, 2, 0], [None]]


def literal_lists(tier):
    nmax = 5 if tier == 'thorough' else 4
    out = []
    for n in range(nmax + 1):
        out.extend(scope.polarity_patterns(n))
    return out + [list(x) for x in SPECIAL_LISTS]


def list_cases(tier):
    cs = []
    lists = literal_lists(tier)
    ops = ['<=', '>=', '<', '>', '==', '!=', '=']
    card = ['cardinality_geq', 'cardinality_leq', 'cardinality_eq', 'cardinality_neq']
    maj = ['add_loose_majority', 'add_loose_minority', 'add_strict_majority', 'add_strict_minority']
    for cls in ('CNF', 'OPB'):
        for valid, group in ((True, lists), (False, INVALID_LISTS)):
            for lits in group:
                n = len(lits)
                for check in (True, False):
                    base = {'part': 'L', 'cls': cls, 'lits': lits, 'check': check, 'valid': valid}
                    cs.append(dict(base, meth='add_clause'))
                    cs.append(dict(base, meth='add_clauses_from'))
                    cs.append(dict(base, meth='constructor'))
                    for c in range(-1, n + 2):
                        if cls == 'CNF':
                            for op in ops:
                                cs.append(dict(base, meth='add_linear', op=op, c=c))
                        for m in card:
                            cs.append(dict(base, meth=m, c=c))
                    for b in (0, 1):
                        cs.append(dict(base, meth='add_parity', c=b))
                    for m in maj:
                        cs.append(dict(base, meth=m))
                    if cls == 'OPB' and valid:
                        for op in ('>=', '<=', '>', '<', '=='):
                            for c in (0, 1, 2):
                                cs.append(dict(base, meth='add_constraint', op=op, c=c))
                                cs.append(dict(base, meth='add_constraints_from', op=op, c=c))
    return cs


def check_list_case(case, R=None):
    from cnfgen.formula.cnf import CNF
    from cnfgen.formula.opb import OPB
    cls = {'CNF': CNF, 'OPB': OPB}[case['cls']]
    meth = case['meth']
    lits = list(case['lits'])
    check = case['check']
    F = cls()
    F.update_variable_number(6)
    watched = [('lits', lits)]
    exc = None
    coefs = (1, 2, -1, 3, -2)
    before = []
    try:
        if meth == 'add_clause':
            call_ = lambda: F.add_clause(lits, check=check)
        elif meth == 'add_clauses_from':
            other = [-x if isinstance(x, int) else x for x in lits]
            outer = [lits, other, lits]
            watched += [('other', other), ('outer', outer)]
            call_ = lambda: F.add_clauses_from(outer, check=check)
        elif meth == 'constructor':
            other = list(reversed(lits))
            if case['cls'] == 'OPB':      # OPB(constraints): lists of (coefficient, literal) + op + value
                lits = [(coefs[i % 5], l) for i, l in enumerate(lits)] + ['>=', 1]
                other = [(1, l) for l in other] + ['==', 1]
                watched = [('lits', lits)]
            outer = [lits, other]
            watched += [('other', other), ('outer', outer)]

            def call_():
                nonlocal F
                F = cls(outer)
        elif meth == 'add_linear':
            call_ = lambda: F.add_linear(lits, case['op'], case['c'], check=check)
        elif meth.startswith('cardinality_'):
            call_ = lambda: getattr(F, meth)(lits, case['c'], check=check)
        elif meth == 'add_parity':
            call_ = lambda: F.add_parity(lits, case['c'], check=check)
        elif meth in ('add_constraint', 'add_constraints_from'):
            cons = [(coefs[i % 5], l) for i, l in enumerate(lits)] + [case['op'], case['c']]
            watched = [('constraint', cons)]
            if meth == 'add_constraint':
                call_ = lambda: F.add_constraint(cons, check=check)
            else:
                outer = [cons, list(cons)]
                watched.append(('outer', outer))
                call_ = lambda: F.add_constraints_from(outer, check=check)
        else:
            call_ = lambda: getattr(F, meth)(lits, check=check)
        before = [(nm, st.typed(x)) for nm, x in watched]
        call_()
    except Exception as e:
        exc = e
    out = []
    strict = case['valid'] or check        # check=False + non-literals: outside the documented domain
    label = meth + (':' + case['op'] if 'op' in case and meth == 'add_linear' else '')
    for (nm, b), (_, x) in zip(before, watched):
        a = st.typed(x)
        if a != b:
            if strict:
                out.append({'key': '%s.%s:list-argument-modified' % (case['cls'], label),
                            'what': '%s.%s: the caller\'s list %s was %r and is %r after the call%s'
                            % (case['cls'], meth, nm, case['lits'] if nm == 'lits' else '(derived)', x,
                               ' (which raised %s)' % type(exc).__name__ if exc else ''), 'case': case})
            elif R is not None:
                R.outcomes['L:observation:non-literal list + check=False left modified:%s.%s'
                           % (case['cls'], label)] += 1
    # the formula must hold copies, not the caller's lists
    store = getattr(F, '_clauses', None)
    if store is None:
        store = getattr(F, '_constraints', [])
    ids = {id(x) for _, x in watched}
    if any(id(c) in ids for c in store) or id(store) in ids:
        out.append({'key': '%s.%s:stores-caller-list' % (case['cls'], label),
                    'what': '%s.%s keeps the caller\'s own list object inside the formula (no copy on '
                    'insertion): a later change of the formula changes the argument' % (case['cls'], meth),
                    'case': case})
    if R is not None:
        R.stats['executions'] += 1
        R.stats['L:calls_ok' if exc is None else 'L:calls_raised'] += 1
        if exc is not None:
            R.outcomes['L:raised:%s' % type(exc).__name__] += 1
        R.outcomes['L:method:%s.%s' % (case['cls'], meth)] += 1
        R.case(sample=case if R.evals % 1999 == 0 else None, nontrivial=len(case['lits']) > 0)
    return out


def run_L(chunk, R):
    for case in chunk:
        report(R, check_list_case(case, R))


# ------------------------------------------------- other list arguments ----
def other_cases(tier):
    cs = []
    thorough = tier == 'thorough'
    # Tseitin charges: every 0/1 and bool pattern up to n+1 entries on all graphs <= 3 vertices
    for n in range(4):
        for es in scope.simple_graphs(n):
            for ln in range(n + 2):
                for ch in itertools.product((0, 1), repeat=ln):
                    cs.append({'part': 'O', 'what': 'tseitin', 'n': n, 'edges': [list(e) for e in es],
                               'charges': list(ch), 'bools': False})
                    if thorough or ln == n:
                        cs.append({'part': 'O', 'what': 'tseitin', 'n': n, 'edges': [list(e) for e in es],
                                   'charges': list(ch), 'bools': True})
    # bipartite_shift patterns: every arrangement of <= 3 distinct offsets out of 0..3 (+ repeated)
    pats = [[]]
    for k in (1, 2, 3):
        pats += [list(p) for p in itertools.permutations(range(4), k)]
    pats += [[1, 1], [2, 1, 2], [5, 0], [-1, 1], [0, -3]]
    for N in (1, 2, 3) + ((4,) if thorough else ()):
        for M in (1, 2, 3) + ((4,) if thorough else ()):
            for p in pats:
                cs.append({'part': 'O', 'what': 'bipartite_shift', 'N': N, 'M': M, 'pattern': p})
    for p in pats[:8]:
        cs.append({'part': 'O', 'what': 'bipartite_shift', 'N': 0, 'M': 2, 'pattern': p})
    # planted assignments
    plants = [[], [[1, 2, 3]], [[3, -1, 2]], [[1, -2, 3], [-1, 2, 3]], [[-3, -2, -1], [3, 2, 1]],
              [[1, 2]], [[2, -3], [1]], [[3, 2, 1], [3, 2, 1]]]
    for fam in ('RandomKCNF', 'RandomKXOR'):
        for (k, n, m) in ((0, 3, 0), (1, 3, 2), (2, 3, 3), (3, 3, 2), (2, 3, 60), (3, 3, 1), (4, 3, 1)):
            for pa in plants:
                for cls in ('CNF', 'OPB'):
                    for seed in (1, 2) + ((3, 4) if thorough else ()):
                        cs.append({'part': 'O', 'what': 'planted', 'fam': fam, 'k': k, 'n': n, 'm': m,
                                   'planted': pa, 'cls': cls, 'seed': seed})
    # Shuffle: all explicit argument triples for (N,M) in {(3,3),(2,1),(0,0),(1,2)}
    forms = {'f33': (3, [(1, -2), (2, 3), (-1, -3)]), 'f21': (2, [(1, -2)]), 'f00': (0, []),
             'f12': (1, [(1,), (-1,)]), 'f30': (3, [])}
    for fid, (N, cl) in forms.items():
        M = len(cl)
        for fl in itertools.product((1, -1), repeat=N):
            for vp in itertools.permutations(range(1, N + 1)):
                for cp in itertools.permutations(range(M)):
                    cs.append({'part': 'O', 'what': 'shuffle', 'form': fid, 'flips': list(fl),
                               'vperm': list(vp), 'cperm': list(cp)})
        # refused arguments (wrong length, not a permutation, not +-1): lists untouched anyway
        okf, okv, okc = [1] * N, list(range(1, N + 1)), list(range(M))
        bad = []
        for i in range(N):
            for v in (0, 2, -2):
                bad.append((okf[:i] + [v] + okf[i + 1:], okv, okc))
        bad += [(okf + [1], okv, okc), (okf[:-1], okv, okc)] if N else [([1], okv, okc)]
        for vp in itertools.product(range(0, N + 2), repeat=N):
            if sorted(vp) != okv:
                bad.append((okf, list(vp), okc))
        bad += [(okf, okv + [N + 1], okc), (okf, okv[::-1][:-1], okc)] if N else [(okf, [1], okc)]
        for cp in itertools.product(range(-1, M + 1), repeat=M):
            if sorted(cp) != okc:
                bad.append((okf, okv, list(cp)))
        bad += [(okf, okv, okc + [M]), (okf, okv, okc[::-1][:-1])] if M else [(okf, okv, [0])]
        for (fl, vp, cp) in bad:
            cs.append({'part': 'O', 'what': 'shuffle', 'form': fid, 'flips': list(fl),
                       'vperm': list(vp), 'cperm': list(cp), 'refused': True})
    return cs


SHUFFLE_FORMS = {'f33': (3, [(1, -2), (2, 3), (-1, -3)]), 'f21': (2, [(1, -2)]), 'f00': (0, []),
                 'f12': (1, [(1,), (-1,)]), 'f30': (3, [])}


def check_other_case(case, R=None):
    import cnfgen
    from cnfgen.formula.cnf import CNF
    from cnfgen.formula.opb import OPB
    what = case['what']
    out = []
    exc = None
    watched = []
    res = None
    if what == 'tseitin':
        G = scope.mk_graph(case['n'], [tuple(e) for e in case['edges']])
        ch = [bool(c) for c in case['charges']] if case['bools'] else list(case['charges'])
        watched = [('charges', ch, 'TseitinFormula:charges')]
        gsnap = st.graph_snapshot(G)
        fn = lambda: cnfgen.TseitinFormula(G, ch)
    elif what == 'bipartite_shift':
        from cnfgen.graphs import bipartite_shift
        p = list(case['pattern'])
        watched = [('pattern', p, 'bipartite_shift:pattern')]
        fn = lambda: bipartite_shift(case['N'], case['M'], p)
    elif what == 'planted':
        pa = [list(a) for a in case['planted']]
        watched = [('planted_assignments', pa, case['fam'] + ':planted_assignments')]
        fc = {'CNF': CNF, 'OPB': OPB}[case['cls']]
        fn = lambda: getattr(cnfgen, case['fam'])(case['k'], case['n'], case['m'], seed=case['seed'],
                                                   planted_assignments=pa, formula_class=fc)
    elif what == 'shuffle':
        N, cl = SHUFFLE_FORMS[case['form']]
        F = scope.mk_cnf(N, cl)
        fl, vp, cp = list(case['flips']), list(case['vperm']), list(case['cperm'])
        watched = [('polarity_flips', fl, 'Shuffle:polarity_flips'),
                   ('variables_permutation', vp, 'Shuffle:variables_permutation'),
                   ('clauses_permutation', cp, 'Shuffle:clauses_permutation')]
        fsnap = st.formula_snapshot(F)
        fn = lambda: cnfgen.Shuffle(F, fl, vp, cp)
    else:
        raise KeyError(what)
    before = [st.typed(x) for _, x, _ in watched]
    try:
        res = fn()
    except Exception as e:
        exc = e
    for b, (nm, x, key) in zip(before, watched):
        if st.typed(x) != b:
            sym = 'modified'
            try:
                if sorted(case.get('pattern', case.get('cperm', []))) == x and what in ('bipartite_shift',):
                    sym = 'sorted-in-place'
            except TypeError:
                pass
            out.append({'key': '%s:%s' % (key, sym),
                        'what': 'argument %s was %r and is %r after the call%s'
                        % (nm, _orig(case, nm), x, ' (which raised %s)' % type(exc).__name__ if exc else ''),
                        'case': case})
    if what == 'tseitin' and st.graph_snapshot(G) != gsnap:
        out.append({'key': 'TseitinFormula:graph-argument-modified', 'what': 'graph changed', 'case': case})
    if what == 'shuffle':
        d = st.diff_formula(fsnap, st.formula_snapshot(F))
        if d:
            out.append({'key': 'Shuffle:input-modified:' + d, 'what': 'input formula changed', 'case': case})
        if res is not None:
            # mutating the result must not reach the caller's lists
            shared = []
            for nm, x, key in watched:
                shared += st.shared_mutables(x, res)
            mid = [st.typed(x) for _, x, _ in watched]
            poke_formula(res)
            for (_, _, c) in shared:
                st.poke(c)
            for b, (nm, x, key) in zip(mid, watched):
                if st.typed(x) != b:
                    out.append({'key': '%s:aliased-by-result' % key,
                                'what': 'mutating the result changed the caller\'s %s' % nm, 'case': case})
    if R is not None:
        R.stats['executions'] += 1
        R.stats['O:calls_ok' if exc is None else 'O:calls_raised'] += 1
        R.outcomes['O:%s:%s' % (what, 'ok' if exc is None else type(exc).__name__)] += 1
        R.case(sample=case if R.evals % 1499 == 0 else None,
               nontrivial=any(len(x) > 0 for _, x, _ in watched))
    return out


def _orig(case, nm):
    return {'charges': case.get('charges'), 'pattern': case.get('pattern'),
            'planted_assignments': case.get('planted'), 'polarity_flips': case.get('flips'),
            'variables_permutation': case.get('vperm'), 'clauses_permutation': case.get('cperm')}.get(nm)


def run_O(chunk, R):
    for case in chunk:
        report(R, check_other_case(case, R))


# ===================================================== long chains (LC) ===
# Provenance over LONG chains: the numbering of the 'transformation i' entries
# must stay consecutive beyond 9 steps (string vs numeric comparison of keys,
# two-digit indices) and earlier entries must survive.  Cheap transformations
# only, so that the formula stays small: the chain is checked after every step.
LC_ALPHABET = ['flip', 'or1', 'shuffle-fixed', 'xor1', 'one1', 'maj1']


def _lc_apply(name, F):
    import cnfgen
    if name == 'flip':
        return cnfgen.FlipPolarity(F)
    if name == 'or1':
        return cnfgen.OrSubstitution(F, 1)
    if name == 'xor1':
        return cnfgen.XorSubstitution(F, 1)
    if name == 'eq1':
        return cnfgen.AllEqualSubstitution(F, 1)
    if name == 'one1':
        return cnfgen.ExactlyOneSubstitution(F, 1)
    if name == 'shuffle-fixed':
        return cnfgen.Shuffle(F, 'fixed', 'fixed', 'fixed')
    if name == 'maj1':
        return cnfgen.MajoritySubstitution(F, 1)
    raise KeyError(name)


def check_long_chain(case):
    import cnfgen
    out = []
    F = cnfgen.CNF([[1, -2], [2, 3], [-1, -3]], description='long chain start')
    if case.get('prefilled'):
        F.header['transformation 1'] = 'something done earlier'
    base = list(F.header.items())
    n0 = sum(1 for k in F.header if str(k).startswith('transformation'))
    for step, name in enumerate(case['chain'], start=1):
        before = list(F.header.items())
        try:
            G = _lc_apply(name, F)
        except Exception as e:
            out.append({'key': 'long-chain:%s:exception:%s' % (name, type(e).__name__),
                        'what': repr(e)[:200], 'case': dict(case)})
            return out
        if list(F.header.items()) != before:
            out.append({'key': 'long-chain:%s:input-header-modified' % name,
                        'what': 'header of the input changed at step %d' % step, 'case': dict(case)})
            return out
        keys = [k for k in G.header if str(k).startswith('transformation')]
        want = ['transformation %d' % i for i in range(1, n0 + step + 1)]
        if keys != want:
            out.append({'key': 'long-chain:header:numbering',
                        'what': 'after %d steps (%s) the header lists %r instead of %r' %
                        (step, name, keys[-4:], want[-4:]), 'case': dict(case)})
            return out
        for k, v in before:
            if k != 'description' and G.header.get(k) != v:
                out.append({'key': 'long-chain:header:earlier-entry-lost',
                            'what': 'entry %r changed or lost at step %d (%s)' % (k, step, name),
                            'case': dict(case)})
                return out
        F = G
    return out


def long_chain_cases(tier):
    import itertools
    L = 12 if tier != 'thorough' else 23
    cs = []
    for i, first in enumerate(LC_ALPHABET):
        for j, second in enumerate(LC_ALPHABET):
            # chain = first repeated, with `second` at every position in turn
            # from 8 on (so each transformation is the 9th, 10th, 11th ... step)
            for pos in range(8, L):
                chain = [first] * L
                chain[pos] = second
                cs.append({'part': 'LC', 'chain': chain, 'prefilled': (i + j + pos) % 2 == 1})
    return cs


def run_LC(chunk, R):
    for case in chunk:
        vs = check_long_chain(case)
        R.stats['long_chains'] += 1
        R.stats['transitions'] += len(case['chain'])
        R.stats['states'] += len(case['chain'])
        R.stats['executions'] += len(case['chain'])
        R.case(sample=case if R.evals % 40 == 0 else None, nontrivial=True)
        report(R, vs)


# ================================================================ runner ===
def replay(case):
    preload()
    part = case.get('part')
    if part == 'LC':
        return check_long_chain(case)
    if part == 'A':
        return replay_A(case)
    if part == 'twin':
        return check_twins(case['start'], case['t'])
    if part == 'T':
        return check_texts(case)
    if part == 'G':
        return check_graph_case(case)
    if part == 'L':
        return check_list_case(case)
    if part == 'O':
        return check_other_case(case)
    raise KeyError(part)


def shards(tier, seed):
    preload()
    thorough = tier == 'thorough'
    out = []
    starts = list(_starts())
    core, ext = core_names(), ext_names()
    units = [[sid, t] for t in core + ext for sid in starts]
    extras = sorted(_extra_starts())
    for j in range(2):
        units += [[extras[(seed + j) % len(extras)], t] for t in core]
    # cost grows with the first transformation's fanout and with the start: interleave
    kA = 36 if thorough else 20
    for i, chunk in enumerate(scope.stripe(units, kA)):
        out.append(('A%03d' % i, 'run_A', {'tier': tier, 'units': chunk}))
    out.append(('T000', 'run_texts', {}))
    for i, chunk in enumerate(scope.stripe(graph_cases(tier), 16 if thorough else 12)):
        out.append(('G%03d' % i, 'run_G', chunk))
    for i, chunk in enumerate(scope.stripe(list_cases(tier), 6 if thorough else 4)):
        out.append(('L%03d' % i, 'run_L', chunk))
    for i, chunk in enumerate(scope.stripe(other_cases(tier), 5 if thorough else 3)):
        out.append(('O%03d' % i, 'run_O', chunk))
    for i, chunk in enumerate(scope.stripe(long_chain_cases(tier), 4)):
        out.append(('LC%02d' % i, 'run_LC', chunk))
    return out
